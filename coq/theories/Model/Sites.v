(** Classification of the site inventories regenerated from the source ([BXGen.Gen_Sites]):
    every non-journaled write, every [panic(] / [go] statement / single-value type assertion in
    the anchored files, the promoted Stub surface and the entry points that reach
    [InterchainManager.ProcessIBTP].  Each inventory entry must be classified here; the coverage
    checks below are booleans proved [= true] in [Properties/C07.v], [C08.v], [C03.v], so a new,
    moved or removed site breaks a proof obligation.  Definitions only. *)
From Coq Require Import String.
From BX Require Import Base.Prelude.
From BXGen Require Import Gen_Sites.
Local Open Scope string_scope.
Local Open Scope N_scope.

Definition skey := (string * string * string)%type.      (* file, function, kind *)
Definition skey_eqb (a b : skey) : bool :=
  String.eqb (fst (fst a)) (fst (fst b)) && String.eqb (snd (fst a)) (snd (fst b)) && String.eqb (snd a) (snd b).

Definition site := (string * string * string * N * bool * string)%type.
Definition site_key (s : site) : skey :=
  let '(f, fn, k, _, _, _) := s in (f, fn, k).
Definition site_flag (s : site) : bool := let '(_, _, _, _, b, _) := s in b.
Definition site_hash (s : site) : string := let '(_, _, _, _, _, h) := s in h.

Definition count_key (k : skey) (l : list site) : N :=
  N.of_nat (List.length (filter (fun s => skey_eqb (site_key s) k) l)).

(** ------------------------------------------------------------------------------------ *)
(** non-journaled writes *)

Inductive add_class :=
| AddIbtpPath        (* executed while an IBTP is handled (HandleIBTP -> ProcessIBTP / CrossInvoke of the Begin methods):
                        modelled as [RawAdd] in the IBTP body; a later failure of the same transaction
                        (audit event, unaffordable fee) leaves it behind *)
| AddGovernance      (* proposal creation inside a governance call: [RawAdd] in a BVM body *)
| AddBlockPost.      (* executor post-processing of the block (timeout list), outside any transaction frame *)

(** key -> (class, number of sites of that key, does a failure return follow one of them lexically) *)
Definition add_table : list (skey * (add_class * N * bool)) :=
  [ (("internal/executor/contracts/governance.go", "Governance.addProposal", "AddObject"), (AddGovernance, 1, false));
    (("internal/executor/contracts/interchain.go", "InterchainManager.ProcessIBTP", "AddObject"), (AddIbtpPath, 1, false));
    (("internal/executor/contracts/transaction_manager.go", "TransactionManager.BeginMultiTXs", "AddObject"), (AddIbtpPath, 1, true));
    (("internal/executor/contracts/transaction_manager.go", "TransactionManager.Begin", "Add"), (AddIbtpPath, 1, true));
    (("internal/executor/contracts/transaction_manager.go", "TransactionManager.BeginInterBitXHub", "Add"), (AddIbtpPath, 2, true));
    (("internal/executor/handle.go", "BlockExecutor.setTimeoutList", "AddState"), (AddBlockPost, 1, false)) ].

Definition any_flag (k : skey) (l : list site) : bool :=
  existsb (fun s => skey_eqb (site_key s) k && site_flag s) l.

Definition adds_covered : bool :=
  forallb (fun s => existsb (fun e => skey_eqb (site_key s) (fst e)) add_table) adds &&
  forallb (fun e : skey * (add_class * N * bool) =>
             (count_key (fst e) adds =? snd (fst (snd e))) && Bool.eqb (any_flag (fst e) adds) (snd (snd e)))
          add_table.

(** ------------------------------------------------------------------------------------ *)
(** panic / go / assert sites *)

Inductive panic_class :=
| UnderRunRecover     (* only reachable from contract code running under BoltVM.Run / HandleIBTP's recover *)
| UnderRunRecoverExceptEvm (* InvokeBVM's result assertion: recovered when called through Run; NOT
                              recovered on the evmInterchain path (EVM log of the InterBroker address) *)
| EventDecode         (* applyTx: [panic(err)] when a harvested event does not decode; executor goroutine,
                         no recover => process crash; reachable iff a malformed event can be posted *)
| AuditTxAssert       (* applyTx: the assertion of tx to BxhTransaction when audit events exist for a non-Bxh tx *)
| ParallelOnly        (* assertions of StateLedger to SimpleLedger guarded by supportParallel (configuration) *)
| FatalStorage        (* ledger / merkle failure in block post-processing: deliberate stop *)
| ProofGoroutine      (* the proof-verification goroutines: a panic inside is a process crash; the call
                         into the validation engine itself runs under checkProof's recover *)
| SigGoroutine        (* the signature-verification goroutines *)
| DetachedSend        (* [go feed.Send(..)]: never panics, never joins *)
| ExecutorLoops       (* the three long-running loops started by Start *)
| Startup.            (* contract registration at start-up *)

Definition panic_table : list (skey * (panic_class * N)) :=
  [ (("internal/executor/contracts/interchain.go", "InterchainManager.getInterchain", "panic"), (UnderRunRecover, 1));
    (("internal/executor/contracts/interchain.go", "InterchainManager.setInterchain", "panic"), (UnderRunRecover, 1));
    (("internal/executor/executor.go", "BlockExecutor.Start", "go"), (ExecutorLoops, 3));
    (("internal/executor/executor.go", "BlockExecutor.verifyProofs", "go"), (ProofGoroutine, 1));
    (("internal/executor/handle.go", "BlockExecutor.rollbackBlocks", "panic"), (FatalStorage, 1));
    (("internal/executor/handle.go", "BlockExecutor.processExecuteEvent", "panic"), (FatalStorage, 6));
    (("internal/executor/handle.go", "BlockExecutor.verifySign", "go"), (SigGoroutine, 1));
    (("internal/executor/handle.go", "BlockExecutor.applyTx", "panic"), (EventDecode, 4));
    (("internal/executor/handle.go", "BlockExecutor.applyTx", "assert"), (AuditTxAssert, 1));
    (("internal/executor/handle.go", "BlockExecutor.postAuditEvent", "go"), (DetachedSend, 1));
    (("internal/executor/handle.go", "BlockExecutor.postNodeEvent", "go"), (DetachedSend, 1));
    (("internal/executor/handle.go", "BlockExecutor.postBlockEvent", "go"), (DetachedSend, 2));
    (("internal/executor/handle.go", "BlockExecutor.postLogsEvent", "go"), (DetachedSend, 1));
    (("internal/executor/handle.go", "BlockExecutor.applyTransaction", "assert"), (ParallelOnly, 6));   (* 2 added by the IBTP revert fix c5b36093, all under supportParallel *)
    (("internal/executor/handle.go", "BlockExecutor.getChanger", "assert"), (ParallelOnly, 1));
    (("pkg/vm/boltvm/bolt_stub.go", "BoltStubImpl.SetObject", "panic"), (UnderRunRecover, 1));
    (("pkg/vm/boltvm/bolt_stub.go", "BoltStubImpl.AddObject", "panic"), (UnderRunRecover, 1));
    (("pkg/vm/boltvm/bolt_stub.go", "BoltStubImpl.postEvent", "panic"), (UnderRunRecover, 1));
    (("pkg/vm/boltvm/boltvm.go", "BoltVM.InvokeBVM", "assert"), (UnderRunRecoverExceptEvm, 1));
    (("pkg/vm/boltvm/register.go", "Register", "panic"), (Startup, 1)) ].

Definition panics_covered : bool :=
  forallb (fun s => existsb (fun e => skey_eqb (site_key s) (fst e)) panic_table) panics &&
  forallb (fun e : skey * (panic_class * N) => count_key (fst e) panics =? snd (snd e)) panic_table.

(** the only functions that install a recover *)
Definition recovers_expected : list (string * string) :=
  [("internal/executor/executor.go", "BlockExecutor.checkProof");   (* guards the call into the validation engine *)
   ("pkg/vm/boltvm/boltvm.go", "BoltVM.Run"); ("pkg/vm/boltvm/boltvm.go", "BoltVM.HandleIBTP")].
Definition str2_eqb (a b : string * string) := String.eqb (fst a) (fst b) && String.eqb (snd a) (snd b).
Definition recovers_covered : bool := list_eqb str2_eqb recovers recovers_expected.

(** ------------------------------------------------------------------------------------ *)
(** undo closures: [stateChanger.revert] holds the changer's non re-entrant lock while it runs the
    [revert()] of every change, so a revert method may only call the NON-journaling setters; a call
    of a journaling one ([SetCodeAndHash], [SetState], [SetBalance], [SetNonce], ...) appends to the
    changer and deadlocks the executor goroutine (outcome [Hang] in [Model/Dispatch.v]).
    [GetOrCreateAccount] journals only when the object is missing, which cannot be the case while a
    younger change of that account is being undone. *)
Definition revert_allowed : list string :=
  ["DeleteAddress"; "DeleteSlot"; "len"; "delete"; "String"; "rmAccount"; "GetOrCreateAccount";
   "setBalance"; "setNonce"; "setCodeAndHash"; "setState"].

Definition reverts_covered : bool :=
  forallb (fun r : string * list string => forallb (fun c => existsb (String.eqb c) revert_allowed) (snd r)) revert_calls &&
  (N.of_nat (List.length revert_calls) =? 11).

(** ------------------------------------------------------------------------------------ *)
(** reflection: which Go parameter types can be produced by [parseArgs] *)

Inductive pkind := KStr | KBytes | KU64 | KI32 | KI64 | KBool | KF64 | KIface | KOther.

Definition pkind_of (t : string) : pkind :=
  if String.eqb t "string" then KStr
  else if String.eqb t "[]byte" then KBytes
  else if String.eqb t "uint64" then KU64
  else if String.eqb t "int32" then KI32
  else if String.eqb t "int64" then KI64
  else if String.eqb t "bool" then KBool
  else if String.eqb t "float64" then KF64
  else if String.eqb t "interface{}" then KIface
  else KOther.

Definition constructible (params : list string) : bool :=
  forallb (fun t => match pkind_of t with KOther => false | _ => true end) params.

(** a variadic last parameter may simply be omitted *)
Definition callable_by_name (params : list string) : bool :=
  constructible params ||
  match rev params with
  | last :: front => (String.prefix "..." last) && constructible (rev front)
  | [] => true
  end.

(** promoted Stub methods an external account can actually invoke by name on every contract that
    does not shadow them, with the effect class of the call *)
Inductive stub_effect := SeReadOnly | SeJournaledWrite | SeRawWrite | SeEvent | SeCross | SeEvm | SeAccount.

Definition stub_table : list (string * stub_effect) :=
  [ ("Add", SeRawWrite); ("AddObject", SeRawWrite); ("Callee", SeReadOnly); ("Caller", SeReadOnly);
    ("CrossInvoke", SeCross); ("CrossInvokeEVM", SeEvm); ("CurrentCaller", SeReadOnly);
    ("Delete", SeJournaledWrite); ("EnableAudit", SeReadOnly); ("Get", SeReadOnly); ("GetAccount", SeAccount);
    ("GetCurrentHeight", SeReadOnly); ("GetObject", SeReadOnly); ("GetTxHash", SeReadOnly);
    ("GetTxIndex", SeReadOnly); ("GetTxTimeStamp", SeReadOnly); ("Has", SeReadOnly); ("Logger", SeReadOnly);
    ("PostEvent", SeEvent); ("PostInterchainEvent", SeEvent); ("Query", SeReadOnly);
    ("Set", SeJournaledWrite); ("SetObject", SeJournaledWrite); ("ValidationEngine", SeReadOnly) ].

Definition stub_name (m : string * list string * bool) : string := fst (fst m).
Definition stub_params (m : string * list string * bool) : list string := snd (fst m).

Definition stub_covered : bool :=
  forallb (fun m => existsb (fun e : string * stub_effect => String.eqb (stub_name m) (fst e)) stub_table) stub_methods &&
  (N.of_nat (List.length stub_methods) =? N.of_nat (List.length stub_table)).

(** the promoted methods reachable by name with arguments [parseArgs] can build *)
Definition promoted_callable : list string :=
  map stub_name (filter (fun m => callable_by_name (stub_params m)) stub_methods).

(** every contract type embeds the Stub as its first field; only [Store] shadows two methods *)
Definition shadows_expected : list (string * list string) := [("Store", ["Get"; "Set"])].
Definition contract_types_covered : bool :=
  forallb (fun ct : string * list string =>
             match snd ct with
             | [] => true
             | l => existsb (fun e : string * list string =>
                               String.eqb (fst e) (fst ct) && list_eqb String.eqb (snd e) l) shadows_expected
             end) contract_types.

(** ------------------------------------------------------------------------------------ *)
(** entry points that reach ProcessIBTP *)

Inductive entry_class :=
| EntryIbtpTx          (* InterchainManager.HandleIBTP: only through the IBTP transaction path (proof checked);
                          by name its parameter cannot be constructed *)
| EntryInternal        (* not constructible by name *)
| EntryUnguardedData   (* HandleIBTPData(bytes): callable by name, no caller check, no proof check *)
| EntryUnguardedEmit.  (* InterBroker.EmitInterchain: callable by name, caller chooses fromServiceId *)

Definition entry_table : list ((string * string) * entry_class) :=
  [ (("InterBroker", "EmitInterchain"), EntryUnguardedEmit);
    (("InterchainManager", "HandleIBTP"), EntryIbtpTx);
    (("InterchainManager", "HandleIBTPData"), EntryUnguardedData);
    (("InterchainManager", "ProcessIBTP"), EntryInternal) ].

Definition entry := (string * string * list string * bool * bool)%type.
Definition entry_name (x : entry) : string * string := let '(t, m, _, _, _) := x in (t, m).
Definition entry_params (x : entry) : list string := let '(_, _, p, _, _) := x in p.
Definition entry_guarded (x : entry) : bool := let '(_, _, _, _, g) := x in g.

Definition entry_class_of (x : entry) : option entry_class :=
  match filter (fun e : (string * string) * entry_class => str2_eqb (fst e) (entry_name x)) entry_table with
  | e :: _ => Some (snd e)
  | [] => None
  end.

(** an entry is consistent with its class: the classes that claim "not callable by name" really
    have an unconstructible parameter list; the unguarded ones are callable and have no caller check *)
Definition entry_ok (x : entry) : bool :=
  match entry_class_of x with
  | None => false
  | Some EntryIbtpTx | Some EntryInternal => negb (callable_by_name (entry_params x))
  | Some EntryUnguardedData | Some EntryUnguardedEmit => callable_by_name (entry_params x) && negb (entry_guarded x)
  end.

Definition entries_covered : bool :=
  forallb entry_ok process_entries &&
  (N.of_nat (List.length process_entries) =? N.of_nat (List.length entry_table)).

(** entry points through which an external account can have an IBTP processed without a proof check *)
Definition open_entries : list (string * string) :=
  map entry_name (filter (fun x => match entry_class_of x with
                                   | Some EntryUnguardedData | Some EntryUnguardedEmit => true
                                   | _ => false end) process_entries).

(** exported contract methods without a *Response result (they run before the dispatcher notices) *)
Definition non_response_expected : list (string * string) :=
  [("InterchainManager", "InitServiceCache"); ("InterchainManager", "ProcessIBTP")].
Definition non_response_covered : bool :=
  list_eqb str2_eqb (map (fun x : string * string * list string => (fst (fst x), snd (fst x))) non_response_methods)
           non_response_expected.
