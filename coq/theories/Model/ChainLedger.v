(** Model of [internal/ledger/chain_ledger_impl.go], [chain_meta.go], [key.go] and of the
    chain side of [ledger.go] on top of bitxhub-kit's [storage/blockfile] (five append-only
    tables) and one leveldb (the "chain index").  Definitions only.

    Hashes are numbers ([N]); the ledger itself never hashes anything, so the operations do
    not mention a hash function.  The header hash function and the Merkle root function
    appear only in the well-formedness conditions and in the chain invariant, as Section
    variables (abstract, injective); for running the judge they are instantiated by the
    finite oracle tables the driver produced by really hashing (see [oracle_hash]). *)
From BX Require Import Base.Prelude.
Local Open Scope N_scope.

(** * Defect flags (DESIGN 3.3) *)
Record Defects := mkDefects {
  d_rb_heightkey : bool;  (* removeChainDataOnBlock does not delete block-height-<h> *)
  d_bhash_codec : bool;   (* block-height-<h> holds the hex STRING of the hash, GetBlockHash
                             decodes it as raw bytes: the result is not the block's hash *)
  d_meta_del_first : bool; (* NOT a defect of the pinned tree: a rollback batch that deletes chain-meta
                             and puts it again in the same batch (kept to show what the store kind
                             does to such a batch) *)
  c_ordered : bool        (* CONFIGURATION, not a defect: leveldb_type "normal" = ordered batches
                             (true), "multi" = all Puts of a batch first, then all Deletes (false) *)
}.
Definition cfg_fixed : Defects :=
  {| d_rb_heightkey := false; d_bhash_codec := false; d_meta_del_first := false; c_ordered := true |}.
Definition cfg_fixed_multi : Defects :=
  {| d_rb_heightkey := false; d_bhash_codec := false; d_meta_del_first := false; c_ordered := false |}.
Definition cfg_pinned : Defects :=   (* the tree as pinned *)
  {| d_rb_heightkey := true; d_bhash_codec := true; d_meta_del_first := false; c_ordered := true |}.
(** flags of the findings still open in known_findings.d/C09.json: both defects were
    repaired in /repo ("fix:" commits), so a regression no longer matches any allowed cfg *)
Definition cfg_current : Defects := cfg_fixed.
(** the judge is told the store kind of the run; with the flags off it makes no difference
    ([ChainLedgerProofs.store_kind_irrelevant]) *)
Definition cfgs_allowed : list Defects := [cfg_current].

(** * Data *)
Record header := mkHdr { h_number : N; h_parent : N; h_state : N; h_txroot : N; h_rcroot : N }.
Record block := mkBlk { b_hdr : header; b_hash : N; b_txs : list N }.
(** interchain meta: Counter as (key, verified indexes) in key order, and one tag standing
    for the remaining fields (timeout / multi-tx counters, L2 roots) *)
Definition imeta := (list (N * list N) * N)%type.
Definition im_count (m : imeta) : N :=
  fold_right (fun kv acc => N.of_nat (length (snd kv)) + acc) 0 (fst m).

(** what one PersistExecutionResult call is given *)
Record entry := mkEntry { e_blk : block; e_rcpts : list N; e_im : imeta }.

Record cmeta := mkMeta { cm_height : N; cm_hash : N; cm_count : N }.
Definition meta0 : cmeta := mkMeta 0 0 0.

(** * Blockfile: five tables, item k (0-based) belongs to height k+1 *)
Record bfile := mkBF {
  bf_hashes : list N;
  bf_bodies : list (header * N);     (* stored block without transactions: header, block hash *)
  bf_txs : list (list N);
  bf_rcpts : list (list N);
  bf_ics : list imeta }.
Definition bf_empty : bfile := mkBF [] [] [] [] [].

Definition tlen {A} (l : list A) : N := N.of_nat (length l).
(** [BlockFile.Get kind number] = [table.Retrieve (number-1)]; number 0 underflows to 2^64-1 *)
Definition tget {A} (l : list A) (h : N) : option A :=
  if h =? 0 then None else nth_error l (N.to_nat (h - 1)).
Definition ttrunc {A} (items : N) (l : list A) : list A := firstn (N.to_nat items) l.

Definition bf_min (b : bfile) : N :=
  N.min (tlen (bf_hashes b)) (N.min (tlen (bf_bodies b)) (N.min (tlen (bf_txs b))
        (N.min (tlen (bf_rcpts b)) (tlen (bf_ics b))))).
Definition bf_trunc (items : N) (b : bfile) : bfile :=
  mkBF (ttrunc items (bf_hashes b)) (ttrunc items (bf_bodies b)) (ttrunc items (bf_txs b))
       (ttrunc items (bf_rcpts b)) (ttrunc items (bf_ics b)).
(** [NewBlockFile] / [repair]: all tables are cut to the shortest one *)
Definition bf_repair (b : bfile) : bfile := bf_trunc (bf_min b) b.
(** [bf.blocks] of an opened (repaired) file *)
Definition bf_blocks (b : bfile) : N := bf_min b.
(** [TruncateBlocks items]: no-op unless [blocks > items] *)
Definition bf_truncate_blocks (items : N) (b : bfile) : bfile :=
  if bf_blocks b <=? items then b else bf_trunc items b.
Definition bf_append (e : entry) (b : bfile) : bfile :=
  mkBF (bf_hashes b ++ [b_hash (e_blk e)])
       (bf_bodies b ++ [(b_hdr (e_blk e), b_hash (e_blk e))])
       (bf_txs b ++ [b_txs (e_blk e)])
       (bf_rcpts b ++ [e_rcpts e])
       (bf_ics b ++ [e_im e]).

(** * Chain index (one leveldb); one association list per key family of key.go *)
Definition txmeta := (N * N * N)%type.    (* block height, block hash, index *)
Record index := mkIx {
  ix_bhash : list (N * N);            (* block-hash-<hash>   -> height *)
  ix_height : list (N * N);           (* block-height-<h>    -> hash *)
  ix_txset : list (N * list N);       (* block-tx-set-<h>    -> tx hashes *)
  ix_txmeta : list (N * txmeta);      (* tx-meta-<txhash>    -> meta *)
  ix_meta : option cmeta }.           (* chain-meta *)
Definition ix_empty : index := mkIx [] [] [] [] None.

Definition nlookup {V} := @alookup N V N.eqb.
Definition nset {V} := @aset N V N.eqb.
Definition nremove {V} := @aremove N V N.eqb.

(** [loadChainMeta] *)
Definition load_meta (ix : index) : cmeta :=
  match ix_meta ix with Some m => m | None => meta0 end.

(** [prepareTransactions]: one Put per transaction in block order (a later one overwrites) *)
Fixpoint put_txmetas (num bh i : N) (txs : list N) (m : list (N * txmeta)) : list (N * txmeta) :=
  match txs with
  | [] => m
  | t :: r => put_txmetas num bh (i + 1) r (nset t (num, bh, i) m)
  end.
Fixpoint del_txmetas (txs : list N) (m : list (N * txmeta)) : list (N * txmeta) :=
  match txs with
  | [] => m
  | t :: r => del_txmetas r (nremove t m)
  end.

(** the batch built by PersistExecutionResult (prepareTransactions, prepareBlock,
    persistChainMeta), applied atomically; [memcount] is the in-memory cumulative count *)
Definition new_meta (memcount : N) (e : entry) : cmeta :=
  mkMeta (h_number (b_hdr (e_blk e))) (b_hash (e_blk e)) (im_count (e_im e) + memcount).
Definition persist_index (memcount : N) (e : entry) (ix : index) : index :=
  let b := e_blk e in
  let num := h_number (b_hdr b) in
  mkIx (nset (b_hash b) num (ix_bhash ix))
       (nset num (b_hash b) (ix_height ix))
       (nset num (b_txs b) (ix_txset ix))
       (put_txmetas num (b_hash b) 0 (b_txs b) (ix_txmeta ix))
       (Some (new_meta memcount e)).

(** * Storage batches.  A batch is the list of its operations in program order.  An ordered
    store (goleveldb) applies them in order; the multi-layer store of bitxhub-kit applies all
    Puts first and all Deletes afterwards.  The two agree on every batch in which no key is
    both put and deleted ([ChainLedgerProofs.apply_kind_conflict_free]). *)
Inductive kvop (V : Type) : Type := KPut (k : N) (v : V) | KDel (k : N).
Arguments KPut {V} k v. Arguments KDel {V} k.
Definition is_put {V} (o : kvop V) : bool := match o with KPut _ _ => true | KDel _ => false end.
Definition is_del {V} (o : kvop V) : bool := negb (is_put o).
Definition op_key {V} (o : kvop V) : N := match o with KPut k _ => k | KDel k => k end.
Fixpoint apply_seq {V} (ops : list (kvop V)) (m : list (N * V)) : list (N * V) :=
  match ops with
  | [] => m
  | KPut k v :: r => apply_seq r (nset k v m)
  | KDel k :: r => apply_seq r (nremove k m)
  end.
Definition apply_kind {V} (ordered : bool) (ops : list (kvop V)) (m : list (N * V)) : list (N * V) :=
  if ordered then apply_seq ops m
  else apply_seq (filter is_del ops) (apply_seq (filter is_put ops) m).
Definition conflict_free {V} (ops : list (kvop V)) : Prop :=
  forall a b, In a ops -> In b ops -> is_put a = true -> is_del b = true -> op_key a <> op_key b.

(** the operations PersistExecutionResult puts into its batch, per key family (all Puts) *)
Fixpoint txmeta_puts (num bh i : N) (txs : list N) : list (kvop txmeta) :=
  match txs with [] => [] | t :: r => KPut t (num, bh, i) :: txmeta_puts num bh (i + 1) r end.
(** the operations one removeChainDataOnBlock puts into the rollback batch (all Deletes) *)
Definition txmeta_dels (txs : list N) : list (kvop txmeta) := map (fun t => KDel t) txs.

(** the chain-meta key: the one key of a rollback batch for which the code chooses between a
    Put and a Delete.  Key 0 of a one-key family. *)
Definition meta_ops (cfg : Defects) (t : N) (m : cmeta) : list (kvop cmeta) :=
  if d_meta_del_first cfg then (if t =? 0 then [KDel 0] else [KDel 0; KPut 0 m])
  else (if t =? 0 then [KDel 0] else [KPut 0 m]).
Definition meta_after (cfg : Defects) (ops : list (kvop cmeta)) (cur : option cmeta) : option cmeta :=
  nlookup 0 (apply_kind (c_ordered cfg) ops (match cur with Some m => [(0, m)] | None => [] end)).

(** * State-ledger journal window (heights only), as far as [Ledger.Rollback] and
      [SimpleLedger.Commit] decide acceptance: on-disk minHeight, in-memory minJnlHeight,
      maxJnlHeight *)
Record jwin := mkJw { jw_dmin : N; jw_mmin : N; jw_max : N }.
Definition jw0 : jwin := mkJw 0 0 0.
Definition jw_commit (h : N) (j : jwin) : jwin :=
  let j1 := if jw_mmin j =? 0 then mkJw h h h else mkJw (jw_dmin j) (jw_mmin j) h in
  if 10 <? h then
    let t := h - 10 in
    if t <=? jw_mmin j1 then j1 else mkJw t t h
  else j1.
(** result codes of rollback: 0 ok, 1 "rollback to higher blockchain height",
    2 "rollback too much block", 3 failed half-way *)
Definition jw_rollback (t : N) (j : jwin) : N * jwin :=
  if jw_max j <? t then (1, j)
  else if (t <? jw_mmin j) && negb ((jw_mmin j =? 1) && (t =? 0)) then (2, j)
  else if jw_max j =? t then (0, j)
  else (0, mkJw (jw_dmin j) (if t =? 0 then 0 else jw_mmin j) t).
Definition jw_reopen (j : jwin) : jwin := mkJw (jw_dmin j) (jw_dmin j) (jw_max j).

(** * The live chain ledger *)
Record cledger := mkCL { cl_bf : bfile; cl_ix : index; cl_mem : cmeta; cl_jw : jwin }.
Definition cl_empty : cledger := mkCL bf_empty ix_empty meta0 jw0.

Inductive res (A : Type) : Type := ROk (a : A) | RNotFound | RFail | RPanic.
Arguments ROk {A} a. Arguments RNotFound {A}. Arguments RFail {A}. Arguments RPanic {A}.

(** ** Lookups *)
Definition get_block (s : cledger) (h : N) (full : bool) : res block :=
  match tget (bf_bodies (cl_bf s)) h with
  | None => RFail
  | Some (hd, bh) =>
      if full then
        match tget (bf_txs (cl_bf s)) h with
        | None => RFail
        | Some txs => ROk (mkBlk hd bh txs)
        end
      else
        match nlookup h (ix_txset (cl_ix s)) with
        | None => RFail
        | Some txs => ROk (mkBlk hd bh txs)
        end
  end.
(** [GetBlockHash]: the zero hash (0) when the key is absent.  With [d_bhash_codec] the
    stored hex string is read back as raw bytes: some value that is not the hash (the last 32
    characters of the hex string); [garble] stands for that injective re-encoding *)
Definition garble (x : N) : N := x + 2 ^ 256.
Definition get_block_hash (cfg : Defects) (s : cledger) (h : N) : N :=
  match nlookup h (ix_height (cl_ix s)) with
  | Some x => if d_bhash_codec cfg then garble x else x
  | None => 0
  end.
Definition get_block_by_hash (s : cledger) (x : N) (full : bool) : res block :=
  match nlookup x (ix_bhash (cl_ix s)) with
  | None => RNotFound
  | Some h => get_block s h full
  end.
Definition get_tx_meta (s : cledger) (t : N) : res txmeta :=
  match nlookup t (ix_txmeta (cl_ix s)) with None => RNotFound | Some m => ROk m end.
Definition get_from_table (tbl : list (list N)) (m : txmeta) : res N :=
  let '(h, _, i) := m in
  match tget tbl h with
  | None => RFail
  | Some l => match nth_error l (N.to_nat i) with
              | None => RPanic            (* Go: index out of range *)
              | Some x => ROk x
              end
  end.
Definition get_tx (s : cledger) (t : N) : res N :=
  match nlookup t (ix_txmeta (cl_ix s)) with
  | None => RNotFound
  | Some m => get_from_table (bf_txs (cl_bf s)) m
  end.
Definition get_receipt (s : cledger) (t : N) : res N :=
  match nlookup t (ix_txmeta (cl_ix s)) with
  | None => RNotFound
  | Some m => get_from_table (bf_rcpts (cl_bf s)) m
  end.
Definition get_chain_meta (s : cledger) : cmeta := cl_mem s.
Definition get_ic (s : cledger) (h : N) : res imeta :=
  match tget (bf_ics (cl_bf s)) h with None => RFail | Some m => ROk m end.
Definition get_rcpts_raw (s : cledger) (h : N) : res (list N) :=
  match tget (bf_rcpts (cl_bf s)) h with None => RFail | Some m => ROk m end.
(** [GetBlockSign] = signature of [GetBlock h false]; the signature was made over the stored
    block hash, so the observable is "the hash the stored signature verifies for" *)
Definition get_block_sign (s : cledger) (h : N) : res N :=
  match get_block s h false with
  | ROk b => ROk (b_hash b) | RNotFound => RNotFound | RFail => RFail | RPanic => RPanic
  end.

(** ** PersistExecutionResult.  [None] = the AppendBlock goroutine panics ("the append
    operation is out-order"): the process dies *)
Definition persist_chain (e : entry) (s : cledger) : option cledger :=
  if bf_blocks (cl_bf s) =? cm_height (cl_mem s) then
    Some (mkCL (bf_append e (cl_bf s))
               (persist_index (cm_count (cl_mem s)) e (cl_ix s))
               (new_meta (cm_count (cl_mem s)) e)
               (cl_jw s))
  else None.

(** ** RollbackBlockChain *)
Definition usub64 (a c : N) : N := if c <=? a then a - c else a + W64 - c.

(** one [removeChainDataOnBlock]: reads go to the committed index [ix0], deletes to the batch
    (accumulated in [ixb]); the blockfile is truncated at once *)
Definition remove_on_block (cfg : Defects) (ix0 : index) (i : N) (st : bfile * index * N)
  : option (bfile * index * N) :=
  let '(bf, ixb, cnt) := st in
  match tget (bf_bodies bf) i, nlookup i (ix_txset ix0), tget (bf_ics bf) i with
  | Some (hd, bh), Some txs, Some im =>
      Some (bf_truncate_blocks (i - 1) bf,
            mkIx (nremove bh (ix_bhash ixb))
                 (if d_rb_heightkey cfg then ix_height ixb else nremove i (ix_height ixb))
                 (nremove i (ix_txset ixb))
                 (del_txmetas txs (ix_txmeta ixb))
                 (ix_meta ixb),
            usub64 cnt (im_count im))
  | _, _, _ => None
  end.

(** heights [top, top-1, ..., top-n+1] *)
Fixpoint heights_down (n : nat) (top : N) : list N :=
  match n with O => [] | S k => top :: heights_down k (top - 1) end.

(** the loop; on an error the blockfile stays truncated as far as the loop got *)
Fixpoint rb_loop (cfg : Defects) (ix0 : index) (hs : list N) (st : bfile * index * N)
  : (bfile * index * N) * bool :=
  match hs with
  | [] => (st, true)
  | i :: r =>
      match remove_on_block cfg ix0 i st with
      | Some st' => rb_loop cfg ix0 r st'
      | None => (st, false)
      end
  end.

Definition rollback_chain (cfg : Defects) (t : N) (s : cledger) : N * cledger :=
  let meta := cl_mem s in
  if cm_height meta <? t then (1, s)
  else if cm_height meta =? t then (0, s)
  else
    let hs := heights_down (N.to_nat (cm_height meta - t)) (cm_height meta) in
    match rb_loop cfg (cl_ix s) hs (cl_bf s, cl_ix s, cm_count meta) with
    | ((bf, _, _), false) => (3, mkCL bf (cl_ix s) (cl_mem s) (cl_jw s))
    | ((bf, ixb, cnt), true) =>
        if t =? 0 then
          (0, mkCL bf (mkIx (ix_bhash ixb) (ix_height ixb) (ix_txset ixb) (ix_txmeta ixb)
                            (meta_after cfg (meta_ops cfg t meta0) (ix_meta ixb)))
                   meta0 (cl_jw s))
        else
          (* GetBlock(t,false) on the truncated blockfile and the committed index *)
          match tget (bf_bodies bf) t, nlookup t (ix_txset (cl_ix s)) with
          | Some (hd, bh), Some _ =>
              let m := mkMeta (h_number hd) bh cnt in
              (0, mkCL bf (mkIx (ix_bhash ixb) (ix_height ixb) (ix_txset ixb) (ix_txmeta ixb)
                                (meta_after cfg (meta_ops cfg t m) (ix_meta ixb)))
                       m (cl_jw s))
          | _, _ => (3, mkCL bf (cl_ix s) (cl_mem s) (cl_jw s))
          end
    end.

(** blockfile on (re)open: NewBlockFile.repair, then NewChainLedgerImpl drops the one block a
    crash can leave beyond the chain meta (repaired in /repo; see Model/Crash.v) *)
Definition reopen_bf (cm : cmeta) (bf : bfile) : bfile :=
  let r := bf_repair bf in
  if bf_blocks r =? cm_height cm + 1 then bf_truncate_blocks (cm_height cm) r else r.

(** * Histories.  [full = true]: driven through [ledger.Ledger] (PersistBlockData,
    Ledger.Rollback = state first, then chain; reopen = ledger.New);  [full = false]: the
    chain ledger alone (PersistExecutionResult, RollbackBlockChain, NewChainLedgerImpl). *)
(** [OReexec e]: the executor is handed a block whose number k is NOT head+1 (consensus
    re-delivers a different block for an already executed height): [rollbackBlocks] rolls the
    ledger back to k-1 ([Ledger.Rollback (old.Height()-1)]) and the block is executed and
    persisted on top of block k-1 (executor/handle.go processExecuteEvent). *)
Inductive op := OPersist (e : entry) | ORollback (t : N) | OReopen | OReexec (e : entry).

(** step result codes: persist 0 ok / 9 out-of-order (not executed: the process would die);
    rollback 0,1,2,3 as above; reopen 0; re-execution: 0, the rollback's refusal code (the
    executor panics on it), 11 when there is no block of that number to replace *)
Definition step_base (cfg : Defects) (full : bool) (o : op) (s : cledger) : N * cledger :=
  match o with
  | OReexec _ => (11, s)
  | OPersist e =>
      match persist_chain e s with
      | None => (9, s)
      | Some s' =>
          (0, if full then mkCL (cl_bf s') (cl_ix s') (cl_mem s')
                                (jw_commit (h_number (b_hdr (e_blk e))) (cl_jw s'))
              else s')
      end
  | ORollback t =>
      if full then
        match jw_rollback t (cl_jw s) with
        | (0, j) => rollback_chain cfg t (mkCL (cl_bf s) (cl_ix s) (cl_mem s) j)
        | (c, _) => (c, s)
        end
      else rollback_chain cfg t s
  | OReopen =>
      (* NewBlockFile.repair, loadChainMeta, NewSimpleLedger; ledger.New's Rollback(meta.Height)
         is a no-op on both sides while state and chain move in lockstep *)
      (0, mkCL (reopen_bf (load_meta (cl_ix s)) (cl_bf s)) (cl_ix s) (load_meta (cl_ix s))
               (if full then jw_reopen (cl_jw s) else cl_jw s))
  end.
Definition step (cfg : Defects) (full : bool) (o : op) (s : cledger) : N * cledger :=
  match o with
  | OReexec e =>
      let k := h_number (b_hdr (e_blk e)) in
      if (k =? 0) || (cm_height (cl_mem s) <? k) then (11, s)
      else match step_base cfg full (ORollback (k - 1)) s with
           | (0, s') => step_base cfg full (OPersist e) s'
           | (c, _) => (c, s)
           end
  | _ => step_base cfg full o s
  end.

Fixpoint run (cfg : Defects) (full : bool) (ops : list op) (s : cledger) : cledger :=
  match ops with
  | [] => s
  | o :: r => run cfg full r (snd (step cfg full o s))
  end.

(** * Observations: every lookup over a fixed universe (heights 0..kh, a list of block
    hashes, a list of transaction hashes) *)
Record hobs := mkHobs {
  ho_full : res block; ho_idx : res block; ho_bhash : N; ho_ic : res imeta;
  ho_rcpts : res (list N); ho_sign : res N }.
Record tobs := mkTobs { to_tx : res N; to_meta : res txmeta; to_rcpt : res N }.
Record obs := mkObs {
  o_meta : cmeta;        (* GetChainMeta: the cached chain meta *)
  o_stored : cmeta;      (* LoadChainMeta: what a fresh process reads from the store *)
  o_heights : list hobs; o_hashes : list (res block); o_txs : list tobs }.
Record universe := mkU { u_kh : nat; u_hashes : list N; u_txs : list N }.

Definition nseq (n : nat) : list N := map N.of_nat (seq 0 n).   (* 0 .. n-1 *)

Definition observe_h (cfg : Defects) (s : cledger) (h : N) : hobs :=
  mkHobs (get_block s h true) (get_block s h false) (get_block_hash cfg s h) (get_ic s h)
         (get_rcpts_raw s h) (get_block_sign s h).
Definition observe_t (s : cledger) (t : N) : tobs :=
  mkTobs (get_tx s t) (get_tx_meta s t) (get_receipt s t).
Definition observe (cfg : Defects) (U : universe) (s : cledger) : obs :=
  mkObs (get_chain_meta s) (load_meta (cl_ix s))
        (map (observe_h cfg s) (nseq (S (u_kh U))))
        (map (fun x => get_block_by_hash s x true) (u_hashes U))
        (map (observe_t s) (u_txs U)).

(** * Specification: the stack of entries that survive (what "was executed") *)
Definition spec := list entry.     (* oldest first; item k is height k+1 *)

Definition spec_meta (sp : spec) : cmeta :=
  match rev sp with
  | [] => meta0
  | e :: _ => mkMeta (tlen sp) (b_hash (e_blk e)) (fold_right (fun e acc => im_count (e_im e) + acc) 0 sp)
  end.

Definition expected_h (sp : spec) (h : N) : hobs :=
  match tget sp h with
  | Some e => mkHobs (ROk (e_blk e)) (ROk (e_blk e)) (b_hash (e_blk e)) (ROk (e_im e))
                     (ROk (e_rcpts e)) (ROk (b_hash (e_blk e)))
  | None => mkHobs RFail RFail 0 RFail RFail RFail
  end.
Definition find_by_hash (sp : spec) (x : N) : option entry :=
  find (fun e => b_hash (e_blk e) =? x) sp.
Definition expected_x (sp : spec) (x : N) : res block :=
  match find_by_hash sp x with Some e => ROk (e_blk e) | None => RNotFound end.

(** position of a transaction hash: first block containing it, first index in it *)
Fixpoint index_of (t : N) (l : list N) (i : N) : option N :=
  match l with [] => None | x :: r => if x =? t then Some i else index_of t r (i + 1) end.
Fixpoint find_tx (t : N) (sp : spec) (h : N) : option (N * entry * N) :=
  match sp with
  | [] => None
  | e :: r => match index_of t (b_txs (e_blk e)) 0 with
              | Some i => Some (h, e, i)
              | None => find_tx t r (h + 1)
              end
  end.
Definition res_of_opt {A} (o : option A) : res A := match o with Some a => ROk a | None => RPanic end.
Definition expected_t (sp : spec) (t : N) : tobs :=
  match find_tx t sp 1 with
  | Some (h, e, i) => mkTobs (ROk t) (ROk (h, b_hash (e_blk e), i))
                             (res_of_opt (nth_error (e_rcpts e) (N.to_nat i)))
  | None => mkTobs RNotFound RNotFound RNotFound
  end.
Definition expected (U : universe) (sp : spec) : obs :=
  mkObs (spec_meta sp) (spec_meta sp) (map (expected_h sp) (nseq (S (u_kh U))))
        (map (expected_x sp) (u_hashes U)) (map (expected_t sp) (u_txs U)).

(** transaction lookups when a hash may occur more than once: any live occurrence is a right
    answer; "not found" is right only when there is none *)
Definition tx_occurs (sp : spec) (t : N) : bool :=
  existsb (fun e => existsb (N.eqb t) (b_txs (e_blk e))) sp.

(** * Boolean equalities (for the judge and the reflection lemmas) *)
Definition hdr_eqb (a b : header) : bool :=
  (h_number a =? h_number b) && (h_parent a =? h_parent b) && (h_state a =? h_state b)
  && (h_txroot a =? h_txroot b) && (h_rcroot a =? h_rcroot b).
Definition nlist_eqb := list_eqb N.eqb.
Definition block_eqb (a b : block) : bool :=
  hdr_eqb (b_hdr a) (b_hdr b) && (b_hash a =? b_hash b) && nlist_eqb (b_txs a) (b_txs b).
Definition imeta_eqb (a b : imeta) : bool :=
  list_eqb (fun p q => (fst p =? fst q) && nlist_eqb (snd p) (snd q)) (fst a) (fst b) && (snd a =? snd b).
Definition cmeta_eqb (a b : cmeta) : bool :=
  (cm_height a =? cm_height b) && (cm_hash a =? cm_hash b) && (cm_count a =? cm_count b).
Definition txmeta_eqb (a b : txmeta) : bool :=
  (fst (fst a) =? fst (fst b)) && (snd (fst a) =? snd (fst b)) && (snd a =? snd b).
Definition res_eqb {A} (eqb : A -> A -> bool) (a b : res A) : bool :=
  match a, b with
  | ROk x, ROk y => eqb x y
  | RNotFound, RNotFound | RFail, RFail | RPanic, RPanic => true
  | _, _ => false
  end.
Definition hobs_eqb (a b : hobs) : bool :=
  res_eqb block_eqb (ho_full a) (ho_full b) && res_eqb block_eqb (ho_idx a) (ho_idx b)
  && (ho_bhash a =? ho_bhash b) && res_eqb imeta_eqb (ho_ic a) (ho_ic b)
  && res_eqb nlist_eqb (ho_rcpts a) (ho_rcpts b) && res_eqb N.eqb (ho_sign a) (ho_sign b).
Definition tobs_eqb (a b : tobs) : bool :=
  res_eqb N.eqb (to_tx a) (to_tx b) && res_eqb txmeta_eqb (to_meta a) (to_meta b)
  && res_eqb N.eqb (to_rcpt a) (to_rcpt b).
Definition obs_eqb (a b : obs) : bool :=
  cmeta_eqb (o_meta a) (o_meta b) && cmeta_eqb (o_stored a) (o_stored b)
  && list_eqb hobs_eqb (o_heights a) (o_heights b)
  && list_eqb (res_eqb block_eqb) (o_hashes a) (o_hashes b) && list_eqb tobs_eqb (o_txs a) (o_txs b).

(** * The property predicates on observations *)

(** (a) a transaction observation is right for [sp] *)
Definition tx_good (sp : spec) (t : N) (o : tobs) : Prop :=
  match to_meta o with
  | ROk (h, bh, i) =>
      exists e, tget sp h = Some e /\ b_hash (e_blk e) = bh /\
                nth_error (b_txs (e_blk e)) (N.to_nat i) = Some t /\
                to_tx o = ROk t /\ to_rcpt o = res_of_opt (nth_error (e_rcpts e) (N.to_nat i))
  | RNotFound => tx_occurs sp t = false /\ to_tx o = RNotFound /\ to_rcpt o = RNotFound
  | _ => False
  end.
Definition tx_good_b (sp : spec) (t : N) (o : tobs) : bool :=
  match to_meta o with
  | ROk (h, bh, i) =>
      match tget sp h with
      | Some e => (b_hash (e_blk e) =? bh)
                  && option_eqb N.eqb (nth_error (b_txs (e_blk e)) (N.to_nat i)) (Some t)
                  && res_eqb N.eqb (to_tx o) (ROk t)
                  && res_eqb N.eqb (to_rcpt o) (res_of_opt (nth_error (e_rcpts e) (N.to_nat i)))
      | None => false
      end
  | RNotFound => negb (tx_occurs sp t) && res_eqb N.eqb (to_tx o) RNotFound
                 && res_eqb N.eqb (to_rcpt o) RNotFound
  | _ => false
  end.

Fixpoint forall2b {A B} (f : A -> B -> bool) (l1 : list A) (l2 : list B) : bool :=
  match l1, l2 with
  | [], [] => true
  | x :: r1, y :: r2 => f x y && forall2b f r1 r2
  | _, _ => false
  end.

(** (b) every lookup agrees with what was executed ([sp]); this contains "after a rollback
    to t nothing above t is returned and everything up to t is unchanged" because the spec
    after an accepted rollback is [firstn t sp] *)
Definition agrees (U : universe) (sp : spec) (o : obs) : Prop :=
  o_meta o = spec_meta sp /\ o_stored o = spec_meta sp /\
  o_heights o = map (expected_h sp) (nseq (S (u_kh U))) /\
  o_hashes o = map (expected_x sp) (u_hashes U) /\
  Forall2 (tx_good sp) (u_txs U) (o_txs o).
Definition agrees_b (U : universe) (sp : spec) (o : obs) : bool :=
  cmeta_eqb (o_meta o) (spec_meta sp) && cmeta_eqb (o_stored o) (spec_meta sp)
  && list_eqb hobs_eqb (o_heights o) (map (expected_h sp) (nseq (S (u_kh U))))
  && list_eqb (res_eqb block_eqb) (o_hashes o) (map (expected_x sp) (u_hashes U))
  && forall2b (tx_good_b sp) (u_txs U) (o_txs o).

Section WithHash.
  Variable hash_hdr : header -> N.
  Variable root : list N -> N.

  (** (c) the chain invariant, read off the observation of heights 1..head: stored hash =
      hash of the stored header, number, parent link, roots recomputed from what is stored *)
  Definition link_ok (prev : N) (h : N) (ho : hobs) : Prop :=
    exists b rc, ho_full ho = ROk b /\ ho_rcpts ho = ROk rc /\
      b_hash b = hash_hdr (b_hdr b) /\ h_number (b_hdr b) = h /\ h_parent (b_hdr b) = prev /\
      h_txroot (b_hdr b) = root (b_txs b) /\ h_rcroot (b_hdr b) = root rc.
  Definition link_ok_b (prev : N) (h : N) (ho : hobs) : bool :=
    match ho_full ho, ho_rcpts ho with
    | ROk b, ROk rc =>
        (b_hash b =? hash_hdr (b_hdr b)) && (h_number (b_hdr b) =? h) && (h_parent (b_hdr b) =? prev)
        && (h_txroot (b_hdr b) =? root (b_txs b)) && (h_rcroot (b_hdr b) =? root rc)
    | _, _ => false
    end.
  Definition hash_of (ho : hobs) : N := match ho_full ho with ROk b => b_hash b | _ => 0 end.
  (** [hs] are the observations of heights h, h+1, ... *)
  Fixpoint links (prev : N) (h : N) (hs : list hobs) : Prop :=
    match hs with
    | [] => True
    | ho :: r => link_ok prev h ho /\ links (hash_of ho) (h + 1) r
    end.
  Fixpoint links_b (prev : N) (h : N) (hs : list hobs) : bool :=
    match hs with
    | [] => true
    | ho :: r => link_ok_b prev h ho && links_b (hash_of ho) (h + 1) r
    end.
  (** the universe must reach the head; heights 1..head are items 1..head of [o_heights] *)
  Definition chain_inv (o : obs) : Prop :=
    let n := N.to_nat (cm_height (o_meta o)) in
    (n < length (o_heights o))%nat /\
    links 0 1 (firstn n (tl (o_heights o))) /\
    cm_hash (o_meta o) = match rev (firstn n (tl (o_heights o))) with [] => 0 | ho :: _ => hash_of ho end.
  Definition chain_inv_b (o : obs) : bool :=
    let n := N.to_nat (cm_height (o_meta o)) in
    (n <? length (o_heights o))%nat
    && links_b 0 1 (firstn n (tl (o_heights o)))
    && (cm_hash (o_meta o) =? match rev (firstn n (tl (o_heights o))) with [] => 0 | ho :: _ => hash_of ho end).

  (** ** Well-formed input: what the executor hands to the ledger *)
  Definition wf_entry (sp : spec) (e : entry) : Prop :=
    let b := e_blk e in
    h_number (b_hdr b) = tlen sp + 1 /\
    h_parent (b_hdr b) = cm_hash (spec_meta sp) /\
    b_hash b = hash_hdr (b_hdr b) /\
    h_txroot (b_hdr b) = root (b_txs b) /\
    h_rcroot (b_hdr b) = root (e_rcpts e) /\
    length (e_rcpts e) = length (b_txs b).
  Definition wf_entry_b (sp : spec) (e : entry) : bool :=
    let b := e_blk e in
    (h_number (b_hdr b) =? tlen sp + 1) && (h_parent (b_hdr b) =? cm_hash (spec_meta sp))
    && (b_hash b =? hash_hdr (b_hdr b)) && (h_txroot (b_hdr b) =? root (b_txs b))
    && (h_rcroot (b_hdr b) =? root (e_rcpts e)) && (length (e_rcpts e) =? length (b_txs b))%nat.
  (** transaction hashes are new to the live chain and pairwise distinct *)
  Definition fresh_txs (sp : spec) (e : entry) : Prop :=
    NoDup (b_txs (e_blk e)) /\ forall t, In t (b_txs (e_blk e)) -> tx_occurs sp t = false.
  Fixpoint nodup_b (l : list N) : bool :=
    match l with [] => true | x :: r => negb (existsb (N.eqb x) r) && nodup_b r end.
  Definition fresh_txs_b (sp : spec) (e : entry) : bool :=
    nodup_b (b_txs (e_blk e)) && forallb (fun t => negb (tx_occurs sp t)) (b_txs (e_blk e)).
End WithHash.

(** * Specification run: what the surviving stack is after a history, given the result code
    each step returned (the same codes as [step]) *)
Definition spec_step (o : op) (code : N) (sp : spec) : spec :=
  match o, code with
  | OPersist e, 0 => sp ++ [e]
  | ORollback t, 0 => firstn (N.to_nat t) sp
  | OReexec e, 0 => firstn (N.to_nat (h_number (b_hdr (e_blk e)) - 1)) sp ++ [e]
  | _, _ => sp
  end.
(** which result codes the property allows: a persist of a well-formed entry is accepted; a
    rollback to t is accepted when t <= head; a refusal (1, 2) is never wrong by itself (the
    frame condition is enforced by [agrees] on the unchanged spec); 3 and 9 are failures *)
Definition code_ok (o : op) (code : N) (sp : spec) : bool :=
  match o with
  | OPersist _ => code =? 0
  | ORollback t => if code =? 0 then t <=? tlen sp else if code =? 1 then tlen sp <? t else code =? 2
  | OReopen => code =? 0
  | OReexec _ => (code =? 0) || (code =? 2)
  end.

(** * Oracle instances of the two hash functions for running (tables produced by the driver
    by really hashing the headers / lists it read back) *)
Definition oracle_hash (tbl : list (header * N)) (hd : header) : N :=
  match find (fun p => hdr_eqb (fst p) hd) tbl with Some p => snd p | None => 0 end.
Definition oracle_root (tbl : list (list N * N)) (l : list N) : N :=
  match find (fun p => nlist_eqb (fst p) l) tbl with Some p => snd p | None => 0 end.
(** the tables must be functional and injective, and never produce the zero hash, on what
    they list (otherwise the case is outside the model's domain) *)
Definition tbl_inj_b {K} (keqb : K -> K -> bool) (tbl : list (K * N)) : bool :=
  forallb (fun p => forallb (fun q => Bool.eqb (keqb (fst p) (fst q)) (snd p =? snd q)) tbl) tbl.
Definition tbl_nonzero_b {K} (tbl : list (K * N)) : bool := forallb (fun p => negb (snd p =? 0)) tbl.

(** * The judge *)
Record case := mkCase {
  c_full : bool;
  c_ordered_store : bool;   (* leveldb_type of the run: normal (true) / multi (false) *)
  c_strict : bool;     (* the blocks were sealed by the REAL executor: an ill-formed block is itself a violation *)
  c_univ : universe; c_ops : list op;
  c_trace : list (N * obs);                (* implementation: result code and observation after every step *)
  c_hash_tbl : list (header * N); c_root_tbl : list (list N * N) }.

(** property on the implementation's own trace.  [wf]: all persists so far were well-formed;
    when the driver fabricated an ill-formed block on purpose the property makes no claim from
    there on ([strict] = false), when the executor sealed it ([strict] = true) that is the
    violation *)
Fixpoint prop_trace (hh : header -> N) (rt : list N -> N) (strict : bool) (U : universe)
         (ops : list op) (tr : list (N * obs)) (sp : spec) (wf : bool) (i : N) : verdict :=
  match ops, tr with
  | [], [] => V_ok
  | o :: ro, (code, ob) :: rtr =>
      let wf' := match o with
                 | OPersist e => wf && wf_entry_b hh rt sp e
                 | OReexec e =>
                     let k := h_number (b_hdr (e_blk e)) in
                     wf && (1 <=? k) && (k <=? tlen sp) && wf_entry_b hh rt (firstn (N.to_nat (k - 1)) sp) e
                 | _ => wf
                 end in
      let sp' := spec_step o code sp in
      if negb wf' then (if strict then V_propfalse i else V_ok)
      else if negb (code_ok o code sp) then V_propfalse i
      else if negb (agrees_b U sp' ob) then V_propfalse i
      else if negb (chain_inv_b hh rt ob) then V_propfalse i
      else prop_trace hh rt strict U ro rtr sp' wf' (i + 1)
  | _, _ => V_domain i
  end.

Fixpoint model_trace (cfg : Defects) (full : bool) (U : universe)
         (ops : list op) (tr : list (N * obs)) (s : cledger) (i : N) : verdict :=
  match ops, tr with
  | [], [] => V_ok
  | o :: ro, (code, ob) :: rtr =>
      let '(c, s') := step cfg full o s in
      let lockstep := match o with
                      | OPersist e => negb full || (h_number (b_hdr (e_blk e)) =? cm_height (cl_mem s) + 1)
                      | OReexec e => (1 <=? h_number (b_hdr (e_blk e))) && (h_number (b_hdr (e_blk e)) <=? cm_height (cl_mem s))
                      | _ => true
                      end in
      if negb lockstep then V_domain i     (* full mode is modelled for well-numbered blocks only *)
      else if negb (c =? code) then V_mismatch i
      else if negb (obs_eqb (observe cfg U s') ob) then V_mismatch i
      else model_trace cfg full U ro rtr s' (i + 1)
  | _, _ => V_domain i
  end.

Definition judge_prop (c : case) : verdict :=
  (* the header-hash table must be injective and non-zero (hypotheses of the theorems); the
     Merkle root need not be injective (the library duplicates an odd last leaf) *)
  if negb (tbl_inj_b hdr_eqb (c_hash_tbl c) && tbl_nonzero_b (c_hash_tbl c)) then V_domain 0
  else prop_trace (oracle_hash (c_hash_tbl c)) (oracle_root (c_root_tbl c)) (c_strict c) (c_univ c)
                  (c_ops c) (c_trace c) [] true 0.
Fixpoint first_ok (vs : list verdict) : verdict :=
  match vs with
  | [] => V_domain 0
  | [v] => v
  | v :: r => if fst v =? 0 then v else first_ok r
  end.
Definition with_store (ordered : bool) (cfg : Defects) : Defects :=
  mkDefects (d_rb_heightkey cfg) (d_bhash_codec cfg) (d_meta_del_first cfg) ordered.
Definition judge_model_with (cfgs : list Defects) (c : case) : verdict :=
  first_ok (map (fun cfg => model_trace (with_store (c_ordered_store c) cfg) (c_full c) (c_univ c) (c_ops c) (c_trace c) cl_empty 0) cfgs).
Definition judge_model (c : case) : verdict := judge_model_with cfgs_allowed c.
(** the combined verdict of BUILDING.md: property on the implementation trace first *)
Definition judge_chain (c : case) : verdict :=
  let p := judge_prop c in
  if negb (fst p =? 0) then p else judge_model c.

(** * A concrete, provably injective header hash and a root function, for the Examples and the
    refutation witnesses (the judge uses the driver's oracle tables instead) *)
Definition npair (a b : N) : N := a + (a + b) * (a + b).
Definition toy_hash (h : header) : N :=
  1 + npair (h_number h) (npair (h_parent h) (npair (h_state h) (npair (h_txroot h) (h_rcroot h)))).
Definition toy_root (l : list N) : N := fold_right (fun x acc => 1 + npair x acc) 0 l.
(** seal an entry the way the executor does: roots, parent, number, hash last *)
Definition toy_entry (sp : spec) (state : N) (txs rcpts : list N) (im : imeta) : entry :=
  let hd := mkHdr (tlen sp + 1) (cm_hash (spec_meta sp)) state (toy_root txs) (toy_root rcpts) in
  mkEntry (mkBlk hd (toy_hash hd) txs) rcpts im.

(** the model's own trace of a history *)
Fixpoint trace_of (cfg : Defects) (full : bool) (U : universe) (ops : list op) (s : cledger) : list (N * obs) :=
  match ops with
  | [] => []
  | o :: r => let '(c, s') := step cfg full o s in (c, observe cfg U s') :: trace_of cfg full U r s'
  end.
