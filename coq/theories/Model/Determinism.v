(** C01 — deterministic block execution.  Definitions only.

    A Gallina function is deterministic by construction, so every place where the Go code lets
    the runtime choose is an explicit ORACLE argument here:
      (a) every `range` over a Go map / sync.Map.Range is [o_perm site h i l], constrained (in
          the theorems) to return a permutation of [l];
      (b) the goroutine fan-out of verifySign / verifyProofs is [o_sched h l]: the order in
          which the invalid indices are inserted into [invalidTx];
      (c) wall-clock reads are [o_clock h n];
      (d) [restart] drops every in-memory component (dirty/un-flushed state, account cache,
          executor service cache, the registered InterchainManager object's field, current
          height/hash) and reloads from the model disk.
    The model is faithful to the code as it is: defect flags (DESIGN 3.3) select the behaviour
    of the unchanged tree (flag on) or the repaired one (flag off).

    Scope of the transaction semantics (what the judge can predict): same-BitXHub IBTPs between
    ordered services (requests 1-1 and one-to-many, receipts, timeouts), service records with the
    executor cache, the two public entry points of the in-memory InterchainManager object,
    RegisterService's permission check; transfers / governance / malformed transactions are
    opaque (their receipt status and SERVICE events are inputs, like XVM/EVM execution). *)
From BX Require Import Base.Prelude.
From Coq Require Import String Permutation.
Local Open Scope N_scope.

(* ------------------------------------------------------------------------------------- *)
(** * Sorted association lists keyed by [N] (canonical: equal contents = equal terms) *)
Section SMap.
  Context {V : Type}.
  Definition smap := list (N * V).
  Fixpoint sget (k : N) (m : smap) : option V :=
    match m with
    | [] => None
    | (k', v) :: t => if k =? k' then Some v else sget k t
    end.
  Fixpoint sset (k : N) (v : V) (m : smap) : smap :=
    match m with
    | [] => [(k, v)]
    | (k', v') :: t =>
        if k <? k' then (k, v) :: m
        else if k =? k' then (k, v) :: t
        else (k', v') :: sset k v t
    end.
  Definition skeys (m : smap) : list N := map fst m.
End SMap.
Arguments smap : clear implicits.

(** insertion sort on [N]; the result depends only on the multiset *)
Fixpoint ins (x : N) (l : list N) : list N :=
  match l with
  | [] => [x]
  | y :: t => if x <=? y then x :: l else y :: ins x t
  end.
Definition isort (l : list N) : list N := fold_right ins [] l.

Definition mem_N (x : N) (l : list N) : bool := existsb (N.eqb x) l.
Fixpoint dedup (l : list N) : list N :=
  match l with
  | [] => []
  | x :: t => if mem_N x t then dedup t else x :: dedup t
  end.

(* ------------------------------------------------------------------------------------- *)
(** * Defect flags.  [true] = the behaviour of the unchanged code. *)
Record Defects := {
  d_notify_unsorted : bool;     (* transaction_manager.go BeginMultiTXs/Report: NotifySrc/NotifyDst id lists in map order *)
  d_timeout_child_order : bool; (* handle.go getTimeoutIBTPsMap: children of a timed-out group appended in map order *)
  d_first_error_order : bool;   (* checkServiceInfo / AppchainManager.checkInfo / checkDappInfo / checkNodeInfo: the first failing key in map order names the error *)
  d_bns_after_flush : bool;     (* genesis.go: initBNSData writes after the genesis block was flushed (lost by a restart before block 2) *)
  d_cache_failed_events : bool; (* handle.go applyTx: SERVICE events of FAILED transactions feed the executor's service cache *)
  d_singleton_mem : bool;       (* registered InterchainManager object: ServiceCache field set by InitServiceCache, nil after restart *)
  d_stale_persister : bool;     (* registered manager objects keep the Persister of the previous call: promoted core methods fail differently on a fresh process *)
  d_forgets_persister : bool;   (* mutation class: an exported manager method that does not re-bind the embedded core manager's Persister before using it (none in the pinned tree) *)
  d_proofs_prestage : bool;     (* mutation class: verifyProofs run by the pre-execute goroutine, i.e. possibly before the previous block's state changes are applied (in the pinned tree it runs in processExecuteEvent) *)
  d_dst_key_first : bool        (* interchain.go addToMultiTxNotifyMap: dst-notified ids filed under the chain of ibtpIDs[0] (C05; deterministic once sorted) *)
}.
(** the C01 theorem holds whatever [d_dst_key_first] is *)
Definition cfg_fixed_with (k : bool) : Defects := Build_Defects false false false false false false false false false k.
Definition cfg_fixed : Defects := cfg_fixed_with false.
Definition cfg_faithful : Defects := Build_Defects true true true true true true true false false true.
Definition c01_clean (c : Defects) : Prop :=
  d_notify_unsorted c = false /\ d_timeout_child_order c = false /\ d_first_error_order c = false /\
  d_bns_after_flush c = false /\ d_cache_failed_events c = false /\ d_singleton_mem c = false /\
  d_stale_persister c = false /\ d_forgets_persister c = false /\ d_proofs_prestage c = false.

(* ------------------------------------------------------------------------------------- *)
(** * Oracles *)
Record oracle := {
  o_perm : N -> N -> N -> list N -> list N;   (* site, block height, call index, the map's keys *)
  o_sched : N -> list N -> list N;            (* height, invalid tx indices -> goroutine completion order *)
  o_clock : N -> N -> N;                      (* height, ordinal of the read *)
  o_ahead : N -> bool                         (* height: did the pre-execute stage handle this block before the previous block was executed (blocks delivered back to back)? *)
}.
Definition oracle_ok (o : oracle) : Prop :=
  (forall s h i l, Permutation (o_perm o s h i l) l) /\ (forall h l, Permutation (o_sched o h l) l).
Definition o_id : oracle := Build_oracle (fun _ _ _ l => l) (fun _ l => l) (fun _ _ => 0) (fun _ => false).

(** site numbers (the classification table at the end ties them to the generated inventory) *)
Definition S_BM0 : N := 1.    (* BeginMultiTXs, failing-child loop: notify lists + set all *)
Definition S_BM1 : N := 2.    (* BeginMultiTXs, ChildIBTPIDs (unsorted; request path ignores it) *)
Definition S_R0 : N := 3.     (* Report: notify lists *)
Definition S_R1 : N := 4.     (* Report: ChildIBTPIDs, then sort.Strings *)
Definition S_CMS : N := 5.    (* changeMultiTxStatus: set every child *)
Definition S_IMF : N := 6.    (* isMultiTxFinished: all-equal + count *)
Definition S_AT0 : N := 7.    (* applyTx: interchain event map -> per-chain counter append *)
Definition S_TIM0 : N := 8.   (* getTimeoutIBTPsMap: children of a global id *)
Definition S_PE0 : N := 9.    (* processExecuteEvent: timeoutIBTPsMap -> counter + L2 roots (sorted) *)
Definition S_PE1 : N := 10.   (* processExecuteEvent: multiTxIBTPsMap copy *)
Definition S_PE2 : N := 11.   (* processExecuteEvent: interchain counter copy *)
Definition S_SG0 : N := 12.   (* setGlobalTxStatus: set every child *)
Definition S_STL0 : N := 13.  (* setTimeoutList: addTimeoutListMap *)
Definition S_STL1 : N := 14.  (* setTimeoutList: removeTimeoutListMap *)
Definition S_FL0 : N := 15.   (* FlushDirtyData: l.accounts *)
Definition S_FL1 : N := 16.   (* getStateJournalAndComputeHash: dirtyState.Range *)
Definition S_CM0 : N := 17.   (* Commit: accounts / dirtyState.Range -> batch puts *)
Definition S_GEN0 : N := 18.  (* genesis.Initialize: SetNonce per registered contract *)
Definition S_PERM : N := 19.  (* checkServiceInfo: permission ids *)
Definition S_ADMIN : N := 20. (* AppchainManager.checkInfo: new admin addresses *)
Definition S_R2 : N := 21.    (* Report: remember which children had succeeded (keyed) *)

(* ------------------------------------------------------------------------------------- *)
(** * Values and keys of the contract state *)
Inductive tok := TEmpty | TId (i : N) | TGid (g : N).
Definition tok_eqb (a b : tok) : bool :=
  match a, b with
  | TEmpty, TEmpty => true
  | TId i, TId j => i =? j
  | TGid g, TGid k => g =? k
  | _, _ => false
  end.

Record svcrec := { sv_avail : bool; sv_ordered : bool; sv_black : list N (* Permission: source services NOT allowed to call *) }.

Inductive val :=
| VSvc (r : svcrec)
| VNum (n : N)
| VRec (status height : N)
| VGlob (state height count : N) (children : smap N)      (* ChildTxInfo: id -> status *)
| VToks (l : list tok)                                     (* strings.Split(value, ",") *)
| VMulti (m : smap (list N)).                              (* chain -> ids *)

Definition key (tag a : N) : N := tag + 16 * a.
Definition K_svc (s : N) := key 1 s.
Definition K_ic (src dst : N) := key 2 (src * 256 + dst).
Definition K_rc (src dst : N) := key 3 (src * 256 + dst).
Definition K_tx (id : N) := key 4 id.
Definition K_child (id : N) := key 5 id.
Definition K_glob (g : N) := key 6 g.
Definition K_tl (h : N) := key 7 h.
Definition K_multi (h : N) := key 8 h.
Definition K_bns (n : N) := key 9 n.
(** the account (contract) a key belongs to: 1 service mgr, 2 interchain, 3 transaction mgr, 4 name service *)
Definition acct_of (k : N) : N :=
  match k mod 16 with
  | 1 => 1 | 2 => 2 | 3 => 2 | 8 => 2 | 4 => 3 | 5 => 3 | 6 => 3 | 7 => 3 | _ => 4
  end.

(** IBTP ids: (src service, dst service, index); a service is chain * 16 + svc *)
Definition mk_id (src dst idx : N) : N := (src * 256 + dst) * 4294967296 + idx.
Definition id_src (id : N) : N := id / 4294967296 / 256.
Definition id_dst (id : N) : N := (id / 4294967296) mod 256.
Definition id_idx (id : N) : N := id mod 4294967296.
Definition chain_of (s : N) : N := s / 16.

Definition MAXH : N := MAXU64.
Definition ST_BEGIN : N := 0.
Definition ST_BEGIN_FAILURE : N := 1.
Definition ST_BEGIN_ROLLBACK : N := 2.
Definition ST_SUCCESS : N := 3.
Definition ST_FAILURE : N := 4.
Definition ST_ROLLBACK : N := 5.
Definition is_final (s : N) : bool := (s =? 3) || (s =? 4) || (s =? 5).

(** status FSM of transaction_manager.go for receipts (typ 1 success, 2 failure, 3 rollback) *)
Definition fsm_receipt (st typ : N) : option N :=
  match typ, st with
  | 1, 0 => Some 3
  | 2, 0 => Some 4
  | 2, 1 => Some 4
  | 2, 2 => Some 5
  | 3, 2 => Some 5
  | _, _ => None
  end.

(** pb.StatusChange.NotifyFlags; prev = None stands for -1 *)
Definition notify_flags (prev : option N) (cur : N) : bool * bool :=
  if match prev with Some p => p =? cur | None => false end then (false, false)
  else match cur with
       | 0 => (false, true)
       | 1 => (true, true)
       | 2 => (true, true)
       | 3 => (true, false)
       | 4 => (match prev with Some 0 => true | _ => false end, false)
       | 5 => (match prev with Some 0 => true | None => true | _ => false end, false)
       | _ => (false, false)
       end.

(* ------------------------------------------------------------------------------------- *)
(** * Transactions, receipts *)
Record ibtp := {
  ib_src : N; ib_dst : N; ib_idx : N;
  ib_typ : N;                 (* 0 INTERCHAIN, 1 RECEIPT_SUCCESS, 2 RECEIPT_FAILURE, 3 RECEIPT_ROLLBACK *)
  ib_timeout : N;
  ib_group : option (N * N)   (* global id, declared child count *)
}.
Definition ib_id (b : ibtp) : N := mk_id (ib_src b) (ib_dst b) (ib_idx b).

Inductive tx :=
| TOpaque (ok : bool)                                 (* transfer / unmodelled BVM call / malformed: status is an input *)
| TGov (ok : bool) (touch : list N) (evs : list (N * svcrec))  (* governance call: status and SERVICE events are inputs; touch = manager contracts whose methods it runs *)
| TPerm (site : N) (ids : list N)                     (* a call whose check ranges over these (all illegal) keys: RegisterService permissions / UpdateAppchain admins *)
| TMgrCall (c : N) (forgets ok : bool)                 (* exported *Response method of manager contract c (0 appchain, 1 service, 2 rule, 3 node, 4 role, 5 dapp); [forgets]: it does not re-bind the Persister first; ok: its status when it runs (input) *)
| TPromoted                                           (* a method promoted from the embedded core ServiceManager (no *Response result) called as a transaction *)
| TIbtp (valid : bool) (b : ibtp)                     (* valid = signature and proof verified *)
| TIbtpP (vnow vprev : bool) (b : ibtp)               (* an IBTP whose proof verdict depends on the previous block: vnow against the state the block starts from, vprev against the state one block earlier *)
| TInitCache                                          (* BVM InitServiceCache on the registered object *)
| THandleData (b : ibtp).                             (* BVM HandleIBTPData(bytes), no proof *)

Inductive retc := RNone | RBeginFailure | RBatch | RErr (code : N) | RPerm (id : N) | RNilPtr | RIfaceConv.
(* error codes: 1 invalid (signature/proof), 2 source unavailable, 3 index exists, 4 wrong index, 5 state machine,
   6 unknown tx / group, 7 illegal type, 8 rejected entry point, 9 opaque failure *)

Record receipt := {
  rc_ok : bool;
  rc_begin_failure : bool;                 (* receipt.TxStatus = BEGIN_FAILURE *)
  rc_ret : retc;
  rc_interchain : option (smap (bool * N));(* INTERCHAIN event: chain -> (isBatch, tx index); JSON object = sorted keys *)
  rc_svc_events : list (N * svcrec)        (* SERVICE events, in posting order *)
}.
Definition failed (r : retc) : receipt := Build_receipt false false r None [].

(* ------------------------------------------------------------------------------------- *)
(** * Node state: disk and memory *)
Inductive hsh :=
| HNone
| HBlock (number : N) (parent : hsh) (state_root : list (list (N * list (N * val)))) (txs : list tx) (receipts : list receipt).

Record disk := {
  dk_state : smap val;                           (* state db *)
  dk_height : N;
  dk_hash : hsh;                                 (* chain meta: last block hash (as its inputs) *)
  dk_root : list (list (N * list (N * val)));    (* journal hash chain: dirty data of every block, newest first *)
  dk_journals : list (list N);                   (* persisted block journals: dirty accounts in l.accounts order (NOT in results) *)
  dk_genesis_ts : N                              (* block 1 header timestamp (NOT covered by the block hash, NOT in results) *)
}.

Record memory := {
  m_pending : smap val;          (* dirty state written outside a block, waiting for the next flush *)
  m_acache : smap val;           (* account cache (refinement of the disk) *)
  m_svc_cache : smap svcrec;     (* executor serviceCache *)
  m_singleton : bool;            (* registered InterchainManager object: ServiceCache field non-nil *)
  m_persister : list N;          (* registered manager objects whose embedded Persister was set by some earlier call of this process *)
  m_height : N;
  m_hash : hsh
}.

Definition reload (d : disk) : memory :=
  Build_memory [] [] [] false [] (dk_height d) (dk_hash d).

(** what a read falls back to when the key was not written in this block: the account cache laid
    over the disk (cache entries win, as in SimpleAccount.GetState) *)
Definition overlay (cache st : smap val) : smap val :=
  fold_left (fun acc kv => sset (fst kv) (snd kv) acc) cache st.

(** node-local state threaded through the transactions of a block *)
Record view := {
  v_w : smap val;                 (* writes of this block so far *)
  v_cache : smap svcrec;          (* executor serviceCache *)
  v_single : bool;                (* registered InterchainManager object: ServiceCache field non-nil *)
  v_persist : list N              (* registered manager objects whose Persister is set *)
}.

Record change := {
  ch_prev : option N; ch_cur : N;
  ch_src : list N; ch_dst : list N; ch_children : list N; ch_fail_child : bool
}.

Section Exec.
  Variable cfg : Defects.
  Variable o : oracle.
  Variable base : smap val.   (* account cache over disk at the start of the block *)
  Variable h : N.             (* height of the block being executed *)

  (** reads inside a block: the block's write set first *)
  Definition rdw (w : smap val) (k : N) : option val :=
    match sget k w with Some x => Some x | None => sget k base end.
  Definition led_svc (w : smap val) (s : N) : option svcrec :=
    match rdw w (K_svc s) with Some (VSvc r) => Some r | _ => None end.
  Definition num (w : smap val) (k : N) : N := match rdw w k with Some (VNum n) => n | _ => 0 end.

  (** the order in which a map's keys are visited, and the repaired consumers *)
  Definition visit (site i : N) (l : list N) : list N := o_perm o site h i l.
  Definition pick (leak : bool) (site i : N) (l : list N) : list N :=
    if leak then visit site i l else isort (visit site i l).

  (** ** timeout lists (string level: "" splits into one empty token) *)
  Definition toks_of (w : smap val) (hh : N) : option (list tok) :=
    match rdw w (K_tl hh) with Some (VToks l) => Some l | _ => None end.
  Definition tl_norm (l : list tok) : list tok := match l with [] => [TEmpty] | _ => l end.
  Definition is_empty_str (l : list tok) : bool := match l with [TEmpty] => true | _ => false end.
  (** handle.go getTimeoutList *)
  Definition timeout_list (w : smap val) (hh : N) : list tok :=
    match toks_of w hh with
    | None => []
    | Some l => match l with TEmpty :: _ => [] | _ => l end
    end.
  (** TransactionManager.addToTimeoutList (an emptied list counts as absent) *)
  Definition tm_add_timeout (w : smap val) (hh : N) (t : tok) : smap val :=
    match toks_of w hh with
    | None => sset (K_tl hh) (VToks [t]) w
    | Some l => sset (K_tl hh) (VToks (if is_empty_str l then [t] else l ++ [t])) w
    end.
  Definition remove_tok (t : tok) (l : list tok) : list tok := filter (fun x => negb (tok_eqb x t)) l.
  Definition tm_remove_timeout (w : smap val) (hh : N) (t : tok) : smap val :=
    match toks_of w hh with
    | None => w
    | Some l => sset (K_tl hh) (VToks (tl_norm (remove_tok t l))) w
    end.

  (** ** TransactionManager *)
  Definition set_all (st : N) (keys : list N) (c : smap N) : smap N :=
    fold_right (fun k acc => sset k st acc) c keys.
  Definition timeout_height (b : ibtp) : N :=
    if (ib_timeout b =? 0) || (MAXH - h <=? ib_timeout b) then MAXH else h + ib_timeout b.

  Definition begin_single (w : smap val) (b : ibtp) (isFailed : bool) : smap val * change :=
    let st := if isFailed then ST_BEGIN_FAILURE else ST_BEGIN in
    (sset (K_tx (ib_id b)) (VRec st (timeout_height b)) w, Build_change None st [] [] [] false).

  Definition begin_multi (i : N) (w : smap val) (b : ibtp) (g count : N) (isFailed : bool) : option (smap val * change) :=
    let id := ib_id b in
    match rdw w (K_glob g) with
    | Some (VGlob gs gh gc ch) =>
        match sget id ch with
        | Some _ => None
        | None =>
            if is_final gs then None else
            let '(w1, gs1, ch1, nsrc, ndst) :=
              if negb (gs =? ST_BEGIN) then (w, gs, sset id gs ch, [], [])
              else if isFailed then
                let ks := visit S_BM0 i (skeys ch) in
                let nsrc := pick (d_notify_unsorted cfg) S_BM0 i (skeys ch) in
                let ndst := filter (fun k => match sget k ch with Some 3 => true | _ => false end) nsrc in
                let ch1 := sset id ST_BEGIN_FAILURE (set_all ST_BEGIN_FAILURE ks ch) in
                (tm_remove_timeout w gh (TGid g), ST_BEGIN_FAILURE, ch1, nsrc, ndst)
              else (w, gs, sset id ST_BEGIN ch, [], []) in
            let w2 := sset (K_child id) (VNum g) (sset (K_glob g) (VGlob gs1 gh gc ch1) w1) in
            let cur := match sget id ch1 with Some s => s | None => 0 end in
            (* ChildIBTPIDs: map order, sorted since 428094a1; the request path never reads it *)
            Some (w2, Build_change None cur nsrc ndst (pick (d_notify_unsorted cfg) S_BM1 i (skeys ch1)) false)
        end
    | _ =>
        let hh := timeout_height b in
        let st := if isFailed then ST_BEGIN_FAILURE else ST_BEGIN in
        let w1 := if isFailed then w else tm_add_timeout w hh (TGid g) in
        let ch1 := [(id, st)] in
        let w2 := sset (K_child id) (VNum g) (sset (K_glob g) (VGlob st hh count ch1) w1) in
        Some (w2, Build_change None st [] [] (pick (d_notify_unsorted cfg) S_BM1 i (skeys ch1)) false)
    end.

  (** isMultiTxFinished: every child has status [st] and there are [count] of them *)
  Definition multi_finished (i : N) (st count : N) (ch : smap N) : bool :=
    forallb (fun k => match sget k ch with Some s => s =? st | None => false end) (visit S_IMF i (skeys ch))
    && (N.of_nat (List.length ch) =? count).

  Definition report (i : N) (w : smap val) (b : ibtp) : option (smap val * change) :=
    let id := ib_id b in
    match rdw w (K_tx id) with
    | Some (VRec st hh) =>
        match fsm_receipt st (ib_typ b) with
        | Some st' => Some (sset (K_tx id) (VRec st' hh) w, Build_change (Some st) st' [] [] [] false)
        | None => None
        end
    | _ =>
        match rdw w (K_child id) with
        | Some (VNum g) =>
            match rdw w (K_glob g) with
            | Some (VGlob gs gh gc ch) =>
                match sget id ch with
                | None => None
                | Some cst =>
                    (* which children had already succeeded (keyed accumulation over the map) *)
                    let succeeded : smap bool :=
                      fold_right (fun k acc => sset k (match sget k ch with Some 3 => true | _ => false end) acc) [] (visit S_R2 i (skeys ch)) in
                    (* changeMultiTxStatus *)
                    let res :=
                      if (gs =? ST_BEGIN) && (ib_typ b =? 2) then
                        let ch1 := sset id ST_FAILURE (set_all ST_BEGIN_FAILURE (visit S_CMS i (skeys ch)) ch) in
                        Some (tm_remove_timeout w gh (TGid g), ST_BEGIN_FAILURE, ch1)
                      else match fsm_receipt cst (ib_typ b) with
                           | None => None
                           | Some cst' =>
                               let ch1 := sset id cst' ch in
                               if multi_finished i cst' gc ch1 then
                                 match fsm_receipt gs (ib_typ b) with
                                 | None => None
                                 | Some gs' => Some (tm_remove_timeout w gh (TGid g), gs', ch1)
                                 end
                               else Some (w, gs, ch1)
                           end in
                    match res with
                    | None => None
                    | Some (w1, gs1, ch1) =>
                        let others := filter (fun k => negb (k =? id)) (pick (d_notify_unsorted cfg) S_R0 i (skeys ch1)) in
                        let begin_fail := (gs =? ST_BEGIN) && (gs1 =? ST_BEGIN_FAILURE) in
                        let ndst := if begin_fail then filter (fun k => match sget k succeeded with Some true => true | _ => false end) others else [] in
                        let children := isort (visit S_R1 i (skeys ch1)) in
                        Some (sset (K_glob g) (VGlob gs1 gh gc ch1) w1,
                              Build_change (Some gs) gs1 others ndst children begin_fail)
                    end
                end
            | _ => None
            end
        | _ => None
        end
    end.

  (** ** InterchainManager *)
  Definition multi_of (w : smap val) (hh : N) : smap (list N) :=
    match rdw w (K_multi hh) with Some (VMulti m) => m | _ => [] end.
  Definition app_at (c : N) (ids : list N) (m : smap (list N)) : smap (list N) :=
    sset c (match sget c m with Some l => l ++ ids | None => ids end) m.
  (** addToMultiTxNotifyMap *)
  Definition add_multi (w : smap val) (hh : N) (ids : list N) (toSrc : bool) : smap val :=
    match ids with
    | [] => w
    | first :: _ =>
        let m := multi_of w hh in
        let m' := if toSrc then app_at (chain_of (id_src first)) ids m
                  else fold_left (fun acc id => app_at (chain_of (id_dst (if d_dst_key_first cfg then first else id))) [id] acc) ids m in
        sset (K_multi hh) (VMulti m') w
    end.

  (** recordService -> ServiceManager.RecordInvokeService: posts the service record as a SERVICE event *)
  Definition record_service (w : smap val) (s : N) : list (N * svcrec) :=
    match led_svc w s with Some r => [(s, r)] | None => [] end.

  (** getServiceByID: executor cache first, then the ledger *)
  Definition svc_lookup (cache : smap svcrec) (w : smap val) (s : N) : option svcrec :=
    match sget s cache with Some r => Some r | None => led_svc w s end.

  (** HandleIBTP on the write set [w] with the service cache [cache] (empty for the registered
      object's own cache).  [cur] is the contract's notion of the current height (block height on
      the IBTP path, height - 1 for a plain BVM call). *)
  Definition handle_ibtp (i : N) (cache : smap svcrec) (w : smap val) (b : ibtp) (cur : N) : smap val * receipt * bool :=
    let src := ib_src b in let dst := ib_dst b in
    let isReq := ib_typ b =? 0 in
    if negb (isReq || (ib_typ b =? 1) || (ib_typ b =? 2) || (ib_typ b =? 3)) then (w, failed (RErr 7), false)
    else
    (* checkIBTP *)
    let chk : (bool * bool) + retc :=   (* inl (isBatch, targetFail) | inr error *)
      if isReq then
        match svc_lookup cache w src with
        | Some r =>
            if negb (sv_avail r) then inr (RErr 2)
            else
              let '(isBatch, tfail) :=
                match svc_lookup cache w dst with
                | Some rd_ => if sv_avail rd_ then (if mem_N src (sv_black rd_) then (false, true) else (negb (sv_ordered rd_), false)) else (false, true)
                | None => (false, true)
                end in
              if isBatch then inl (true, tfail)
              else let exp := num w (K_ic src dst) + 1 in
                   if ib_idx b <? exp then inr (RErr 3) else if exp <? ib_idx b then inr (RErr 4) else inl (false, tfail)
        | None => inr (RErr 2)
        end
      else
        match svc_lookup cache w src with
        | None => inr RNilPtr          (* getServiceByID returns nil and the code reads srcService.Ordered *)
        | Some r =>
            let exp := num w (K_rc src dst) + 1 in
            if ib_idx b <? exp then inr (RErr 3) else if exp <? ib_idx b then inr (RErr 4) else inl (negb (sv_ordered r), false)
        end in
    match chk with
    | inr e => (w, failed e, false)
    | inl (isBatch, tfail) =>
        let bt : option (smap val * change) :=
          if isReq then
            match ib_group b with
            | None => Some (begin_single w b tfail)
            | Some (g, count) => begin_multi i w b g count tfail
            end
          else report i w b in
        match bt with
        | None => (w, failed (RErr (if isReq then 6 else 5)), false)
        | Some (w1, ch) =>
            (* notifySrcDst *)
            let '(nsrc, ndst) := notify_flags (ch_prev ch) (ch_cur ch) in
            let wp := (isBatch, i) in
            let ev0 : smap (bool * N) := [] in
            let '(ev1, w2) := if nsrc then (sset (chain_of src) wp ev0, add_multi w1 cur (ch_src ch) true) else (ev0, w1) in
            let '(ev2, w3) := if ndst then ((if ch_fail_child ch then ev1 else sset (chain_of dst) wp ev1), add_multi w2 cur (ch_dst ch) false) else (ev1, w2) in
            (* ProcessIBTP *)
            if isReq then
              let w4 := sset (K_ic src dst) (VNum (num w3 (K_ic src dst) + 1)) w3 in
              let ret := if isBatch then RBatch else if tfail then RBeginFailure else RNone in
              (w4, Build_receipt true tfail ret (Some ev2) [], false)
            else
              let '(w4, sev) :=
                if is_final (ch_cur ch) then
                  match ch_children ch with
                  | [] => (sset (K_rc src dst) (VNum (ib_idx b)) w3, record_service w3 dst)
                  | cs => fold_left (fun acc c =>
                                       let '(wa, ea) := acc in
                                       (sset (K_rc (id_src c) (id_dst c)) (VNum (id_idx c)) wa, ea ++ record_service wa (id_dst c)))
                                    cs (w3, [])
                  end
                else (w3, []) in
              (w4, Build_receipt true false (if isBatch then RBatch else RNone) (Some ev2) sev, is_final (ch_cur ch))
        end
    end.

  (** does HandleIBTP run a ServiceManager method (and so leave its Persister set)?  A
      getServiceByID that misses the cache cross-invokes GetServiceInfo; a final receipt records
      the invocation ([recorded]). *)
  Definition ibtp_touch (cache : smap svcrec) (b : ibtp) (recorded : bool) : bool :=
    let miss s := match sget s cache with Some _ => false | None => true end in
    if negb ((ib_typ b =? 0) || (ib_typ b =? 1) || (ib_typ b =? 2) || (ib_typ b =? 3)) then false
    else miss (ib_src b)
         || ((ib_typ b =? 0) && match sget (ib_src b) cache with Some r0 => sv_avail r0 && miss (ib_dst b) | None => false end)
         || recorded.

  Definition pset (c : N) (l : list N) : list N := if mem_N c l then l else c :: l.
  Definition pset_if (b : bool) (c : N) (l : list N) : list N := if b then pset c l else l.

  (** ** one transaction (handle.go applyTx): receipt, then harvesting of its events *)
  Definition cache_store (c : smap svcrec) (evs : list (N * svcrec)) : smap svcrec :=
    fold_left (fun c e => sset (fst e) (snd e) c) evs c.

  Definition do_ibtp (i : N) (v : view) (valid : bool) (b : ibtp) : view * receipt :=
    if valid then
      let '(w', r, rec) := handle_ibtp i (v_cache v) (v_w v) b h in
      (Build_view w' (v_cache v) (v_single v) (pset_if (ibtp_touch (v_cache v) b rec) 1 (v_persist v)), r)
    else (v, failed (RErr 1)).

  Definition exec_tx (i : N) (invalid : bool) (v : view) (t : tx) : view * receipt :=
    if invalid then (v, failed (RErr 1))
    else
    let '(v1, r) :=
      match t with
      | TOpaque ok => (v, Build_receipt ok false (if ok then RNone else RErr 9) None [])
      | TGov ok tch evs =>
          let w' := if ok then fold_left (fun a e => sset (K_svc (fst e)) (VSvc (snd e)) a) evs (v_w v) else v_w v in
          (Build_view w' (v_cache v) (v_single v) (fold_right pset (v_persist v) tch), Build_receipt ok false (if ok then RNone else RErr 9) None evs)
      | TPerm site ids =>
          let vt := Build_view (v_w v) (v_cache v) (v_single v) (pset (if site =? S_PERM then 1 else 0) (v_persist v)) in
          match pick (d_first_error_order cfg) site i ids with
          | [] => (vt, Build_receipt true false RNone None [])
          | first :: _ => (vt, failed (RPerm first))
          end
      | TPromoted =>
          (* fresh process: nil Persister -> nil pointer panic; otherwise the method runs against the
             previous call's stub and the reflective call panics on the non-Response result *)
          (v, failed (if d_stale_persister cfg then (if mem_N 1 (v_persist v) then RIfaceConv else RNilPtr) else RErr 8))
      | TMgrCall c forgets ok =>
          if forgets && d_forgets_persister cfg then
            (* runs on whatever Persister the previous call of this process left: nil on a fresh process *)
            (v, if mem_N c (v_persist v) then Build_receipt ok false (if ok then RNone else RErr 9) None [] else failed RNilPtr)
          else
            (Build_view (v_w v) (v_cache v) (v_single v) (pset c (v_persist v)), Build_receipt ok false (if ok then RNone else RErr 9) None [])
      | TIbtp valid b => do_ibtp i v valid b
      | TIbtpP vnow vprev b => do_ibtp i v (if d_proofs_prestage cfg && o_ahead o h then vprev else vnow) b
      | TInitCache =>
          (* no *Response result: the reflective call panics after the method ran (before b7f5ec6f) *)
          (Build_view (v_w v) (v_cache v) (if d_singleton_mem cfg then true else v_single v) (v_persist v), failed (RErr 9))
      | THandleData b =>
          if d_singleton_mem cfg && v_single v then
            let '(w', r, rec) := handle_ibtp i [] (v_w v) b (h - 1) in
            (* a failed BVM call is reverted; node-local memory is not *)
            (Build_view (if rc_ok r then w' else v_w v) (v_cache v) (v_single v) (pset_if (ibtp_touch [] b rec) 1 (v_persist v)), r)
          else (v, failed RNilPtr)   (* nil ServiceCache field: the call dies on it (in the repaired code always) *)
      end in
    let c2 := if rc_ok r || d_cache_failed_events cfg then cache_store (v_cache v1) (rc_svc_events r) else v_cache v1 in
    (Build_view (v_w v1) c2 (v_single v1) (v_persist v1), r).

  Fixpoint exec_txs (i : N) (inv : smap unit) (v : view) (ts : list tx) : view * list receipt :=
    match ts with
    | [] => (v, [])
    | t :: rest =>
        let '(v1, r) := exec_tx i (match sget i inv with Some _ => true | None => false end) v t in
        let '(v2, rs) := exec_txs (i + 1) inv v1 rest in
        (v2, r :: rs)
    end.

  (** interchain counter: per chain, (tx index, valid, isBatch) in transaction order *)
  Definition counter_step (m : smap (bool * N)) (k : N) (acc : smap (list (N * bool * bool))) : smap (list (N * bool * bool)) :=
    match sget k m with
    | Some (isB, idx) => sset k (match sget k acc with Some l => l ++ [(idx, true, isB)] | None => [(idx, true, isB)] end) acc
    | None => acc
    end.
  Definition add_counter (i : N) (r : receipt) (c : smap (list (N * bool * bool))) : smap (list (N * bool * bool)) :=
    match rc_interchain r with
    | None => c
    | Some m => fold_right (counter_step m) c (visit S_AT0 i (skeys m))
    end.
  Fixpoint counters (i : N) (rs : list receipt) (c : smap (list (N * bool * bool))) : smap (list (N * bool * bool)) :=
    match rs with
    | [] => c
    | r :: rest => counters (i + 1) rest (add_counter i r c)
    end.

  (** ** post-processing of the block (handle.go processExecuteEvent) *)
  (** setTimeoutList: collects per-height additions/removals in transaction order, then applies them *)
  Definition stl_collect (w : smap val) (ts : list tx) (rs : list receipt) : smap (list tok) * smap (list tok) :=
    fold_left (fun acc tr =>
                 let '(adds, rems) := acc in
                 match tr with
                 | (TIbtp true b, r) | (TIbtpP _ _ b, r) =>
                     if negb (rc_ok r) || match rc_ret r with RBatch => true | _ => false end || rc_begin_failure r then acc
                     else if ib_typ b =? 0 then
                       match ib_group b with
                       | Some _ => acc
                       | None =>
                           if (ib_timeout b =? 0) || (MAXH - h <=? ib_timeout b) then acc
                           else let hh := h + ib_timeout b in
                                (sset hh (match sget hh adds with Some l => l ++ [TId (ib_id b)] | None => [TId (ib_id b)] end) adds, rems)
                       end
                     else match rdw w (K_tx (ib_id b)) with
                          | Some (VRec st hh) =>
                              (adds, sset hh (match sget hh rems with Some l => l ++ [TId (ib_id b)] | None => [TId (ib_id b)] end) rems)
                          | _ => acc
                          end
                 | _ => acc
                 end) (combine ts rs) ([], []).

  Definition stl_add (adds : smap (list tok)) (hh : N) (w : smap val) : smap val :=
    match sget hh adds with
    | None => w
    | Some ids =>
        match toks_of w hh with
        | None => sset (K_tl hh) (VToks ids) w
        | Some l => sset (K_tl hh) (VToks (if is_empty_str l then ids else l ++ ids)) w
        end
    end.
  Definition stl_remove (rems : smap (list tok)) (hh : N) (w : smap val) : smap val :=
    match sget hh rems with
    | None => w
    | Some ids =>
        let cur := match toks_of w hh with Some l => l | None => [TEmpty] end in
        sset (K_tl hh) (VToks (tl_norm (fold_left (fun l t => remove_tok t l) ids cur))) w
    end.
  Definition set_timeout_list (w : smap val) (ts : list tx) (rs : list receipt) : smap val :=
    let '(adds, rems) := stl_collect w ts rs in
    let w1 := fold_right (stl_add adds) w (visit S_STL0 0 (skeys adds)) in
    fold_right (stl_remove rems) w1 (visit S_STL1 0 (skeys rems)).

  (** getTimeoutIBTPsMap *)
  Definition tim_children (j : N) (g : N) (w : smap val) (m : smap (list N)) : smap (list N) :=
    match rdw w (K_glob g) with
    | Some (VGlob _ _ _ ch) =>
        fold_left (fun acc id =>
                     let acc1 := app_at (chain_of (id_src id)) [id] acc in
                     match sget id ch with
                     | Some s => if is_final s then app_at (chain_of (id_dst id)) [id] acc1 else acc1
                     | None => acc1
                     end)
                  (pick (d_timeout_child_order cfg) S_TIM0 j (skeys ch)) m
    | _ => m
    end.
  Fixpoint timeout_map (j : N) (w : smap val) (l : list tok) (m : smap (list N)) : smap (list N) :=
    match l with
    | [] => m
    | TGid g :: rest => timeout_map (j + 1) w rest (tim_children j g w m)
    | TId id :: rest => timeout_map (j + 1) w rest (app_at (chain_of (id_src id)) [id] m)
    | TEmpty :: rest => timeout_map (j + 1) w rest m
    end.

  (** timeoutCounter / multiTxCounter / counter: keyed copies of a map *)
  Definition copy_step {A} (m : smap A) (k : N) (acc : smap A) : smap A :=
    match sget k m with Some x => sset k x acc | None => acc end.
  Definition keyed_copy {A} (site : N) (m : smap A) : smap A :=
    fold_right (copy_step m) [] (visit site 0 (skeys m)).
  (** TimeoutL2Roots: appended in map order, then sorted *)
  Definition l2_roots (m : smap (list N)) : list (list N) :=
    (* a root is a function of the list; the code sorts the roots by hash value, the model by key:
       both are canonical functions of the multiset of roots *)
    map (fun k => match sget k m with Some l => l | None => [] end) (isort (visit S_PE0 1 (skeys m))).

  (** setTimeoutRollback *)
  Definition rollback_step (a : smap val) (t : tok) : smap val :=
    match t with
    | TGid g => match rdw a (K_glob g) with
                | Some (VGlob _ gh gc ch) =>
                    sset (K_glob g) (VGlob ST_BEGIN_ROLLBACK gh gc (set_all ST_BEGIN_ROLLBACK (visit S_SG0 g (skeys ch)) ch)) a
                | _ => a
                end
    | TId id => sset (K_tx id) (VRec ST_BEGIN_ROLLBACK h) a
    | TEmpty => a
    end.
  Definition timeout_rollback (w : smap val) (l : list tok) : smap val := fold_left rollback_step l w.

  (** FlushDirtyData: accounts visited in map order (journals), addresses sorted for the hash;
      per account the dirty keys are visited in sync.Map order and sorted *)
  Definition acct_entries (a : N) (w : smap val) : list (N * val) :=
    let ks := filter (fun k => acct_of k =? a) (skeys w) in
    fold_right (fun k acc => match sget k w with Some x => (k, x) :: acc | None => acc end) [] (isort (visit S_FL1 a ks)).
  Definition flush (w : smap val) : list N * list (N * list (N * val)) :=
    let accts := visit S_FL0 0 (isort (dedup (map acct_of (skeys w)))) in
    (accts, map (fun a => (a, acct_entries a w)) (isort accts)).
  (** Commit (and AccountCache.add): one put per dirty key; keys are distinct so the order is immaterial *)
  Definition commit (w : smap val) (st : smap val) : smap val :=
    fold_right (copy_step w) st (visit S_CM0 0 (skeys w)).
End Exec.

(* ------------------------------------------------------------------------------------- *)
(** * Blocks and results *)
Record block := {
  b_txs : list tx;
  b_invalid : list N           (* indices whose signature / proof check fails (before ordering by the scheduler) *)
}.

Record result := {
  r_height : N;
  r_block_hash : hsh;                                  (* inputs of the block hash: number, parent, state root, tx root, receipt root *)
  r_state_root : list (list (N * list (N * val)));     (* inputs of the journal hash chain *)
  r_tx_root : list tx;
  r_receipt_root : list receipt;
  r_receipts : list receipt;
  r_counter : smap (list (N * bool * bool));
  r_timeout_counter : smap (list N);
  r_timeout_l2roots : list (list N);
  r_multitx_counter : smap (list N)
}.

Definition invalid_map (o : oracle) (h : N) (l : list N) : smap unit :=
  fold_right (fun i acc => sset i tt acc) [] (o_sched o h l).

(** one block on memory [m] over the state db [st] with journal chain [root]: new memory, new state
    db, new journal chain, the journal's account order, and the block result *)
Definition block_core (cfg : Defects) (o : oracle) (m : memory) (st : smap val)
           (root : list (list (N * list (N * val)))) (b : block)
  : memory * smap val * list (list (N * list (N * val))) * list N * result :=
  let h := m_height m + 1 in
  let _t0 := o_clock o h 0 in                                  (* metrics only *)
  let inv := invalid_map o h (b_invalid b) in
  let w0 := m_pending m in
  let base := overlay (m_acache m) st in
  let v0 := Build_view w0 (m_svc_cache m) (m_singleton m) (m_persister m) in
  let '(v1, rs) := exec_txs cfg o base h 0 inv v0 (b_txs b) in
  let w2 := set_timeout_list o base h (v_w v1) (b_txs b) rs in
  let tmap := timeout_map cfg o base h 0 w2 (timeout_list base w2 h) [] in
  let tcounter := keyed_copy o h S_PE0 tmap in
  let l2 := l2_roots o h tmap in
  let mcounter := keyed_copy o h S_PE1 (multi_of base w2 h) in
  let w := timeout_rollback o base h w2 (timeout_list base w2 h) in
  let '(accts, dirty) := flush o h w in
  let root' := dirty :: root in
  let hash := HBlock h (m_hash m) root' (b_txs b) rs in
  let counter := keyed_copy o h S_PE2 (counters o h 0 rs []) in
  let st' := commit o h w st in
  let m' := Build_memory [] (commit o h w (m_acache m)) (v_cache v1) (v_single v1) (v_persist v1) h hash in
  (m', st', root', accts, Build_result h hash root' (b_txs b) rs rs counter tcounter l2 mcounter).

Definition exec_block (cfg : Defects) (o : oracle) (m : memory) (d : disk) (b : block) : memory * disk * result :=
  let '(m', st', root', accts, r) := block_core cfg o m (dk_state d) (dk_root d) b in
  (m', Build_disk st' (r_height r) (r_block_hash r) root' (accts :: dk_journals d) (dk_genesis_ts d), r).

(** genesis: the configuration is the initial contract state [g] (for the correspondence runs:
    the appchain/service records the harness seeds; the harness writes them right after genesis,
    after the first restart point, so that they are never lost -- in the model they are part of
    block 1); the name-service records are either part of block 1 (repaired) or written after its
    flush (faithful) *)
Definition bns_data : list (N * val) := [(K_bns 1, VNum 1); (K_bns 2, VNum 1); (K_bns 3, VNum 1)].
Definition genesis (cfg : Defects) (o : oracle) (g : list (N * val)) : memory * disk * result :=
  let w0 := fold_left (fun w kv => sset (fst kv) (snd kv) w) g [] in
  let w1 := if d_bns_after_flush cfg then w0 else fold_left (fun w kv => sset (fst kv) (snd kv) w) bns_data w0 in
  let '(accts, dirty) := flush o 1 w1 in
  let root := [dirty] in
  let hash := HBlock 1 HNone root [] [] in
  let d := Build_disk (commit o 1 w1 []) 1 hash root [accts] (o_clock o 1 0) in
  let pend := if d_bns_after_flush cfg then fold_left (fun w kv => sset (fst kv) (snd kv) w) bns_data [] else [] in
  let m := Build_memory pend (commit o 1 w1 []) [] false [] 1 hash in
  (m, d, Build_result 1 hash root [] [] [] [] [] [] []).

Definition restart (m : memory) (d : disk) : memory := reload d.

(** [rs n = true]: the node is stopped and reopened before the n-th block of the history *)
Fixpoint run_blocks (cfg : Defects) (o : oracle) (rs : nat -> bool) (n : nat) (m : memory) (d : disk) (bs : list block) : list result :=
  match bs with
  | [] => []
  | b :: rest =>
      let m1 := if rs n then restart m d else m in
      let '(m2, d2, r) := exec_block cfg o m1 d b in
      r :: run_blocks cfg o rs (S n) m2 d2 rest
  end.

Definition run (cfg : Defects) (o : oracle) (rs : nat -> bool) (g : list (N * val)) (bs : list block) : list result :=
  let '(m, d, r) := genesis cfg o g in
  r :: run_blocks cfg o rs 0 m d bs.

(* ------------------------------------------------------------------------------------- *)
(** * The property predicate on traces, and the correspondence judge *)

(** [digests]: per block, per field, the value observed on each replica (a 256-bit digest of
    the canonical bytes).  The property: on every block every replica reports what replica 0
    reports. *)
Definition all_same (l : list N) : bool :=
  match l with [] => true | x :: t => forallb (N.eqb x) t end.
Definition block_agrees (fields : list (list N)) : bool := forallb all_same fields.
Definition replicas_agree_b (digests : list (list (list N))) : bool := forallb block_agrees digests.
Definition replicas_agree (digests : list (list (list N))) : Prop :=
  forall fields, In fields digests -> forall vals, In vals fields -> forall x y, In x vals -> In y vals -> x = y.
Fixpoint first_false {A} (p : A -> bool) (l : list A) (i : N) : option N :=
  match l with [] => None | x :: t => if p x then first_false p t (i + 1) else Some i end.

(** the same predicate on model results: two runs agree *)
Definition results_agree (a b : list result) : Prop := a = b.

(** projected observables of one block *)
Record obs := {
  ob_txs : list (bool * bool * N);         (* ok, TxStatus = BEGIN_FAILURE, ret class: 0 none 1 begin_failure 2 batch 3 error *)
  ob_counter : smap (list (N * bool));
  ob_timeout : smap (list N);
  ob_multi : smap (list N);
  ob_l2 : N
}.
Definition ret_class (r : receipt) : N :=
  match rc_ret r with RNone => 0 | RBeginFailure => 1 | RBatch => 2 | RNilPtr => 4 | RIfaceConv => 5 | _ => 3 end.
Definition obs_of (r : result) : obs :=
  Build_obs (map (fun x => (rc_ok x, rc_begin_failure x, ret_class x)) (r_receipts r))
            (map (fun kv => (fst kv, map (fun e => (fst (fst e), snd (fst e))) (snd kv))) (r_counter r))
            (r_timeout_counter r) (r_multitx_counter r) (N.of_nat (List.length (r_timeout_l2roots r))).

Definition tx3_eqb (a b : bool * bool * N) : bool :=
  Bool.eqb (fst (fst a)) (fst (fst b)) && Bool.eqb (snd (fst a)) (snd (fst b)) && (snd a =? snd b).
Definition nb_eqb (a b : N * bool) : bool := (fst a =? fst b) && Bool.eqb (snd a) (snd b).
Definition smap_eqb {A} (e : A -> A -> bool) (a b : smap A) : bool :=
  list_eqb (fun x y => (fst x =? fst y) && e (snd x) (snd y)) a b.
Definition obs_eqb (a b : obs) : bool :=
  list_eqb tx3_eqb (ob_txs a) (ob_txs b) &&
  smap_eqb (list_eqb nb_eqb) (ob_counter a) (ob_counter b) &&
  smap_eqb (list_eqb N.eqb) (ob_timeout a) (ob_timeout b) &&
  smap_eqb (list_eqb N.eqb) (ob_multi a) (ob_multi b) &&
  (ob_l2 a =? ob_l2 b).

(** candidate oracles for the search: the n-th permutation (Lehmer code) of the sorted keys *)
Fixpoint take_nth (n : nat) (l : list N) : option (N * list N) :=
  match l, n with
  | [], _ => None
  | x :: t, O => Some (x, t)
  | x :: t, S k => match take_nth k t with Some (y, r) => Some (y, x :: r) | None => None end
  end.
Fixpoint nth_perm (fuel : nat) (n : N) (l : list N) : list N :=
  match fuel with
  | O => l
  | S f =>
      match l with
      | [] => []
      | _ => let len := N.of_nat (List.length l) in
             match take_nth (N.to_nat (n mod len)) l with
             | Some (x, r) => x :: nth_perm f (n / len) r
             | None => l
             end
      end
  end.
Definition cand_oracle (n : N) : oracle :=
  Build_oracle (fun _ _ _ l => nth_perm (List.length l) n (isort l)) (fun _ l => l) (fun _ _ => 0) (fun _ => false).

(** one replica against the model: blocks are matched one after the other; where a listed
    defect makes a list order map-dependent, up to [cands] permutations are tried per block.
    Returns the index of the first block that no candidate reproduces. *)
Fixpoint find_cand (cfg : Defects) (m : memory) (d : disk) (b : block) (want : obs) (n : N) (fuel : nat)
  : option (memory * disk) :=
  match fuel with
  | O => None
  | S f =>
      let '(m', d', r) := exec_block cfg (cand_oracle n) m d b in
      if obs_eqb (obs_of r) want then Some (m', d') else find_cand cfg m d b want (n + 1) f
  end.
Fixpoint match_blocks (cfg : Defects) (cands : nat) (rs : list bool) (m : memory) (d : disk)
         (bs : list block) (os : list obs) (i : N) : option N :=
  match bs, os with
  | [], _ => None
  | _ :: _, [] => Some i
  | b :: bt, w :: ot =>
      let restart_here := match rs with true :: _ => true | _ => false end in
      let m1 := if restart_here then restart m d else m in
      match find_cand cfg m1 d b w 0 cands with
      | Some (m2, d2) => match_blocks cfg cands (tl rs) m2 d2 bt ot (i + 1)
      | None => Some i
      end
  end.
Definition match_replica (cfg : Defects) (cands : nat) (g : list (N * val)) (rs : list bool) (bs : list block) (os : list obs) : option N :=
  let '(m, d, _) := genesis cfg o_id g in
  match_blocks cfg cands rs m d bs os 0.

Record case := {
  c_cfg : Defects;
  c_cands : nat;
  c_genesis : list (N * val);
  c_blocks : list block;
  c_digests : list (list (list N));         (* block 0 = genesis *)
  c_restarts : list (list bool);            (* per replica *)
  c_obs : list (list obs)                   (* per replica (replica 0 only when the replicas agree) *)
}.

(** verdict: the property on the implementation's own traces FIRST *)
Definition judge_c01 (c : case) : verdict :=
  match first_false block_agrees (c_digests c) 0 with
  | Some b => V_propfalse b
  | None =>
      match c_restarts c, c_obs c with
      | rs :: _, os :: _ =>
          match match_replica (c_cfg c) (c_cands c) (c_genesis c) rs (c_blocks c) os with
          | Some i => V_mismatch i
          | None => V_ok
          end
      | _, _ => V_domain 0
      end
  end.

(** for a history on which replicas disagree: is every replica's trace a behaviour of the model
    under [c_cfg] (its own restarts, some candidate orders)?  (0,_) yes; (1, r*1000+i) replica r
    is not reproduced from block i on. *)
Fixpoint explain_all (c : case) (rss : list (list bool)) (oss : list (list obs)) (r : N) : verdict :=
  match rss, oss with
  | rs :: rt, os :: ot =>
      match match_replica (c_cfg c) (c_cands c) (c_genesis c) rs (c_blocks c) os with
      | Some i => V_mismatch (r * 1000 + i)
      | None => explain_all c rt ot (r + 1)
      end
  | _, _ => V_ok
  end.
Definition explain_c01 (c : case) : verdict := explain_all c (c_restarts c) (c_obs c) 0.
