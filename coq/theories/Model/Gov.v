(** Model of the governance voting machinery of internal/executor/contracts:
    governance.go (SubmitProposal, Vote/setVote/countVote, WithdrawProposal/endProposal,
    ZeroPermission, Lock/UnLockLowPriorityProposal, EndObjProposal,
    UpdateAvailableElectorateNum, handleResult/manageObj), role.go (RegisterRole, FreezeRole,
    ActivateRole, LogoutRole, Manage, updateRoleRelatedProposalInfo, updateStrategyInfo),
    node_manager.go (RegisterNode / LogoutNode of an NVP node, Manage) and
    proposal_strategy.go (UpdateProposalStrategy, Manage, UpdateProposalStrategyByRolesChange).

    Faithful to the code as it is; each listed defect is a flag of [Defects]: flag on = what the
    unrepaired code does, flag off = the repaired behaviour.  The strategy expression is an
    abstract [E] with an arbitrary decision predicate [sem]; tables (priority map, special
    lists, state machines, pre-check maps, availability set) come from [BXGen.Gen_GovConsts],
    regenerated from the Go sources on every run.  Definitions only. *)
From BX Require Import Base.Prelude Base.Fsm Model.Strategy.
From BXGen Require Import Gen_GovConsts.
From Coq Require Import String.
Local Open Scope N_scope.

Record Defects := mkDefects {
  d_zero_open : bool;        (* ZeroPermission(id): no caller check, no status check *)
  d_underflow : bool;        (* MakeStrategyDecision: availableNum - reject wraps *)
  d_avail_voted : bool;      (* freeze/activate of an elector who already voted changes AvailableElectorateNum *)
  d_special_updavail : bool; (* UpdateAvailableElectorateNum concludes a special proposal without super-admin vote *)
  d_unlock_closed : bool;    (* unlockLowPriorityProposal re-opens / re-closes an already ended proposal *)
  d_logout_inc : bool        (* unrepaired recount rules: per event and result (freeze/activate approved, logout rejected) and the
                                logout request tests availability AFTER the status change, so it never decrements;
                                repaired: recount whenever the administrator's availability really changes, and a
                                PAUSED proposal gets the new count but is not concluded by it; the recount loop works on
                                each proposal's current record instead of the snapshot read once *)
}.
Definition cfg_fixed : Defects := mkDefects false false false false false false.
Definition cfg_faithful : Defects := mkDefects true true true true true true.
Definition defects_of_bits (n : N) : Defects :=
  mkDefects (N.testbit n 0) (N.testbit n 1) (N.testbit n 2) (N.testbit n 3) (N.testbit n 4) (N.testbit n 5).

(** proposal status codes 0 proposed 1 paused 2 approved 3 rejected;
    end reasons 0 none 1 normal 2 zero-permission 3 withdrawn 4 priority 5 electorate 6 cleared;
    modules 0 role_mgr 1 node_mgr 2 proposal_strategy_mgr;
    result codes of a transaction: 0 ok, 1 no permission, 2 voter is not an available admin,
    3 no such proposal, 4 vote on a proposal that is not open for voting, 5 repeated vote,
    6 illegal ballot, 7 voter not in the electorate, 8 ending an ended proposal, 9 other,
    97 out of fuel, 99 outside the model's domain *)
Definition ST_PROPOSED := 0. Definition ST_PAUSED := 1. Definition ST_APPROVED := 2. Definition ST_REJECTED := 3.
Definition RS_NORMAL := 1. Definition RS_ZERO := 2. Definition RS_WITHDRAWN := 3.
Definition RS_PRIORITY := 4. Definition RS_ELECTORATE := 5. Definition RS_CLEAR := 6.

Inductive res (A : Type) := Ok (a : A) | Fail (code : N).
Arguments Ok {A} a. Arguments Fail {A} code.

Definition seqb := String.eqb.
Definition mod_name (m : N) : string :=
  if m =? 0 then gov_mod_role else if m =? 1 then gov_mod_node else gov_mod_strategy.
Definition is_avail_status (s : string) : bool := existsb (seqb s) gov_role_available.
Definition prio (ev : string) : N :=
  match alookup seqb ev gov_priority with Some n => n | None => 0 end.
Definition is_special (m : N) (ev : string) : bool :=
  existsb (seqb (mod_name m)) gov_special_types || existsb (seqb ev) gov_special_events.
Definition pre_ok (pre : list (string * list string)) (ev status : string) : bool :=
  match alookup seqb ev pre with Some l => existsb (seqb status) l | None => false end.
Definition subst_last (last : string) (evs : fsm_events) : fsm_events :=
  map (fun e : string * list string * string =>
         let '(n, srcs, d) := e in (n, srcs, if seqb d gov_last_marker then last else d)) evs.
Definition fire (evs : fsm_events) (cur ev last : string) : option string :=
  fsm_fire (subst_last last evs) cur ev.

Fixpoint upd_nth {A} (i : nat) (f : A -> A) (l : list A) : list A :=
  match l, i with
  | [], _ => []
  | x :: t, O => f x :: t
  | x :: t, S k => x :: upd_nth k f t
  end.

Definition om_del (i : nat) (l : list nat) : list nat := filter (fun j => negb (Nat.eqb j i)) l.
Definition om_set (i : nat) (l : list nat) : list nat := if existsb (Nat.eqb i) l then l else l ++ [i].

Section Gov.
  Context {E : Type}.
  Variable E_eqb : E -> E -> bool.
  Variable sem : E -> N -> N -> N -> bool.
  Variable e_default : E.

  Record phdr := mkH {
    h_from : N; h_seq : N; h_mod : N; h_ev : string; h_obj : N; h_last : string;
    h_elect : list (N * N);                 (* electorate frozen at submission: (admin, weight) *)
    h_total : N; h_special : bool; h_zero : bool; h_expr : E;
    h_extra : option (option bool * option E); (* strategy update: new type (zero?) / new expression when edited *)
    h_lock : option nat }.

  Record proposal := mkP {
    p_hdr : phdr; p_status : N; p_reason : N;
    p_ballots : list (N * bool);            (* voter, approve? *)
    p_approve : N; p_reject : N; p_super : bool; p_avail : N; p_thresh : N;
    p_cavail : N;                           (* ghost: AvailableElectorateNum when the proposal was concluded *)
    p_manage : list N }.                    (* ghost: conclusions for which handleResult / Manage ran *)

  Record state := mkS {
    s_roles : list (N * (string * N));      (* account -> status, weight (governance admins and candidates) *)
    s_nodes : list (N * string);
    s_strat : list (N * (bool * E * string)); (* module -> zero-permission?, expression, status *)
    s_props : list proposal;                (* index = creation order *)
    s_proposed : list nat;                  (* status index "proposed", ordered map order *)
    s_paused : list nat }.

  Definition with_roles st v := mkS v (s_nodes st) (s_strat st) (s_props st) (s_proposed st) (s_paused st).
  Definition with_nodes st v := mkS (s_roles st) v (s_strat st) (s_props st) (s_proposed st) (s_paused st).
  Definition with_strat st v := mkS (s_roles st) (s_nodes st) v (s_props st) (s_proposed st) (s_paused st).
  Definition with_props st v := mkS (s_roles st) (s_nodes st) (s_strat st) v (s_proposed st) (s_paused st).
  Definition with_idx st a b := mkS (s_roles st) (s_nodes st) (s_strat st) (s_props st) a b.

  Definition with_status (p : proposal) (s : N) : proposal :=
    mkP (p_hdr p) s (p_reason p) (p_ballots p) (p_approve p) (p_reject p) (p_super p) (p_avail p) (p_thresh p) (p_cavail p) (p_manage p).
  Definition with_reason (p : proposal) (r : N) : proposal :=
    mkP (p_hdr p) (p_status p) r (p_ballots p) (p_approve p) (p_reject p) (p_super p) (p_avail p) (p_thresh p) (p_cavail p) (p_manage p).
  Definition with_avail (p : proposal) (n th : N) : proposal :=
    mkP (p_hdr p) (p_status p) (p_reason p) (p_ballots p) (p_approve p) (p_reject p) (p_super p) n th (p_cavail p) (p_manage p).
  (** conclusion through handleResult: status, reason, ghost fields *)
  Definition with_close (p : proposal) (s r : N) : proposal :=
    mkP (p_hdr p) s r (p_ballots p) (p_approve p) (p_reject p) (p_super p) (p_avail p) (p_thresh p) (p_avail p) (p_manage p ++ [s]).
  Definition with_ballot (p : proposal) (v : N) (b : bool) (w th : N) : proposal :=
    mkP (p_hdr p) (p_status p) (p_reason p) ((v, b) :: p_ballots p)
        (if b then p_approve p + 1 else p_approve p)
        (if b then p_reject p else p_reject p + 1)
        (p_super p || (w =? gov_super_weight)) (p_avail p) th (p_cavail p) (p_manage p).

  Definition get_prop st (i : nat) : option proposal := nth_error (s_props st) i.
  Definition set_prop st (i : nat) (p : proposal) : state := with_props st (upd_nth i (fun _ => p) (s_props st)).

  Definition role_of st (x : N) : option (string * N) := alookup N.eqb x (s_roles st).
  Fixpoint aput {V} (x : N) (v : V) (l : list (N * V)) : list (N * V) :=
    match l with
    | [] => [(x, v)]
    | (k, v0) :: t => if k =? x then (k, v) :: t else (k, v0) :: aput x v t
    end.
  Definition set_role st x v := with_roles st (aput x v (s_roles st)).
  Definition node_of st (x : N) : option string := alookup N.eqb x (s_nodes st).
  Definition set_node st x v := with_nodes st (aput x v (s_nodes st)).
  Definition strat_of st (m : N) : option (bool * E * string) := alookup N.eqb m (s_strat st).
  Definition set_strat st m v := with_strat st (aput m v (s_strat st)).

  Definition is_avail_admin st (x : N) : bool :=
    match role_of st x with Some (s, _) => is_avail_status s | None => false end.
  (** getElectorate: the available governance admins with their weights *)
  Definition electorate st : list (N * N) :=
    flat_map (fun r : N * (string * N) => if is_avail_status (fst (snd r)) then [(fst r, snd (snd r))] else []) (s_roles st).
  Definition avail_num st : N := N.of_nat (List.length (electorate st)).

  (** changeProposalStatus: ordered-map bookkeeping of the status indexes + the status field *)
  Definition change_status st (i : nat) (ns : N) : state :=
    match get_prop st i with
    | None => st
    | Some p =>
      let old := p_status p in
      let a1 := if old =? ST_PROPOSED then om_del i (s_proposed st) else s_proposed st in
      let b1 := if old =? ST_PAUSED then om_del i (s_paused st) else s_paused st in
      let a2 := if ns =? ST_PROPOSED then om_set i a1 else a1 in
      let b2 := if ns =? ST_PAUSED then om_set i b1 else b1 in
      with_idx (set_prop st i (with_status p ns)) a2 b2
    end.

  (** lockLowPriorityProposal: the first proposed proposal of the object with a lower priority *)
  Fixpoint find_lock (ps : list proposal) (i : nat) (obj : N) (ev : string) : option nat :=
    match ps with
    | [] => None
    | p :: t =>
      if (h_obj (p_hdr p) =? obj) && (p_status p =? ST_PROPOSED) && (prio (h_ev (p_hdr p)) <? prio ev)
      then Some i else find_lock t (S i) obj ev
    end.
  Definition lock_low st (obj : N) (ev : string) : state * option nat :=
    match find_lock (s_props st) 0 obj ev with
    | Some i => (change_status st i ST_PAUSED, Some i)
    | None => (st, None)
    end.

  Definition strategy_info st (m : N) : bool * E :=
    match strat_of st m with Some (z, e, _) => (z, e) | None => (false, e_default) end.

  (** SubmitProposal (called by the manager contracts only) *)
  Definition submit st (from : N) (ev : string) (m obj : N) (last : string)
             (extra : option (option bool * option E)) : res (state * nat) :=
    let el := electorate st in
    let n := N.of_nat (List.length el) in
    let '(z, e) := strategy_info st m in
    match (if z then Some 0 else threshold (sem e) 0 0 n) with
    | None => Fail 9
    | Some th =>
      let '(st1, lock) := lock_low st obj ev in
      let seq := N.of_nat (List.length (filter (fun p => h_from (p_hdr p) =? from) (s_props st1))) in
      let h := mkH from seq m ev obj last el n (is_special m ev) z e extra lock in
      let p := mkP h ST_PROPOSED 0 [] 0 0 false n th 0 [] in
      let i := List.length (s_props st1) in
      Ok (with_idx (with_props st1 (s_props st1 ++ [p])) (s_proposed st1 ++ [i]) (s_paused st1), i)
    end.

  (** UpdateProposalStrategyByRolesChange *)
  Definition update_strategy_info st : state :=
    let n := avail_num st in
    fold_left (fun s m =>
      match strat_of s m with
      | Some (z, e, stt) =>
        if seqb stt gov_st_updating || z then s
        else match threshold (sem e) 0 0 n with
             | None => set_strat s m (false, e_default, gov_st_available)
             | Some _ => s
             end
      | None => s
      end) [1; 0; 2] st.

  Section Rec.
    Variable cfg : Defects.
    (** [conclude] with less fuel: state, proposal, new status, end reason *)
    Variable rec : state -> nat -> N -> N -> res state.

    (** UpdateAvailableElectorateNum(id, n) as called by the role contract *)
    Definition update_avail st (i : nat) (n : N) : res state :=
      match get_prop st i with
      | None => Fail 3
      | Some p =>
        let h := p_hdr p in
        if h_zero h then Ok st
        else
          match threshold (sem (h_expr h)) (p_approve p) (p_reject p) (h_total h) with
          | None => Fail 9
          | Some th =>
            let st1 := set_prop st i (with_avail p n th) in
            let d := decide (sem (h_expr h)) (d_underflow cfg) (p_approve p) (p_reject p) (h_total h) n in
            let blocked := (h_special h && negb (p_super p) && negb (d_special_updavail cfg))
                           || (negb (d_logout_inc cfg) && (p_status p =? ST_PAUSED)) in
            match d with
            | DOpen => Ok st1
            | _ =>
              if blocked then Ok st1
              else if 2 <=? p_status p then Fail 98   (* an ended proposal would be concluded again: Manage fails *)
              else rec st1 i (match d with DApprove => ST_APPROVED | _ => ST_REJECTED end) RS_ELECTORATE
            end
          end
      end.

    (** updateRoleRelatedProposalInfo: the not-closed proposals are read ONCE (snapshot), then
        AvailableElectorateNum +-1 of the snapshot copy is written back one by one *)
    Definition cascade_step (x : N) (inc : bool) (acc : res state) (ip : nat * option proposal) : res state :=
      match acc with
      | Fail c => Fail c
      | Ok s =>
        match snd ip with
        | None => Ok s
        | Some p =>
          if existsb (fun e : N * N => fst e =? x) (h_elect (p_hdr p)) then
            if negb (d_avail_voted cfg) && existsb (fun b : N * bool => fst b =? x) (p_ballots p) then Ok s
            else
              (* unrepaired: count from the snapshot copy; repaired: from the current record, skipping ended proposals *)
              let cur := if d_logout_inc cfg then Some p else get_prop s (fst ip) in
              match cur with
              | None => Ok s
              | Some q =>
                if negb (d_logout_inc cfg) && (2 <=? p_status q) then Ok s
                else update_avail s (fst ip)
                       (if inc then wrap64 (p_avail q + 1) else wrap64 (p_avail q + W64 - 1))
              end
          else Ok s
        end
      end.
    Definition cascade st (x : N) (inc : bool) : res state :=
      fold_left (cascade_step x inc) (map (fun i => (i, get_prop st i)) (s_proposed st ++ s_paused st)) (Ok st).

    (** the Manage method of the three manager contracts *)
    Definition manage st (m : N) (ev next last : string) (obj : N)
               (extra : option (option bool * option E)) : res state :=
      if m =? 0 then
        if seqb ev "unpause"%string then Ok st
        else
        match role_of st obj with
        | None => Fail 9
        | Some (s, w) =>
          match fire gov_role_fsm s next last with
          | None => Fail 9
          | Some s' =>
            let st1 := set_role st obj (s', w) in
            if seqb ev gov_ev_register then
              if seqb next gov_ev_approve then Ok (update_strategy_info st1) else Ok st1
            else if seqb ev gov_ev_freeze || seqb ev gov_ev_activate || seqb ev gov_ev_logout then
              if d_logout_inc cfg then
                if seqb ev gov_ev_logout then
                  if seqb next gov_ev_reject && is_avail_status s' then
                    match cascade st1 obj true with
                    | Ok s2 => Ok (update_strategy_info s2)
                    | Fail c => Fail c
                    end
                  else Ok st1
                else if seqb next gov_ev_approve then
                  match cascade st1 obj (seqb ev gov_ev_activate) with
                  | Ok s2 => Ok (update_strategy_info s2)
                  | Fail c => Fail c
                  end
                else Ok st1
              else if Bool.eqb (is_avail_status s) (is_avail_status s') then Ok st1
              else match cascade st1 obj (is_avail_status s') with
                   | Ok s2 => Ok (update_strategy_info s2)
                   | Fail c => Fail c
                   end
            else Ok st1
          end
        end
      else if m =? 1 then
        match node_of st obj with
        | None => Fail 9
        | Some s =>
          match fire gov_node_fsm s next last with
          | None => Fail 9
          | Some s' => Ok (set_node st obj s')
          end
        end
      else
        let mm := obj - 400 in
        match strat_of st mm with
        | None => Fail 9
        | Some (z, e, s) =>
          match fire gov_strategy_fsm s next last with
          | None => Fail 9
          | Some s' =>
            let st1 := set_strat st mm (z, e, s') in
            if seqb next gov_ev_approve && seqb ev gov_ev_update then
              match extra with
              | None => Fail 9
              | Some (te, ee) =>
                let z' := match te with Some b => b | None => z end in
                let e' := match ee with Some x => x | None => e end in
                if z' then Ok (set_strat st1 mm (z', e', s'))
                else match threshold (sem e') 0 0 (avail_num st1) with
                     | None => Ok (set_strat st1 mm (false, e_default, gov_st_available))
                     | Some _ => Ok (set_strat st1 mm (z', e', s'))
                     end
              end
            else Ok st1
          end
        end.

    (** changeProposalStatus(p, APPROVED|REJECTED) + handleResult(p) *)
    Definition conclude_body st (i : nat) (ns reason : N) : res state :=
      match get_prop st i with
      | None => Fail 3
      | Some p =>
        let h := p_hdr p in
        let next0 := if ns =? ST_APPROVED then gov_ev_approve else gov_ev_reject in
        let st0 := change_status st i ns in
        let st1 := match get_prop st0 i with
                   | Some q => set_prop st0 i (with_close q ns reason)
                   | None => st0
                   end in
        let '(st2, next) :=
            match h_lock h with
            | None => (st1, next0)
            | Some l =>
              match get_prop st1 l with
              | None => (st1, next0)            (* Go: error "proposal does not exist"; cannot happen *)
              | Some lp =>
                if negb (d_unlock_closed cfg) && negb (p_status lp =? ST_PAUSED) then (st1, next0)
                else if ns =? ST_APPROVED
                     then (change_status (set_prop st1 l (with_reason lp RS_PRIORITY)) l ST_REJECTED, next0)
                     else (change_status st1 l ST_PROPOSED, h_ev (p_hdr lp))
              end
            end in
        manage st2 (h_mod h) (h_ev h) next (h_last h) (h_obj h) (h_extra h)
      end.
  End Rec.

  Fixpoint conclude (cfg : Defects) (fuel : nat) (st : state) (i : nat) (ns reason : N) : res state :=
    match fuel with
    | O => Fail 97
    | S k => conclude_body cfg (conclude cfg k) st i ns reason
    end.

  Definition fuel_of st : nat := S (S (List.length (s_props st))).

  (** Vote *)
  Definition vote cfg st (c : N) (i : nat) (b : N) : res state :=
    if negb (is_avail_admin st c) then Fail 2
    else match get_prop st i with
    | None => Fail 3
    | Some p =>
      let h := p_hdr p in
      if negb (p_status p =? ST_PROPOSED) then Fail 4
      else match alookup N.eqb c (h_elect h) with
      | None => Fail 7
      | Some w =>
        if existsb (fun x : N * bool => fst x =? c) (p_ballots p) then Fail 5
        else if 2 <=? b then Fail 6
        else
          let ap := b =? 1 in
          let a' := if ap then p_approve p + 1 else p_approve p in
          let r' := if ap then p_reject p else p_reject p + 1 in
          match threshold (sem (h_expr h)) a' r' (h_total h) with
          | None => Fail 9
          | Some th =>
            let p1 := with_ballot p c ap w th in
            let st1 := set_prop st i p1 in
            if h_special h && negb (p_super p1) then Ok st1
            else match decide (sem (h_expr h)) (d_underflow cfg) a' r' (h_total h) (p_avail p) with
                 | DOpen => Ok st1
                 | DApprove => conclude cfg (fuel_of st) st1 i ST_APPROVED RS_NORMAL
                 | DReject => conclude cfg (fuel_of st) st1 i ST_REJECTED RS_NORMAL
                 end
          end
      end
    end.

  (** WithdrawProposal: caller must be the sponsor named in the id *)
  Definition withdraw cfg st (c : N) (i : nat) : res state :=
    match get_prop st i with
    | None => Fail 1
    | Some p =>
      if negb (h_from (p_hdr p) =? c) then Fail 1
      else if 2 <=? p_status p then Fail 8
      else conclude cfg (fuel_of st) st i ST_REJECTED RS_WITHDRAWN
    end.

  (** ZeroPermission(id): no caller check (managers call it right after SubmitProposal, accounts
      may call it as well).  Repaired: an approved / rejected proposal is left alone.
      Unrepaired ([d_zero_open]): no status check, an ended zero-permission proposal is concluded
      and Managed again. *)
  Definition zero_perm cfg st (i : nat) : res state :=
    match get_prop st i with
    | None => Fail 3
    | Some p =>
      if h_zero (p_hdr p) && (d_zero_open cfg || (p_status p <? 2))
      then conclude cfg (fuel_of st) st i ST_APPROVED RS_ZERO
      else Ok st
    end.

  (** the tail of every manager flow: cross-invoke ZeroPermission, result ignored *)
  Definition zero_after cfg (st : state) (i : nat) : res state :=
    match zero_perm cfg st i with
    | Ok s => Ok s
    | Fail _ => Fail 99      (* partial effects of a failed nested call are outside the model *)
    end.

  (** RoleManager: FreezeRole / ActivateRole / LogoutRole *)
  Definition role_flow cfg st (c x : N) (ev : string) : res state :=
    if seqb ev gov_ev_freeze && (x =? c) then Fail 1
    else
      let self_ok := (seqb ev gov_ev_activate || seqb ev gov_ev_logout) && (x =? c) in
      if negb (is_avail_admin st c || self_ok) then Fail 1
      else match role_of st x with
      | None => Fail 9
      | Some (s, w) =>
        if negb (pre_ok gov_role_pre ev s) then Fail 9
        else if w =? gov_super_weight then Fail 9
        else match submit st c ev 0 x s None with
        | Fail _ => Fail 9
        | Ok (st1, i) =>
          match fire gov_role_fsm s ev s with
          | None => Fail 9
          | Some s' =>
            let st2 := set_role st1 x (s', w) in
            let r3 := if seqb ev gov_ev_logout && is_avail_status (if d_logout_inc cfg then s' else s)
                      then match cascade cfg (conclude cfg (fuel_of st)) st2 x false with
                           | Ok s3 => Ok (update_strategy_info s3)
                           | Fail k => Fail k
                           end
                      else Ok st2 in
            match r3 with
            | Fail _ => Fail 9
            | Ok st3 => zero_after cfg st3 i
            end
          end
        end
      end.

  (** RoleManager.RegisterRole(x, governanceAdmin) *)
  Definition reg_role cfg st (c x : N) : res state :=
    if negb (is_avail_admin st c) then Fail 1
    else
      let ok := match role_of st x with None => true | Some (s, _) => seqb s gov_st_unavailable end in
      if negb ok then Fail 9
      else
        let st0 := set_role st x (gov_st_unavailable, gov_normal_weight) in
        match submit st0 c gov_ev_register 0 x gov_st_unavailable None with
        | Fail _ => Fail 9
        | Ok (st1, i) =>
          match fire gov_role_fsm gov_st_unavailable gov_ev_register gov_st_unavailable with
          | None => Fail 9
          | Some s' => zero_after cfg (set_role st1 x (s', gov_normal_weight)) i
          end
        end.

  (** NodeManager.RegisterNode (NVP node) / LogoutNode *)
  Definition reg_node cfg st (c x : N) : res state :=
    if negb (is_avail_admin st c) then Fail 1
    else
      let ok := match node_of st x with None => true | Some s => seqb s gov_st_unavailable end in
      if negb ok then Fail 9
      else match submit st c gov_ev_register 1 x gov_st_unavailable None with
           | Fail _ => Fail 9
           | Ok (st1, i) => zero_after cfg (set_node st1 x gov_st_registering) i
           end.

  Definition logout_node cfg st (c x : N) : res state :=
    if negb (is_avail_admin st c) then Fail 1
    else match node_of st x with
    | None => Fail 9
    | Some s =>
      if negb (pre_ok gov_node_pre gov_ev_logout s) then Fail 9
      else match submit st c gov_ev_logout 1 x s None with
      | Fail _ => Fail 9
      | Ok (st1, i) =>
        match fire gov_node_fsm s gov_ev_logout s with
        | None => Fail 9
        | Some s' => zero_after cfg (set_node st1 x s') i
        end
      end
    end.

  (** GovStrategy.UpdateProposalStrategy(module, type, expression) *)
  Definition upd_strategy cfg st (c m : N) (z : bool) (e : E) : res state :=
    if negb (is_avail_admin st c) then Fail 1
    else if 2 <? m then Fail 9
    else
      let '(z0, e0, s0) := match strat_of st m with Some v => v | None => (false, e_default, gov_st_available) end in
      if negb (pre_ok gov_strategy_pre gov_ev_update s0) then Fail 9
      else
        let te := if Bool.eqb z z0 then None else Some z in
        let ee := if E_eqb e e0 then None else Some e in
        match te, ee with
        | None, None => Fail 9
        | _, _ =>
          if negb z && negb (admitted (sem e) (avail_num st)) then Fail 9
          else match submit st c gov_ev_update 2 (400 + m) s0 (Some (te, ee)) with
          | Fail _ => Fail 9
          | Ok (st1, i) =>
            let st2 := match strat_of st1 m with
                       | Some (z1, e1, s1) =>
                         match fire gov_strategy_fsm s1 gov_ev_update s1 with
                         | Some s' => set_strat st1 m (z1, e1, s')
                         | None => st1
                         end
                       | None => st1
                       end in
            zero_after cfg st2 i
          end
        end.

  (** EndObjProposal / LockLowPriorityProposal / UnLockLowPriorityProposal as called by a
      manager contract (no transaction of the driver reaches them; the theorems cover them) *)
  Definition end_obj st (obj : N) : state :=
    fold_left (fun s i =>
      match get_prop s i with
      | Some p => if (h_obj (p_hdr p) =? obj) && (p_status p <? 2)
                  then change_status (set_prop s i (with_reason p RS_CLEAR)) i ST_REJECTED else s
      | None => s
      end) (seq 0 (List.length (s_props st))) st.

  Fixpoint best_paused (ps : list proposal) (i : nat) (obj : N) (best : option (nat * proposal)) : option (nat * proposal) :=
    match ps with
    | [] => best
    | p :: t =>
      let best' :=
          if (h_obj (p_hdr p) =? obj) && (p_status p =? ST_PAUSED) then
            match best with
            | None => Some (i, p)
            | Some (_, bp) => if prio (h_ev (p_hdr bp)) <? prio (h_ev (p_hdr p)) then Some (i, p) else best
            end
          else best in
      best_paused t (S i) obj best'
    end.

  Definition unlock_obj cfg st (obj : N) (ev : string) : res state :=
    match best_paused (s_props st) 0 obj None with
    | None => Ok st
    | Some (i, p) =>
      manage cfg (conclude cfg (fuel_of st)) (change_status st i ST_PROPOSED)
             (h_mod (p_hdr p)) ev (h_ev (p_hdr p)) EmptyString obj None
    end.

  Inductive op :=
  | ORegRole (c x : N) | OFreeze (c x : N) | OActivate (c x : N) | OLogout (c x : N)
  | ORegNode (c x : N) | OLogoutNode (c x : N)
  | OVote (c : N) (i : nat) (b : N)
  | OWithdraw (c : N) (i : nat)
  | OZero (c : N) (i : nat)
  | OUpdStrategy (c m : N) (z : bool) (e : E)
  | OGuarded (c : N)            (* an account calls a method reserved to manager contracts *)
  | OBad                        (* unknown method / malformed call *)
  | OIntEndObj (obj : N) | OIntLock (obj : N) (ev : string) | OIntUnlock (obj : N) (ev : string).

  Definition run cfg st (o : op) : res state :=
    match o with
    | ORegRole c x => reg_role cfg st c x
    | OFreeze c x => role_flow cfg st c x gov_ev_freeze
    | OActivate c x => role_flow cfg st c x gov_ev_activate
    | OLogout c x => role_flow cfg st c x gov_ev_logout
    | ORegNode c x => reg_node cfg st c x
    | OLogoutNode c x => logout_node cfg st c x
    | OVote c i b => vote cfg st c i b
    | OWithdraw c i => withdraw cfg st c i
    | OZero c i => zero_perm cfg st i
    | OUpdStrategy c m z e => upd_strategy cfg st c m z e
    | OGuarded _ => Fail 1
    | OBad => Fail 9
    | OIntEndObj obj => Ok (end_obj st obj)
    | OIntLock obj ev => Ok (fst (lock_low st obj ev))
    | OIntUnlock obj ev => unlock_obj cfg st obj ev
    end.

  (** one transaction: a failed transaction changes nothing (the executor reverts it) *)
  Definition step cfg st (o : op) : state * N :=
    match run cfg st o with
    | Ok st' => (st', 0)
    | Fail c => (st, c)
    end.

  Fixpoint run_all cfg st (os : list op) : list (state * N) :=
    match os with
    | [] => []
    | o :: t => let r := step cfg st o in r :: run_all cfg (fst r) t
    end.

  (** genesis: admins 0..n-1 available with the given weights, strategies of the three modules *)
  Definition init_state (weights : list N) (strat : list (N * (bool * E * string))) : state :=
    mkS (map (fun iw : nat * N => (N.of_nat (fst iw), (gov_st_available, snd iw)))
             (combine (seq 0 (List.length weights)) weights))
        [] strat [] [] [].

  (** * The property as boolean predicates over states (the same functions are applied to the
        model's states and to states rebuilt from the implementation's observations) *)

  Definition is_open (p : proposal) : bool := p_status p <? 2.
  Definition by_tally (p : proposal) : bool := (p_reason p =? RS_NORMAL) || (p_reason p =? RS_ELECTORATE).
  Definition count_ballots (b : bool) (l : list (N * bool)) : N :=
    N.of_nat (List.length (filter (fun x : N * bool => Bool.eqb (snd x) b) l)).
  Fixpoint nodup_keys {V} (l : list (N * V)) : bool :=
    match l with
    | [] => true
    | (k, _) :: t => negb (existsb (fun x : N * V => fst x =? k) t) && nodup_keys t
    end.
  Definition voted (p : proposal) (x : N) : bool := existsb (fun b : N * bool => fst b =? x) (p_ballots p).
  Definition in_elect (p : proposal) (x : N) : bool := existsb (fun e : N * N => fst e =? x) (h_elect (p_hdr p)).

  (** approvals = number of DISTINCT electors (frozen at submission) whose ballot is approve *)
  Definition tally_ok (p : proposal) : bool :=
    nodup_keys (p_ballots p) && nodup_keys (h_elect (p_hdr p)) &&
    forallb (fun b : N * bool => in_elect p (fst b)) (p_ballots p) &&
    (p_approve p =? count_ballots true (p_ballots p)) &&
    (p_reject p =? count_ballots false (p_ballots p)) &&
    (h_total (p_hdr p) =? N.of_nat (List.length (h_elect (p_hdr p)))).

  Definition approved_sound (p : proposal) : bool :=
    negb ((p_status p =? ST_APPROVED) && by_tally p) ||
    sem (h_expr (p_hdr p)) (p_approve p) (p_reject p) (h_total (p_hdr p)).

  (** rejected by the tally => no extension by the electors still counted reaches approval *)
  Definition rejected_sound (p : proposal) (avail : N) : bool :=
    negb ((p_status p =? ST_REJECTED) && by_tally p) ||
    negb (reachable_b (sem (h_expr (p_hdr p))) (p_approve p) (p_reject p) (h_total (p_hdr p))
                      (avail - (p_approve p + p_reject p))).

  Definition super_ballot (p : proposal) : bool :=
    existsb (fun b : N * bool =>
               match alookup N.eqb (fst b) (h_elect (p_hdr p)) with
               | Some w => w =? gov_super_weight | None => false end) (p_ballots p).
  Definition special_ok (p : proposal) : bool :=
    Bool.eqb (p_super p) (super_ballot p) &&
    (negb ((2 <=? p_status p) && by_tally p && h_special (p_hdr p)) || p_super p).

  (** bookkeeping: the electors counted as available cover the voters and the available non-voters *)
  Definition avail_nonvoters st (p : proposal) : N :=
    N.of_nat (List.length (filter (fun e : N * N => is_avail_admin st (fst e) && negb (voted p (fst e))) (h_elect (p_hdr p)))).
  Definition avail_ok st (p : proposal) : bool :=
    N.of_nat (List.length (p_ballots p)) + avail_nonvoters st p <=? p_avail p.

  (** for a proposal rejected in this very step: electors available before AND after the step (the
      conclusion itself may make the governed admin available again, e.g. a rejected logout request) *)
  Definition avail_ok_both (a b : state) (p : proposal) : bool :=
    N.of_nat (List.length (p_ballots p)) +
    N.of_nat (List.length (filter (fun e : N * N => is_avail_admin a (fst e) && is_avail_admin b (fst e) && negb (voted p (fst e)))
                                  (h_elect (p_hdr p)))) <=? p_avail p.

  Definition hdr_eqb (a b : phdr) : bool :=
    (h_from a =? h_from b) && (h_seq a =? h_seq b) && (h_mod a =? h_mod b) && seqb (h_ev a) (h_ev b) &&
    (h_obj a =? h_obj b) && seqb (h_last a) (h_last b) &&
    forallb (fun e : N * N => existsb (fun f : N * N => (fst e =? fst f) && (snd e =? snd f)) (h_elect b)) (h_elect a) &&
    Nat.eqb (List.length (h_elect a)) (List.length (h_elect b)) &&
    (h_total a =? h_total b) && Bool.eqb (h_special a) (h_special b) && Bool.eqb (h_zero a) (h_zero b) &&
    E_eqb (h_expr a) (h_expr b) && option_eqb Nat.eqb (h_lock a) (h_lock b).

  Definition ballots_incl (l1 l2 : list (N * bool)) : bool :=
    forallb (fun b : N * bool => existsb (fun c : N * bool => (fst b =? fst c) && Bool.eqb (snd b) (snd c)) l2) l1.

  (** what never changes once a proposal is approved or rejected *)
  Definition final_eqb (p q : proposal) : bool :=
    (p_status p =? p_status q) && (p_reason p =? p_reason q) &&
    (p_approve p =? p_approve q) && (p_reject p =? p_reject q) &&
    ballots_incl (p_ballots p) (p_ballots q) && ballots_incl (p_ballots q) (p_ballots p) &&
    Bool.eqb (p_super p) (p_super q).

  Definition obs_prop_eqb (p q : proposal) : bool :=
    hdr_eqb (p_hdr p) (p_hdr q) && final_eqb p q && (p_avail p =? p_avail q) && (p_thresh p =? p_thresh q).

  Definition role_code_eqb (a b : option (string * N)) : bool :=
    match a, b with
    | Some (s1, w1), Some (s2, w2) => seqb s1 s2 && (w1 =? w2)
    | None, None => true
    | _, _ => false
    end.

  (** equality of the observable parts; accounts, nodes: the universes to compare over *)
  Definition obs_eqb (accts nodes : list N) (a b : state) : bool :=
    Nat.eqb (List.length (s_props a)) (List.length (s_props b)) &&
    list_eqb Nat.eqb (s_proposed a) (s_proposed b) && list_eqb Nat.eqb (s_paused a) (s_paused b) &&
    forallb (fun pq : proposal * proposal => obs_prop_eqb (fst pq) (snd pq)) (combine (s_props a) (s_props b)) &&
    forallb (fun x => role_code_eqb (role_of a x) (role_of b x)) accts &&
    forallb (fun x => option_eqb seqb (node_of a x) (node_of b x)) nodes &&
    forallb (fun m => match strat_of a m, strat_of b m with
                      | Some (z1, e1, s1), Some (z2, e2, s2) => Bool.eqb z1 z2 && E_eqb e1 e2 && seqb s1 s2
                      | None, None => true
                      | _, _ => false end) [0; 1; 2].

  (** must a vote be refused?  (outsider / unavailable admin, finished or paused proposal,
      garbage ballot, not an elector, second vote) *)
  Definition vote_must_fail st (c : N) (i : nat) (b : N) : bool :=
    negb (is_avail_admin st c) ||
    match get_prop st i with
    | None => true
    | Some p => negb (p_status p =? ST_PROPOSED) || negb (in_elect p c) || voted p c || (2 <=? b)
    end.

  (** must a withdrawal be refused?  (unknown proposal, caller is not the sponsor, already ended) *)
  Definition withdraw_must_fail st (c : N) (i : nat) : bool :=
    match get_prop st i with
    | None => true
    | Some p => negb (h_from (p_hdr p) =? c) || (2 <=? p_status p)
    end.

  (** the status of a governed object *)
  Definition obj_status st (x : N) : option string :=
    if x <? 300 then option_map fst (role_of st x)
    else if x <? 400 then node_of st x
    else option_map (fun v : bool * E * string => snd v) (strat_of st (x - 400)).

  (** some proposal about object x was created, ended or (un)paused between a and b *)
  Definition touched (a b : state) (x : N) : bool :=
    existsb (fun iq : nat * proposal =>
               (h_obj (p_hdr (snd iq)) =? x) &&
               match get_prop a (fst iq) with
               | None => true
               | Some p => is_open p && negb (p_status p =? p_status (snd iq))
               end)
            (combine (seq 0 (List.length (s_props b))) (s_props b)).

  (** Clauses of the property for one transaction: [a] state before, [o] the transaction, [rc]
      its result code, [b] state after.  Numbers are returned as the detail of a failing verdict:
      1 a finished proposal changed            2 tally / one vote per elector broken
      3 a recorded ballot was dropped/changed  4 approved without the expression holding
      5 rejected while approval was reachable  6 special proposal concluded without super-admin vote
      7 a refused transaction changed state / a vote, a withdrawal or a call of a reserved method
        that must be refused was accepted
      8 governed object changed without a proposal on it being created or ended
      9 header of an existing proposal changed / electorate of a new one is not the available admins
      10 electors counted as available do not cover the voters + available non-voters
      11 more electors counted as available than the electorate has
      12 the status indexes (GetProposalsByStatus "proposed" / "pause", which feed
         GetNotClosedProposals) do not list exactly the proposals of that status, once each
      13 the stored record of a finished proposal was rewritten (AvailableElectorateNum /
         ThresholdApproveNum of an approved or rejected proposal changed) *)
  Definition olds (a b : state) := combine (s_props a) (s_props b).
  Definition news (a b : state) := skipn (List.length (s_props a)) (s_props b).

  Definition cl_final (a b : state) : bool :=
    (List.length (s_props a) <=? List.length (s_props b))%nat &&
    forallb (fun pq : proposal * proposal => is_open (fst pq) || final_eqb (fst pq) (snd pq)) (olds a b).
  Definition cl_tally (b : state) : bool := forallb tally_ok (s_props b).
  Definition cl_ballots (a b : state) : bool :=
    forallb (fun pq : proposal * proposal => ballots_incl (p_ballots (fst pq)) (p_ballots (snd pq))) (olds a b).
  Definition cl_approved (b : state) : bool := forallb approved_sound (s_props b).
  Definition cl_rejected (a b : state) : bool :=
    forallb (fun pq : proposal * proposal => negb (is_open (fst pq)) || rejected_sound (snd pq) (p_avail (snd pq))) (olds a b)
    && forallb (fun q => rejected_sound q (p_avail q)) (news a b).
  Definition cl_special (b : state) : bool := forallb special_ok (s_props b).
  Definition cl_refusal (accts nodes : list N) (a : state) (o : op) (rc : N) (b : state) : bool :=
    ((rc =? 0) || obs_eqb accts nodes a b) &&
    match o with
    | OVote c i v => negb (vote_must_fail a c i v) || negb (rc =? 0)
    | OWithdraw c i => negb (withdraw_must_fail a c i) || negb (rc =? 0)
    | OGuarded _ => negb (rc =? 0)
    | _ => true
    end.
  Definition cl_object (accts nodes : list N) (a b : state) : bool :=
    forallb (fun x => option_eqb seqb (obj_status a x) (obj_status b x) || touched a b x) (accts ++ nodes ++ [400; 401; 402]).
  Definition cl_header (a b : state) : bool :=
    forallb (fun pq : proposal * proposal => hdr_eqb (p_hdr (fst pq)) (p_hdr (snd pq))) (olds a b) &&
    forallb (fun q : proposal =>
               let el := electorate a in
               forallb (fun e : N * N => existsb (fun f : N * N => (fst e =? fst f) && (snd e =? snd f)) el) (h_elect (p_hdr q)) &&
               Nat.eqb (List.length (h_elect (p_hdr q))) (List.length el)) (news a b).
  Definition cl_avail (a b : state) : bool :=
    forallb (fun q => negb (is_open q) || avail_ok b q) (s_props b) &&
    forallb (fun pq : proposal * proposal =>
               negb (is_open (fst pq) && (p_status (snd pq) =? ST_REJECTED) && by_tally (snd pq)) || avail_ok_both a b (snd pq)) (olds a b).

  Definition cl_bound (a b : state) : bool :=
    forallb (fun pq : proposal * proposal =>
               (p_avail (snd pq) <=? h_total (p_hdr (snd pq))) || negb (p_avail (fst pq) <=? h_total (p_hdr (fst pq)))) (olds a b) &&
    forallb (fun q : proposal => p_avail q <=? h_total (p_hdr q)) (news a b).

  Fixpoint nodup_nat (l : list nat) : bool :=
    match l with [] => true | x :: t => negb (existsb (Nat.eqb x) t) && nodup_nat t end.
  Definition index_ok (b : state) (l : list nat) (st : N) : bool :=
    nodup_nat l &&
    forallb (fun i => match get_prop b i with Some p => p_status p =? st | None => false end) l &&
    forallb (fun ip : nat * proposal => negb (p_status (snd ip) =? st) || existsb (Nat.eqb (fst ip)) l)
            (combine (seq 0 (List.length (s_props b))) (s_props b)).
  Definition cl_index (b : state) : bool := index_ok b (s_proposed b) ST_PROPOSED && index_ok b (s_paused b) ST_PAUSED.
  Definition cl_record (a b : state) : bool :=
    forallb (fun pq : proposal * proposal =>
               is_open (fst pq) || ((p_avail (fst pq) =? p_avail (snd pq)) && (p_thresh (fst pq) =? p_thresh (snd pq)))) (olds a b).

  Definition step_ok (accts nodes : list N) (a : state) (o : op) (rc : N) (b : state) : N :=
    if negb (cl_final a b) then 1
    else if negb (cl_tally b) then 2
    else if negb (cl_ballots a b) then 3
    else if negb (cl_approved b) then 4
    else if negb (cl_rejected a b) then 5
    else if negb (cl_special b) then 6
    else if negb (cl_refusal accts nodes a o rc b) then 7
    else if negb (cl_object accts nodes a b) then 8
    else if negb (cl_header a b) then 9
    else if negb (cl_avail a b) then 10
    else if negb (cl_bound a b) then 11
    else if negb (cl_index b) then 12
    else if negb (cl_record a b) then 13
    else 0.

  (** trace = list of (op, rc, state after); returns 0 or step * 16 + clause *)
  Fixpoint trace_ok (accts nodes : list N) (a : state) (tr : list (op * N * state)) (k : N) : N :=
    match tr with
    | [] => 0
    | (o, rc, b) :: t =>
      let c := step_ok accts nodes a o rc b in
      if c =? 0 then trace_ok accts nodes b t (k + 1) else k * 16 + c
    end.

  (** the same, ignoring the listed (step * 16 + clause) codes: used to look behind an instance
      of a listed finding for further violations *)
  Fixpoint trace_ok_skip (skip : list N) (accts nodes : list N) (a : state) (tr : list (op * N * state)) (k : N) : N :=
    match tr with
    | [] => 0
    | (o, rc, b) :: t =>
      let c := step_ok accts nodes a o rc b in
      if (c =? 0) || existsb (N.eqb (k * 16 + c)) skip then trace_ok_skip skip accts nodes b t (k + 1) else k * 16 + c
    end.

  (** model = implementation, step by step: index of the first difference *)
  Fixpoint trace_diff (accts nodes : list N) (m : list (state * N)) (tr : list (op * N * state)) (k : N) : option N :=
    match m, tr with
    | [], [] => None
    | (ms, mrc) :: mt, (_, rc, b) :: t =>
      let mrc' := if (mrc =? 98) || (mrc =? 97) then 9 else mrc in
      if (mrc' =? rc) && obs_eqb accts nodes ms b then trace_diff accts nodes mt t (k + 1) else Some k
    | _, _ => Some k
    end.

  Definition has_domain_err (m : list (state * N)) : bool := existsb (fun x : state * N => (snd x =? 99) || (snd x =? 97)) m.

End Gov.

(** * Running instance: expressions are indexes into a pool of deep-embedded expressions;
      index 0 must be the default expression [a > 0.5 * t] *)
Definition pool_sem (pool : list bexp) (i : N) (a r t : N) : bool :=
  qsem (nth (N.to_nat i) pool (BLit false)) a r t.

(** one case of the check: returns (property code on the implementation trace,
    0 if some allowed configuration of the model reproduces the trace | 1 + index of the first
    difference under the first configuration | 1000 outside the model's domain | 999 genesis differs) *)
Definition check_case (pool : list bexp) (accts nodes weights : list N)
           (strat : list (N * (bool * N * string))) (init : @state N)
           (tr : list (@op N * N * @state N)) (cfgs skip : list N) : N * N :=
  let sem := pool_sem pool in
  let st0 := init_state weights strat in
  let p := trace_ok_skip N.eqb sem skip accts nodes init tr 0 in
  let ops := map (fun x : @op N * N * @state N => fst (fst x)) tr in
  let m :=
      if negb (forallb bwf pool) then 1000
      else if negb (obs_eqb N.eqb accts nodes st0 init) then 999
      else
        let runs := map (fun c => run_all N.eqb sem 0 (defects_of_bits c) st0 ops) cfgs in
        if existsb (fun m => match trace_diff N.eqb accts nodes m tr 0 with None => true | Some _ => false end) runs then 0
        else match runs with
             | [] => 1000
             | m :: _ => if has_domain_err m then 1000
                         else match trace_diff N.eqb accts nodes m tr 0 with Some i => 1 + i | None => 0 end
             end in
  (p, m).

(** the judge's property code on the MODEL's own trace under a defect configuration
    (used for the [_refuted] witnesses and the non-vacuity examples) *)
Definition model_code (pool : list bexp) (accts nodes weights : list N)
           (strat : list (N * (bool * N * string))) (bits : N) (ops : list (@op N)) : N :=
  let sem := pool_sem pool in
  let st0 := init_state weights strat in
  let rs := run_all N.eqb sem 0 (defects_of_bits bits) st0 ops in
  trace_ok N.eqb sem accts nodes st0
           (map (fun x : @op N * (@state N * N) => (fst x, snd (snd x), fst (snd x))) (combine ops rs)) 0.
