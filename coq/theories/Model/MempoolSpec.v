(** C18 / C19 as boolean predicates over an observed trace (operations + observations after
    every step), and the correspondence judge.  Definitions only.

    The predicates read nothing but the trace: the same functions are evaluated on the
    implementation's trace by the judge and are the subject of the theorems about the model's
    trace ([Proofs/Mempool*.v]). *)
From BX Require Import Base.Prelude Model.Mempool.
Local Open Scope N_scope.

(** failure codes *)
Definition E_below_commit : N := 1.    (* C18: batched a nonce below the commit nonce *)
Definition E_double : N := 2.          (* C18: batched an (account, nonce) twice before its commit *)
Definition E_gap : N := 3.             (* C18: batched a nonce whose predecessor is neither committed nor batched *)
Definition E_provenance : N := 4.      (* C18: batched a transaction never handed to the pool *)
Definition E_batch_size : N := 5.      (* C18: batch longer than the configured size *)
Definition E_seqno : N := 6.           (* C18: batch height is not previous height + 1 *)
Definition E_not_current : N := 7.     (* C18: batched transaction is not the one currently held for its slot *)
Definition E_commit_nonce : N := 8.    (* C18: commit nonce moved without a commit that justifies it *)
Definition E_below_ledger : N := 9.    (* C18: batched a nonce below the nonce the ledger reports for the account *)
Definition E_commit_missed : N := 10.  (* C18: a commit named a transaction the pool still tracks, yet the commit nonce did not pass its nonce *)
Definition E_lookup : N := 11.         (* C19: GetTransaction(h) returned a transaction with another hash *)
Definition E_lost : N := 12.           (* C19: a held transaction disappeared without commit / supersede / age eviction / restart *)
Definition E_not_admitted : N := 13.   (* C19: a fresh, non-stale transaction was not taken *)
Definition E_flag : N := 14.           (* C19: ready unbatched transaction exists but HasPendingRequest = false *)
Definition E_pending : N := 15.        (* C19: pending nonce is not the first missing nonce from the commit nonce *)
Definition E_stale : N := 16.          (* C19: more hashes counted than submitted transactions with a live slot *)
Definition E_liveness : N := 17.       (* C19: ready transaction not batched within the bound of generate/commit rounds *)

Section Spec.
  Variable p : params.
  Variable accts : list N.
  Variable univ : list tx.

  Definition vec_get (vals : list N) (a : N) : N := lookup0 a (combine accts vals).
  Definition obs_pend (o : obs) (a : N) : N := vec_get (o_pend o) a.
  Definition obs_cmt (o : obs) (a : N) : N := vec_get (o_cmt o) a.
  Definition obs_get (o : obs) (t : tx) : option tx :=
    match alookup tx_eqb t (combine univ (o_get o)) with Some r => r | None => None end.
  Definition held (o : obs) (t : tx) : bool :=
    match obs_get o t with Some t' => tx_eqb t' t | None => false end.
  Definition slot_held (o : obs) (sl : slot) : bool :=
    existsb (fun t => slot_eqb (slot_of t) sl && held o t) univ.

  (** the first nonce from [c] on that is not in [B]: the next nonce the account may batch *)
  Fixpoint first_free (B : list slot) (a c : N) (fuel : nat) : N :=
    match fuel with
    | O => c
    | S f => if mem slot_eqb (a, c) B then first_free B a (c + 1) f else c
    end.
  Definition next_batch (cm : N -> N) (B : list slot) (a : N) : N := first_free B a (cm a) (length B).

  (** walker state *)
  Record wst := mkW {
    w_B : list slot;          (* batched and not yet committed *)
    w_seq : N;                (* height of the last batch / last reset *)
    w_sub : list tx;          (* handed to the pool since the last restart *)
    w_arr : list (tx * N);    (* clock at which a held transaction was taken *)
    w_led : list (N * N);     (* what the ledger oracle currently reports *)
    w_live : list tx;         (* taken by the pool since the last restart and its (account, nonce) slot occupied ever since *)
    w_prev : obs
  }.

  Definition obs0 : obs := mkObs [] (map (fun _ => 0) accts) (map (fun _ => 0) accts) false false (map (fun _ => None) univ) 0 [0; 0; 0; 0; 0; 0; 0].
  Definition w0 : wst := mkW [] 0 [] [] [] [] obs0.

  Definition flag (b : bool) (code : N) : list N := if b then [code] else [].

  (** the per-transaction rules of one batch; [cm] is the commit nonce in force *)
  Fixpoint check_txs (lg : list (N * N)) (cm : N -> N) (sub : list tx) (B : list slot) (txs : list tx) : list N * list slot :=
    match txs with
    | [] => ([], B)
    | t :: r =>
        let a := t_acct t in
        let n := t_nonce t in
        let e := flag (n <? cm a) E_below_commit
                 ++ flag (mem slot_eqb (a, n) B) E_double
                 ++ flag (negb ((n =? cm a) || ((1 <=? n) && mem slot_eqb (a, n - 1) B))) E_gap
                 ++ flag (negb (mem tx_eqb t sub)) E_provenance
                 ++ flag (n <? lookup0 a lg) E_below_ledger in
        let '(es, B') := check_txs lg cm sub ((a, n) :: B) r in
        (e ++ es, B')
    end.

  Definition check_batch (lg : list (N * N)) (cm : N -> N) (sub : list tx) (B : list slot) (seq : N) (b : batch) : list N * list slot :=
    let '(es, B') := check_txs lg cm sub B (snd b) in
    (flag (batch_size p <? len (snd b)) E_batch_size ++ flag (negb (fst b =? seq + 1)) E_seqno ++ es, B').

  (** the commit nonces after committing exactly the transactions of [txs] *)
  Definition bump (cm : list (N * N)) (txs : list tx) : list (N * N) :=
    fold_left (fun c t => if lookup0 (t_acct t) c <? t_nonce t + 1 then aset N.eqb (t_acct t) (t_nonce t + 1) c else c) txs cm.

  Definition live (cm : N -> N) (B : list slot) : list slot := filter (fun sl => cm (fst sl) <=? snd sl) B.

  (** batches of an ordinary step: commit nonces do not move *)
  Fixpoint check_batches (lg : list (N * N)) (cm : N -> N) (sub : list tx) (B : list slot) (seq : N) (bs : list batch) : list N * list slot * N :=
    match bs with
    | [] => ([], B, seq)
    | b :: r =>
        let '(e1, B1) := check_batch lg cm sub B seq b in
        let '(e2, B2, seq2) := check_batches lg cm sub B1 (seq + 1) r in
        (e1 ++ e2, B2, seq2)
    end.

  (** batches of a drain step: each batch is committed before the next is generated *)
  Fixpoint check_drain (lg : list (N * N)) (cm : list (N * N)) (sub : list tx) (B : list slot) (seq : N) (bs : list batch)
    : list N * list slot * N * list (N * N) :=
    match bs with
    | [] => ([], B, seq, cm)
    | b :: r =>
        let '(e1, B1) := check_batch lg (fun a => lookup0 a cm) sub B seq b in
        let cm' := bump cm (snd b) in
        let '(e2, B2, seq2, cm2) := check_drain lg cm' sub (live (fun a => lookup0 a cm') B1) (seq + 1) r in
        (e1 ++ e2, B2, seq2, cm2)
    end.

  Definition is_drain (o : op) : bool := match o with ODrain _ => true | _ => false end.

  (** first occurrence of its slot among the transactions of one call *)
  Fixpoint fresh_valid (prev : obs) (sub : list tx) (seen : list slot) (txs : list tx) : list tx :=
    match txs with
    | [] => []
    | t :: r =>
        let rest := fresh_valid prev sub (slot_of t :: seen) r in
        if (obs_pend prev (t_acct t) <=? t_nonce t) && negb (mem slot_eqb (slot_of t) seen) && negb (mem tx_eqb t sub)
        then t :: rest else rest
    end.

  Definition lost_ok (w : wst) (o : op) (ob : obs) (t : tx) : bool :=
    let a := t_acct t in
    let n := t_nonce t in
    match o with
    | OCommit _ | ODrain _ => n <? obs_cmt ob a
    | OProcess _ _ _ txs => existsb (fun t' => slot_eqb (slot_of t') (slot_of t) && negb (tx_eqb t' t) && held ob t') txs
    | ORemoveOld now dur =>
        match alookup tx_eqb t (w_arr w) with
        | Some ta => (ta + dur <? now) && (obs_pend (w_prev w) a <=? n) && negb (mem slot_eqb (a, n) (w_B w))
        | None => false
        end
    | ORestart _ _ => true
    | _ => false
    end.

  (** all nonces of [c, c + k) are held and the next one is not *)
  Fixpoint run_held (ob : obs) (a c : N) (k : nat) : bool :=
    match k with
    | O => negb (slot_held ob (a, c))
    | S k' => slot_held ob (a, c) && run_held ob a (c + 1) k'
    end.

  Definition pending_exact (ob : obs) (a : N) : bool :=
    let c := obs_cmt ob a in
    let pd := obs_pend ob a in
    (c <=? pd) && (pd - c <=? len univ) && run_held ob a c (N.to_nat (N.min (pd - c) (len univ))).

  (** a held transaction that is ready (all nonces from the commit nonce up to it are present)
      and not yet batched *)
  Definition ready_unbatched_tx (ob : obs) (B : list slot) (t : tx) : bool :=
    held ob t && (obs_cmt ob (t_acct t) <=? t_nonce t) && (t_nonce t <? obs_pend ob (t_acct t))
    && negb (mem slot_eqb (slot_of t) B).
  Definition ready_unbatched (ob : obs) (B : list slot) : N := len (filter (ready_unbatched_tx ob B) univ).

  (** components of one step's check; [check_step] below is their concatenation *)
  Definition st_sub (w : wst) (o : op) : list tx :=
    match o with OProcess _ _ _ txs => txs ++ w_sub w | ORestart _ _ => [] | _ => w_sub w end.
  Definition st_seq0 (w : wst) (o : op) : N :=
    match o with OSetSeq n => n | ORestart h _ => h | _ => w_seq w end.
  Definition st_B0 (w : wst) (o : op) : list slot :=
    match o with ORestart _ _ => [] | _ => w_B w end.
  Definition st_led (w : wst) (o : op) : list (N * N) :=
    match o with
    | ORestart _ led => led
    | OSetLedger a n => aset N.eqb a n (w_led w)
    | _ => w_led w
    end.
  Definition cm_prev (w : wst) : list (N * N) := combine accts (o_cmt (w_prev w)).

  (** C18: the batches of the step *)
  Definition st_batches (w : wst) (o : op) (ob : obs) : list N * list slot * N * list (N * N) :=
    if is_drain o then check_drain (st_led w o) (cm_prev w) (st_sub w o) (st_B0 w o) (st_seq0 w o) (o_batches ob)
    else let '(e, B, s) := check_batches (st_led w o) (obs_cmt (w_prev w)) (st_sub w o) (st_B0 w o) (st_seq0 w o) (o_batches ob) in
         (e, B, s, cm_prev w).

  Definition e_current (o : op) (ob : obs) : list N :=
    if is_drain o then []
    else flag (negb (forallb (fun b : batch => forallb (held ob) (snd b)) (o_batches ob))) E_not_current.

  Definition cn_ok (w : wst) (o : op) (ob : obs) (cm_exp : list (N * N)) (a : N) : bool :=
    match o with
    | ORestart _ led => (obs_cmt ob a =? lookup0 a led) && (obs_pend ob a =? lookup0 a led)
    | OCommit hs => (obs_cmt (w_prev w) a <=? obs_cmt ob a) &&
                    ((obs_cmt ob a =? obs_cmt (w_prev w) a) ||
                     existsb (fun t => (t_acct t =? a) && (t_nonce t + 1 =? obs_cmt ob a)) hs)
    | ODrain _ => obs_cmt ob a =? lookup0 a cm_exp
    | _ => obs_cmt ob a =? obs_cmt (w_prev w) a
    end.
  Definition e_commit_nonce (w : wst) (o : op) (ob : obs) (cm_exp : list (N * N)) : list N :=
    flag (negb (forallb (cn_ok w o ob cm_exp) accts)) E_commit_nonce.

  Definition e_lookup (ob : obs) : list N :=
    flag (negb (forallb (fun t => match obs_get ob t with None => true | Some t' => tx_eqb t' t end) univ)) E_lookup.
  Definition e_lost (w : wst) (o : op) (ob : obs) : list N :=
    flag (negb (forallb (fun t => negb (held (w_prev w) t) || held ob t || lost_ok w o ob t) univ)) E_lost.
  Definition e_admitted (w : wst) (o : op) (ob : obs) : list N :=
    match o with
    | OProcess _ _ _ txs => flag (negb (forallb (held ob) (fresh_valid (w_prev w) (w_sub w) [] txs))) E_not_admitted
    | _ => []
    end.
  Definition e_flag (ob : obs) (B2 : list slot) : list N :=
    flag (existsb (fun a => next_batch (obs_cmt ob) B2 a <? obs_pend ob a) accts && negb (o_has ob)) E_flag.
  Definition e_pending (ob : obs) : list N := flag (negb (forallb (pending_exact ob) accts)) E_pending.
  Definition e_stale (w : wst) (o : op) (ob : obs) : list N :=
    flag (len (filter (fun t => slot_held ob (slot_of t)) (dedup tx_eqb (st_sub w o))) <? nth 4 (o_dbg ob) 0) E_stale.
  Definition e_liveness (w : wst) (o : op) (ob : obs) : list N :=
    match o with
    | ODrain k =>
        if ready_unbatched (w_prev w) (w_B w) <=? N.of_nat k * batch_size p then
          flag (negb (forallb (fun t =>
                  negb (ready_unbatched_tx (w_prev w) (w_B w) t)
                  || existsb (fun b : batch => mem tx_eqb t (snd b)) (o_batches ob)) univ)) E_liveness
        else []
    | _ => []
    end.
  Definition st_arr (w : wst) (o : op) (ob : obs) : list (tx * N) :=
    match o with
    | ORestart _ _ => []
    | OProcess _ _ now txs =>
        fold_left (fun ar t => if negb (held (w_prev w) t) && held ob t then aset tx_eqb t now ar else ar) txs (w_arr w)
    | _ => w_arr w
    end.

  (** a commit report that names a transaction the pool was given and whose slot has been occupied
      ever since (by it or by a transaction that took the slot over) must move the account's
      commit nonce past that nonce *)
  Definition e_commit_missed (w : wst) (o : op) (ob : obs) : list N :=
    match o with
    | OCommit hs =>
        flag (negb (forallb (fun h => negb (mem tx_eqb h (w_live w)) || (t_nonce h + 1 <=? obs_cmt ob (t_acct h))) hs)) E_commit_missed
    | _ => []
    end.
  Definition st_live (w : wst) (o : op) (ob : obs) : list tx :=
    match o with
    | ORestart _ _ => []
    | OProcess _ _ _ txs =>
        filter (fun h => slot_held ob (slot_of h))
               (filter (fun t => negb (held (w_prev w) t) && held ob t) txs ++ w_live w)
    | _ => filter (fun h => slot_held ob (slot_of h)) (w_live w)
    end.

  Definition check_step (w : wst) (o : op) (ob : obs) : list N * wst :=
    let '(e_b, B1, seq1, cm_exp) := st_batches w o ob in
    let B2 := live (obs_cmt ob) B1 in
    (e_b ++ e_current o ob ++ e_commit_nonce w o ob cm_exp ++ e_commit_missed w o ob ++ e_lookup ob ++ e_lost w o ob
         ++ e_admitted w o ob ++ e_flag ob B2 ++ e_pending ob ++ e_stale w o ob ++ e_liveness w o ob,
     mkW B2 seq1 (st_sub w o) (st_arr w o ob) (st_led w o) (st_live w o ob) ob).

  (** all failures of a trace as (code, step index) *)
  Fixpoint check_trace (w : wst) (i : N) (tr : list (op * obs)) : list (N * N) :=
    match tr with
    | [] => []
    | (o, ob) :: r =>
        let '(es, w') := check_step w o ob in
        map (fun c => (c, i)) es ++ check_trace w' (N.succ i) r
    end.

  Definition C18_codes : list N := [1; 2; 3; 4; 5; 6; 7; 8; 9; 10].
  Definition C19_codes : list N := [11; 12; 13; 14; 15; 16; 17].

  (** the property predicates: no failure with a code of the property *)
  Definition P_b (codes : list N) (tr : list (op * obs)) : bool :=
    forallb (fun f : N * N => negb (mem N.eqb (fst f) codes)) (check_trace w0 0 tr).
  Definition P (codes : list N) (tr : list (op * obs)) : Prop :=
    forall c i, In (c, i) (check_trace w0 0 tr) -> ~ In c codes.
End Spec.

(* ------------------------------------------------------------------------- judge *)

Definition opt_tx_eqb := option_eqb tx_eqb.
Definition batch_eqb (a b : batch) : bool := (fst a =? fst b) && list_eqb tx_eqb (snd a) (snd b).
Definition obs_eqb (a b : obs) : bool :=
  list_eqb batch_eqb (o_batches a) (o_batches b) && list_eqb N.eqb (o_pend a) (o_pend b)
  && list_eqb N.eqb (o_cmt a) (o_cmt b) && Bool.eqb (o_has a) (o_has b) && Bool.eqb (o_full a) (o_full b)
  && list_eqb opt_tx_eqb (o_get a) (o_get b) && (o_removed a =? o_removed b) && list_eqb N.eqb (o_dbg a) (o_dbg b).

Definition defects_sub (a b : defects) : bool :=
  implb (d_xacct_index a) (d_xacct_index b) && implb (d_commit_pending a) (d_commit_pending b)
  && implb (d_stale_entries a) (d_stale_entries b) && implb (d_lookup_hash a) (d_lookup_hash b).

Definition all_defects : list defects :=
  flat_map (fun a => flat_map (fun b => flat_map (fun c => map (fun d => mkDefects a b c d) [false; true]) [false; true]) [false; true]) [false; true].

Record jcase := mkCase {
  j_params : params; j_accts : list N; j_univ : list tx; j_ops : list op; j_impl : list obs
}.

Definition BIG : N := 4611686018427387904.      (* 2^62: nonces, clocks and ids beyond this are outside the model *)
Definition BIGT : N := 1073741824.               (* 2^30 s: the driver plants clocks as int64 nanoseconds *)
Definition tx_small (t : tx) : bool := (t_acct t <? BIG) && (t_nonce t <? BIG) && (t_id t <? BIG) && (t_ts t <? BIG).
Definition op_small (o : op) : bool :=
  match o with
  | OProcess _ _ now txs => (now <? BIGT) && forallb tx_small txs
  | OCommit hs => forallb tx_small hs
  | ORemoveOld now dur => (now <? BIGT) && (dur <? BIGT)
  | OSetSeq n => n <? BIG
  | ORestart h led => (h <? BIG) && forallb (fun e => snd e <? BIG) led
  | OSetLedger a n => (a <? BIG) && (n <? BIG)
  | _ => true
  end.

Definition model_trace (cfg : defects) (c : jcase) : list obs :=
  map snd (run cfg (j_params c) (j_accts c) (j_univ c) empty_state (j_ops c)).

(** first verdict: the property predicates on the IMPLEMENTATION's trace come first
    ((2, 100*step + code) for the first failure whose code is not excused by an open finding),
    then the correspondence with the model under some configuration below [cur].
    second verdict: (code, step) of the first excused failure, (0,0) if none. *)
Definition judge (cur : defects) (excused : list N) (c : jcase) : list verdict :=
  if negb (forallb op_small (j_ops c) && forallb tx_small (j_univ c)) then [V_domain 0; (0, 0)]
  else if negb (length (j_ops c) =? length (j_impl c))%nat then [V_mismatch (len (j_impl c)); (0, 0)]
  else
    let fails := check_trace (j_params c) (j_accts c) (j_univ c) (w0 (j_accts c) (j_univ c)) 0 (combine (j_ops c) (j_impl c)) in
    let hard := filter (fun f : N * N => negb (mem N.eqb (fst f) excused)) fails in
    let soft := filter (fun f : N * N => mem N.eqb (fst f) excused) fails in
    let v2 := match soft with f :: _ => f | [] => (0, 0) end in
    match hard with
    | f :: _ => [V_propfalse (100 * snd f + fst f); v2]
    | [] =>
        if existsb (fun cfg => defects_sub cfg cur && list_eqb obs_eqb (model_trace cfg c) (j_impl c)) all_defects
        then [V_ok; v2]
        else match first_diff obs_eqb (model_trace cur c) (j_impl c) 0 with
             | Some i => [V_mismatch i; v2]
             | None => [V_ok; v2]
             end
    end.

(* ------------------------------------------------------------------------- compact cases
   The cases file written by the check carries numbers only: transactions are 0-based indices
   into the frame's transaction list (an index past the end decodes to [nil_tx]). *)

Definition tx_nth (univ : list tx) (i : N) : tx := nth (N.to_nat i) univ nil_tx.

Inductive cop :=
| CProcess (leader local : bool) (now : N) (ixs : list N)
| CGenerate
| CCommit (ixs : list N)
| CRemoveOld (now dur : N)
| CSetSeq (n : N)
| CRestart (height : N) (led : list N)
| CDrain (k : N)
| CSetLedger (a n : N).

Record cobs := mkCObs {
  co_batches : list (N * list N); co_pend : list N; co_cmt : list N; co_has : bool; co_full : bool;
  co_get : list N;               (* 0 = nil, k+1 = transaction k of the frame *)
  co_removed : N; co_dbg : list N
}.

Definition decode_op (accts : list N) (univ : list tx) (o : cop) : op :=
  match o with
  | CProcess l lo now ixs => OProcess l lo now (map (tx_nth univ) ixs)
  | CGenerate => OGenerate
  | CCommit ixs => OCommit (map (tx_nth univ) ixs)
  | CRemoveOld now dur => ORemoveOld now dur
  | CSetSeq n => OSetSeq n
  | CRestart h led => ORestart h (combine accts led)
  | CDrain k => ODrain (N.to_nat k)
  | CSetLedger a n => OSetLedger a n
  end.

Definition decode_obs (univ : list tx) (o : cobs) : obs :=
  mkObs (map (fun b : N * list N => (fst b, map (tx_nth univ) (snd b))) (co_batches o))
        (co_pend o) (co_cmt o) (co_has o) (co_full o)
        (map (fun k => if k =? 0 then None else Some (tx_nth univ (k - 1))) (co_get o))
        (co_removed o) (co_dbg o).

Record ccase := mkCCase {
  cc_params : params; cc_accts : list N; cc_univ : list tx; cc_ops : list cop; cc_impl : list cobs
}.

Definition decode_case (c : ccase) : jcase :=
  mkCase (cc_params c) (cc_accts c) (cc_univ c)
         (map (decode_op (cc_accts c) (cc_univ c)) (cc_ops c))
         (map (decode_obs (cc_univ c)) (cc_impl c)).

(** [codes]: the failure codes of the property being checked *)
Definition judge_for (codes : list N) (cur : defects) (excused : list N) (c : ccase) : list verdict :=
  let j := decode_case c in
  if negb (forallb op_small (j_ops j) && forallb tx_small (j_univ j)) then [V_domain 0; (0, 0)]
  else if negb (length (j_ops j) =? length (j_impl j))%nat then [V_mismatch (len (j_impl j)); (0, 0)]
  else
    let fails := filter (fun f : N * N => mem N.eqb (fst f) codes)
                   (check_trace (j_params j) (j_accts j) (j_univ j) (w0 (j_accts j) (j_univ j)) 0 (combine (j_ops j) (j_impl j))) in
    let hard := filter (fun f : N * N => negb (mem N.eqb (fst f) excused)) fails in
    let soft := filter (fun f : N * N => mem N.eqb (fst f) excused) fails in
    let v2 := match soft with f :: _ => f | [] => (0, 0) end in
    match hard with
    | f :: _ => [V_propfalse (100 * snd f + fst f); v2]
    | [] =>
        if existsb (fun cfg => defects_sub cfg cur && list_eqb obs_eqb (model_trace cfg j) (j_impl j)) all_defects
        then [V_ok; v2]
        else match first_diff obs_eqb (model_trace cur j) (j_impl j) 0 with
             | Some i => [V_mismatch i; v2]
             | None => [V_ok; v2]
             end
    end.

(** what the model prints for one step, for replay reports *)
Definition model_cobs_get (univ : list tx) (o : option tx) : N :=
  match o with
  | None => 0
  | Some t => match first_diff (fun a b => negb (tx_eqb a b)) univ (map (fun _ => t) univ) 0 with
              | Some i => i + 1
              | None => len univ + 1
              end
  end.
