(** C03 - the pre-image of the digest the validators of a relay chain sign
    ([utils.EncodePackedAndHash]): From ++ To ++ be8(Index) ++ be8(Type) ++ Payload.Hash ++
    be8(TxStatus), then keccak256.  Bytes are numbers below 256.  Concrete, no oracles.
    Definitions only.

    From and To are concatenated without a separator in the code as it stands; the model keeps
    their concatenation as ONE field ([pf_fromto]).  The three integers are fixed-width
    big-endian words; [encode_min] is the same packing with minimal-length integers (not what the
    code does), kept for the refutation. *)
From BX Require Import Base.Prelude.
Local Open Scope N_scope.

Record pfields := { pf_fromto : list N; pf_index : N; pf_type : N; pf_hash : list N; pf_status : N }.

(** [be n x]: the [n] low-order base-256 digits of [x], most significant first *)
Fixpoint be (n : nat) (x : N) : list N :=
  match n with
  | O => []
  | S k => be k (x / 256) ++ [x mod 256]
  end.

Definition w8 (x : N) : list N := be 8 x.

Definition encode (f : pfields) : list N :=
  pf_fromto f ++ w8 (pf_index f) ++ w8 (pf_type f) ++ pf_hash f ++ w8 (pf_status f).

Fixpoint strip0 (l : list N) : list N :=
  match l with
  | 0 :: t => strip0 t
  | _ => l
  end.

(** minimal big-endian bytes (big.Int.Bytes): no leading zeros, 0 is the empty string *)
Definition wmin (x : N) : list N := strip0 (be 8 x).

Definition encode_min (f : pfields) : list N :=
  pf_fromto f ++ wmin (pf_index f) ++ wmin (pf_type f) ++ pf_hash f ++ wmin (pf_status f).

Definition word64 (x : N) : Prop := x < 2 ^ 64.

(** well-formed: integers fit their Go types *)
Definition pf_ok (f : pfields) : Prop := word64 (pf_index f) /\ word64 (pf_type f) /\ word64 (pf_status f).

Definition with_status (f : pfields) (s : N) : pfields :=
  {| pf_fromto := pf_fromto f; pf_index := pf_index f; pf_type := pf_type f; pf_hash := pf_hash f; pf_status := s |}.

(** the digest of the multi-signature check made concrete: [fields_of] gives the fields of the IBTP
    with a given identity, [hash] stands for keccak256 *)
Definition packed_digest (hash : list N -> N) (fields_of : N -> pfields) (i s : N) : N :=
  hash (encode (with_status (fields_of i) s)).

Definition pf_eqb (a b : pfields) : bool :=
  list_eqb N.eqb (pf_fromto a) (pf_fromto b) && (pf_index a =? pf_index b) && (pf_type a =? pf_type b) &&
  list_eqb N.eqb (pf_hash a) (pf_hash b) && (pf_status a =? pf_status b).

(** judge for the differential on the real function: per probe the fields, the pre-image handed to
    the driver, the driver's answer "real digest = keccak256(pre-image)", and the real digest as
    a list of bytes.  Property on the implementation alone (code 800): two probes with the same
    real digest have the same fields.  Then (correspondence): every pre-image is the model's
    packing and the implementation agreed with its hash. *)
Record dprobe := { dp_fields : pfields; dp_pre : list N; dp_same : bool; dp_digest : list N }.

Definition digest_inj_b (ps : list dprobe) : bool :=
  forallb (fun a => forallb (fun b => negb (list_eqb N.eqb (dp_digest a) (dp_digest b)) || pf_eqb (dp_fields a) (dp_fields b)) ps) ps.

Definition judge_digest (ps : list dprobe) : verdict :=
  if negb (digest_inj_b ps) then V_propfalse 800
  else if forallb (fun p => list_eqb N.eqb (encode (dp_fields p)) (dp_pre p) && dp_same p) ps then (0, 1)
  else V_mismatch 0.
