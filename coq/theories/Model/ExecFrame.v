(** Execution frame of one transaction ([internal/executor/handle.go]: [applyTx],
    [applyTransaction], [applyBxhTransaction]) over an abstract ledger with the undo log of
    [internal/ledger/state_changer.go] (snapshot / revert), nonce bump, fee payment, event
    harvesting into [InterchainMeta.Counter], and read-only execution.

    The body of a contract call is an ARBITRARY PROGRAM [prog] in a small effect language; a
    transaction carries a function from the current ledger state to such a program, so theorems
    over all transactions quantify over every write path of every contract under every failure
    point (including failures after writes, events and cross-contract calls).

    Defect flags (faithful behaviour of the unchanged code when [true]):
    - [d_raw_add]: [Stub.Add]/[AddObject] -> [AddState] writes bypass the undo log;
    - [d_stub_promoted]: the methods of the embedded [boltvm.Stub] are promoted into every
      contract's reflective method set, so any external account can run them by name;
    - [d_ibtp_no_revert]: the IBTP path ([tx.IsIBTP] -> [HandleIBTP]) never reverts on error;
    - [d_failed_events]: events posted by a FAILED transaction are still harvested into [Counter];
    - [d_prev_from_memory]: [SetState] takes the journaled previous value from the in-memory tiers
      only (dirty, origin, account cache) instead of reading through to the store: for a key that
      is only on disk (cold cache after a restart, not read in this block) the journal says "no
      previous value" and the revert leaves a deletion marker;
    - [d_revert_drops_tombstone]: reverting a write whose journaled previous value is "absent"
      removes the in-block entry instead of restoring the deletion marker, so the key reads as
      its value at the start of the block again (an earlier deletion in the same block is lost);
    - [d_stale_changer]: [ClearChangerAndRefund] replaces the ledger's changer object while the
      account objects already loaded in this block keep the old one, so their later journal
      entries are invisible to [RevertToSnapshot].
    Definitions only. *)
From BX Require Import Base.Prelude Model.Fees.
Local Open Scope Z_scope.

Definition key := (N * N)%type.          (* (contract account, key id) *)
Definition key_eqb (a b : key) : bool := (fst a =? fst b)%N && (snd a =? snd b)%N.

Record xcfg := {
  d_raw_add : bool;
  d_stub_promoted : bool;
  d_ibtp_no_revert : bool;
  d_failed_events : bool;
  d_stale_changer : bool;
  d_prev_from_memory : bool;
  d_revert_drops_tombstone : bool;
  d_cross_index_nonce : bool;
  x_fees : fcfg       (* transfer and fee flags, see Model/Fees.v *)
}.

Definition xcfg_fixed : xcfg :=
  {| d_raw_add := false; d_stub_promoted := false; d_ibtp_no_revert := false;
     d_failed_events := false; d_stale_changer := false;
     d_prev_from_memory := false; d_revert_drops_tombstone := false; d_cross_index_nonce := false; x_fees := fcfg_fixed |}.
Definition xcfg_faithful : xcfg :=
  {| d_raw_add := true; d_stub_promoted := true; d_ibtp_no_revert := true;
     d_failed_events := true; d_stale_changer := true;
     d_prev_from_memory := true; d_revert_drops_tombstone := true; d_cross_index_nonce := true; x_fees := fcfg_faithful |}.

Inductive undo :=
| UStore (k : key) (prev : option N)
| UBal (a : N) (prev : Z)
| UNonce (a : N) (prev : N).

(** an event posted through the stub: interchain events carry (destination chain, isBatch) *)
Inductive event :=
| EvInterchain (dsts : list (N * bool))
| EvOther.

Record st := mkSt {
  store : key -> option N;
  bal : bals;
  nonce : N -> N;
  loaded : N -> option N;   (* changer generation the in-block account object is bound to *)
  gen : N;                  (* generation of the ledger's current changer *)
  log : list undo;          (* undo log of the current changer, newest first *)
  evs : list (N * event);   (* event buffer of the current transaction: (index the event was stamped with, event) *)
  warm : key -> bool;       (* the key's value is held by an in-memory tier (dirty / origin / account cache);
                               false = only on disk (cold cache after a restart, not yet read or written) *)
  base : key -> option N    (* the store at the start of the block (what a read falls through to when the
                               in-block entry of a key is dropped) *)
}.

(** The view [store] is what a read returns: the in-block entries (dirty values and deletion
    markers, [None]) over the committed tiers.  [warm] and [base] only matter for the two faithful
    ledger flags above. *)

Definition kset (f : key -> option N) (k : key) (v : option N) : key -> option N :=
  fun x => if key_eqb x k then v else f x.
Definition nset (f : N -> N) (a : N) (v : N) : N -> N :=
  fun x => if (x =? a)%N then v else f x.

Definition touch (s : st) (a : N) : st :=
  match loaded s a with
  | Some _ => s
  | None => mkSt (store s) (bal s) (nonce s)
                 (fun x => if (x =? a)%N then Some (gen s) else loaded s x) (gen s) (log s) (evs s) (warm s) (base s)
  end.

(** is the account object bound to the changer that [RevertToSnapshot] will consult? *)
Definition live (c : xcfg) (s : st) (a : N) : bool :=
  negb (d_stale_changer c) ||
  match loaded s a with None => true | Some g => (g =? gen s)%N end.

(** the previous value a journaled store write records *)
Definition jprev (c : xcfg) (s : st) (k : key) : option N :=
  match (if d_prev_from_memory c && negb (warm s k) then None else store s k) with
  | Some v => Some v
  | None => if d_revert_drops_tombstone c then base s k else None
  end.

Definition jstore (c : xcfg) (s : st) (k : key) (v : option N) : st :=
  let s1 := touch s (fst k) in
  mkSt (kset (store s1) k v) (bal s1) (nonce s1) (loaded s1) (gen s1)
       (if live c s1 (fst k) then UStore k (jprev c s1 k) :: log s1 else log s1) (evs s1)
       (fun x => key_eqb x k || warm s1 x) (base s1).

Definition rawstore (s : st) (k : key) (v : option N) : st :=
  let s1 := touch s (fst k) in
  mkSt (kset (store s1) k v) (bal s1) (nonce s1) (loaded s1) (gen s1) (log s1) (evs s1)
       (fun x => key_eqb x k || warm s1 x) (base s1).

Definition rawadd (c : xcfg) (s : st) (k : key) (v : N) : st :=
  if d_raw_add c then rawstore s k (Some v) else jstore c s k (Some v).

Definition setbal (c : xcfg) (s : st) (a : N) (v : Z) : st :=
  let s1 := touch s a in
  mkSt (store s1) (bset (bal s1) a v) (nonce s1) (loaded s1) (gen s1)
       (if live c s1 a then UBal a (bal s1 a) :: log s1 else log s1) (evs s1) (warm s1) (base s1).

Definition setnonce (c : xcfg) (s : st) (a : N) (v : N) : st :=
  let s1 := touch s a in
  mkSt (store s1) (bal s1) (nset (nonce s1) a v) (loaded s1) (gen s1)
       (if live c s1 a then UNonce a (nonce s1 a) :: log s1 else log s1) (evs s1) (warm s1) (base s1).

Definition peek (s : st) (k : key) : st :=
  let s1 := touch s (fst k) in
  mkSt (store s1) (bal s1) (nonce s1) (loaded s1) (gen s1) (log s1) (evs s1) (fun x => key_eqb x k || warm s1 x) (base s1).

Definition postev (s : st) (i : N) (e : event) : st :=
  mkSt (store s) (bal s) (nonce s) (loaded s) (gen s) (log s) (evs s ++ [(i, e)]) (warm s) (base s).

Definition apply_undo (u : undo) (s : st) : st :=
  match u with
  | UStore k p => mkSt (kset (store s) k p) (bal s) (nonce s) (loaded s) (gen s) (log s) (evs s) (warm s) (base s)
  | UBal a p => mkSt (store s) (bset (bal s) a p) (nonce s) (loaded s) (gen s) (log s) (evs s) (warm s) (base s)
  | UNonce a p => mkSt (store s) (bal s) (nset (nonce s) a p) (loaded s) (gen s) (log s) (evs s) (warm s) (base s)
  end.

Fixpoint undo_list (l : list undo) (s : st) : st :=
  match l with
  | [] => s
  | u :: t => undo_list t (apply_undo u s)
  end.

(** [RevertToSnapshot] to the snapshot taken at the start of the transaction: both snapshots of
    [applyTransaction]/[applyBxhTransaction] are taken before anything is written, i.e. at log
    position 0 of the (fresh) changer *)
Definition revert_all (s : st) : st :=
  let s' := undo_list (log s) s in
  mkSt (store s') (bal s') (nonce s') (loaded s') (gen s') [] (evs s') (warm s') (base s').

(** [Finalise(true)] -> [ClearChangerAndRefund]: a new changer only when the current one has entries *)
Definition finalise (s : st) : st :=
  mkSt (store s) (bal s) (nonce s) (loaded s)
       (match log s with [] => gen s | _ => N.succ (gen s) end) [] [] (warm s) (base s).

(** ------------------------------------------------------------------------------------ *)
(** contract bodies *)

Inductive prog :=
| Done                                        (* return boltvm.Success *)
| Fail (tana : bool)                          (* return boltvm.Error; [tana]: the text contains "target appchain not available" *)
| Panic                                       (* Go panic, recovered by the nearest BoltVM.Run / HandleIBTP *)
| Touch (a : N) (k : prog)                    (* any read of an account: loads its object *)
| Peek (kk : key) (k : prog)                  (* Stub.Get of a key: loads the account, the value becomes warm *)
| JWrite (kk : key) (v : N) (k : prog)        (* Stub.Set / SetObject *)
| JDelete (kk : key) (k : prog)               (* Stub.Delete *)
| RawAdd (kk : key) (v : N) (k : prog)        (* Stub.Add / AddObject *)
| SetBal (a : N) (v : Z) (k : prog)           (* GetAccount(..).AddBalance / SetBalance *)
| PostEvent (e : event) (k : prog)
| Cross (callee : N) (inner kok kerr : prog). (* CrossInvoke: inner frame under its own recover,
                                                 no revert; the caller continues either way *)

Inductive result := ROk | RErr (tana : bool).

(** the context a contract body runs in ([vm.Context]): the position of the transaction in its
    block ([GetTxIndex]; an interchain event is stamped with it by the contract that posts it, and
    [applyTx] lists exactly that position in [Counter]), the nonce of the transaction, and the
    depth of cross-contract calls.  Ledger, transaction, height and logger are shared by caller
    and callee and are not represented.  [CrossInvoke] builds the callee's context from the
    caller's; [d_cross_index_nonce] (mutation class, [false] for the code as it stands): it puts
    the transaction's NONCE where the index belongs. *)
Record callctx := { cx_index : N; cx_nonce : N; cx_depth : N }.

Definition callee_ctx (c : xcfg) (cx : callctx) : callctx :=
  {| cx_index := if d_cross_index_nonce c then cx_nonce cx else cx_index cx;
     cx_nonce := cx_nonce cx; cx_depth := N.succ (cx_depth cx) |}.

Fixpoint run (c : xcfg) (cx : callctx) (p : prog) (s : st) : st * result :=
  match p with
  | Done => (s, ROk)
  | Fail t => (s, RErr t)
  | Panic => (s, RErr false)
  | Touch a k => run c cx k (touch s a)
  | Peek kk k => run c cx k (peek s kk)
  | JWrite kk v k => run c cx k (jstore c s kk (Some v))
  | JDelete kk k => run c cx k (jstore c s kk None)
  | RawAdd kk v k => run c cx k (rawadd c s kk v)
  | SetBal a v k => run c cx k (setbal c s a v)
  | PostEvent e k => run c cx k (postev s (cx_index cx) e)
  | Cross _ inner kok kerr =>
      let '(s1, r) := run c (callee_ctx c cx) inner s in
      match r with ROk => run c cx kok s1 | RErr _ => run c cx kerr s1 end
  end.

(** the RawAdd writes actually executed, in order *)
Fixpoint raws (c : xcfg) (cx : callctx) (p : prog) (s : st) : list (key * N) :=
  match p with
  | Done | Fail _ | Panic => []
  | Touch a k => raws c cx k (touch s a)
  | Peek kk k => raws c cx k (peek s kk)
  | JWrite kk v k => raws c cx k (jstore c s kk (Some v))
  | JDelete kk k => raws c cx k (jstore c s kk None)
  | RawAdd kk v k => (kk, v) :: raws c cx k (rawadd c s kk v)
  | SetBal a v k => raws c cx k (setbal c s a v)
  | PostEvent e k => raws c cx k (postev s (cx_index cx) e)
  | Cross _ inner kok kerr =>
      let '(s1, r) := run c (callee_ctx c cx) inner s in
      raws c (callee_ctx c cx) inner s ++ match r with ROk => raws c cx kok s1 | RErr _ => raws c cx kerr s1 end
  end.

(** keys a program can write (syntactic footprint, every branch) *)
Fixpoint footprint (p : prog) : list key :=
  match p with
  | Done | Fail _ | Panic => []
  | Touch _ k | Peek _ k | SetBal _ _ k | PostEvent _ k => footprint k
  | JWrite kk _ k | JDelete kk k | RawAdd kk _ k => kk :: footprint k
  | Cross _ i a b => footprint i ++ footprint a ++ footprint b
  end.

(** promoted Stub methods invoked by name on some contract (reflection: the method runs, then the
    missing / non-Response result makes InvokeBVM panic, which Run recovers) *)
Inductive stubcall :=
| SSet (k : key) (v : N)
| SDelete (k : key)
| SAdd (k : key) (v : N)
| SPostInterchain (dsts : list (N * bool)).

Definition stub_prog (c : xcfg) (sc : stubcall) : prog :=
  if d_stub_promoted c then
    match sc with
    | SSet k v => JWrite k v Panic
    | SDelete k => JDelete k Panic
    | SAdd k v => RawAdd k v Panic
    | SPostInterchain d => PostEvent (EvInterchain d) Panic
    end
  else Fail false.      (* repaired: "no such method", nothing runs *)

(** ------------------------------------------------------------------------------------ *)
(** transactions *)

Inductive txkind :=
| KTransfer (to : N) (amt : amount)
| KBvm (body : st -> prog)
| KIbtp (body : st -> prog)
| KBad.          (* empty / undecodable payload, wrong vm type, XVM instantiation failure *)

Record tx := { tx_from : N; tx_nonce : N; tx_kind : txkind; tx_invalid : bool }.
Record receipt := { r_ok : bool; r_tana : bool }.

Definition is_ibtp (t : tx) : bool := match tx_kind t with KIbtp _ => true | _ => false end.

Definition gas_of (t : tx) : Z :=
  if tx_invalid t then GasFailed
  else match tx_kind t with
       | KTransfer _ _ => GasNormal
       | KBvm _ | KIbtp _ => GasBVM
       | KBad => GasFailed
       end.

Definition do_transfer (c : xcfg) (s : st) (from to : N) (v : Z) : st * result :=
  if v =? 0 then (s, ROk)
  else if (v <? 0) && negb (d_neg_amount (x_fees c)) then (s, RErr false)
  else
    let s1 := touch s from in
    if bal s1 from <? v then (s1, RErr false)
    else
      let s2 := touch s1 to in
      let tv := bal s2 to in
      let s3 := setbal c s2 from (bal s2 from - v) in
      (setbal c s3 to ((if d_self_transfer (x_fees c) then tv else bal s3 to) + v), ROk).

Fixpoint pay_each_s (c : xcfg) (s : st) (adm : list N) (fee : Z) : st :=
  match adm with
  | [] => s
  | a :: t => pay_each_s c (setbal c s a (bal s a + fee)) t fee
  end.

Definition pay_admins_s (c : xcfg) (e : fenv) (s : st) (fees : Z) : st :=
  pay_each_s c s (admins e) (fees / Z.of_nat (length (admins e))).

Definition is_ok (r : result) : bool := match r with ROk => true | RErr _ => false end.
Definition tana_of (r : result) : bool := match r with ROk => false | RErr t => t end.

Definition clear_frame (s : st) : st :=
  mkSt (store s) (bal s) (nonce s) (loaded s) (gen s) [] [] (warm s) (base s).

(** body of the transaction including its own revert: state, result *)
Definition top_ctx (idx : N) (t : tx) : callctx := {| cx_index := idx; cx_nonce := tx_nonce t; cx_depth := 0 |}.

Definition tx_body (c : xcfg) (idx : N) (s0 : st) (t : tx) : st * result :=
  if tx_invalid t then (s0, RErr false)
  else match tx_kind t with
       | KBad => (s0, RErr false)
       | KTransfer to amt =>
           let '(s', r) := do_transfer c s0 (tx_from t) to (parse_amount amt) in
           (match r with ROk => s' | RErr _ => revert_all s' end, r)
       | KBvm body =>
           let '(s', r) := run c (top_ctx idx t) (body s0) s0 in
           (match r with ROk => s' | RErr _ => revert_all s' end, r)
       | KIbtp body =>
           let '(s', r) := run c (top_ctx idx t) (body s0) s0 in
           (match r with
            | ROk => s'
            | RErr _ => if d_ibtp_no_revert c then s' else revert_all s'
            end, r)
       end.

(** RawAdd writes executed by the transaction *)
Definition tx_raws (c : xcfg) (idx : N) (s : st) (t : tx) : list (key * N) :=
  if tx_invalid t then []
  else match tx_kind t with
       | KBvm body | KIbtp body => raws c (top_ctx idx t) (body (clear_frame s)) (clear_frame s)
       | _ => []
       end.

Definition counter_entry := (N * (N * bool * bool))%type.   (* chain, (tx index, valid, isBatch) *)

(** [applyTx]: every destination of every interchain event of the transaction is listed with the
    index THE EVENT CARRIES *)
Definition harvest (valid : bool) (l : list (N * event)) : list counter_entry :=
  flat_map (fun ie : N * event =>
              match snd ie with
              | EvInterchain ds => map (fun d : N * bool => (fst d, (fst ie, valid, snd d))) ds
              | EvOther => []
              end) l.

(** the fee phase: against the balance left by the body; an unaffordable fee reverts the body *)
Definition fee_phase (c : xcfg) (e : fenv) (s1 : st) (t : tx) (res : result) : st * bool :=
  let from := tx_from t in
  let fees := gas_of t * price e in
  let s1t := touch s1 from in
  if bal s1t from <? fees
  then let x := revert_all s1t in
       if negb (d_fee_after_body (x_fees c)) && negb (bal x from <? fees)
       then (pay_admins_s c e (setbal c x from (bal x from - fees)) fees, false)
       else (pay_admins_s c e (setbal c x from 0) (bal x from), false)
  else (pay_admins_s c e (setbal c s1t from (bal s1t from - fees)) fees, is_ok res).

Definition fee_paid (e : fenv) (s1 : st) (t : tx) : bool :=
  negb (bal (touch s1 (tx_from t)) (tx_from t) <? gas_of t * price e).

Definition apply_tx (c : xcfg) (e : fenv) (idx : N) (s : st) (t : tx)
  : st * receipt * list counter_entry :=
  let s0 := clear_frame s in
  let '(s1, res) := tx_body c idx s0 t in
  let '(s2, ok) := fee_phase c e s1 t res in
  let s3 := setnonce c s2 (tx_from t) (wrap64 (tx_nonce t + 1)) in
  let tana := negb ok && fee_paid e s1 t && tana_of res in
  let cnt := if negb ok && negb (d_failed_events c) then []
             else harvest (negb tana) (evs s3) in
  (finalise s3, {| r_ok := ok; r_tana := tana |}, cnt).

(** a block: the account objects of the previous block are dropped ([Clear]); [pre] are the
    accounts that proof verification loads before the first transaction *)
Definition new_block (s : st) (pre : list N) : st :=
  fold_left touch pre (mkSt (store s) (bal s) (nonce s) (fun _ => None) (gen s) [] [] (warm s) (store s)).

Fixpoint apply_txs (c : xcfg) (e : fenv) (idx : N) (s : st) (ts : list tx)
  : st * list receipt * list counter_entry :=
  match ts with
  | [] => (s, [], [])
  | t :: r =>
      let '(s1, rc, cn) := apply_tx c e idx s t in
      let '(s2, rcs, cns) := apply_txs c e (N.succ idx) s1 r in
      (s2, rc :: rcs, cn ++ cns)
  end.

Definition exec_block (c : xcfg) (e : fenv) (s : st) (pre : list N) (ts : list tx) :=
  apply_txs c e 0%N (new_block s pre) ts.

(** read-only execution ([ApplyReadonlyTransactions]): the transaction is applied to the view
    ledger and [Clear()] drops every account object, i.e. every effect *)
Definition view_tx (c : xcfg) (e : fenv) (s : st) (t : tx) : st * receipt :=
  let '(_, r, _) := apply_tx c e 0%N (new_block s []) t in (s, r).

(** ------------------------------------------------------------------------------------ *)
(** specification side: what a FAILED transaction may leave behind *)

Definition spec_bal (e : fenv) (s : st) (t : tx) : bals :=
  let fees := gas_of t * price e in
  if bal s (tx_from t) <? fees then pay_left e (bal s) (tx_from t)
  else pay_admins e (bset (bal s) (tx_from t) (bal s (tx_from t) - fees)) fees.

Definition spec_nonce (s : st) (t : tx) : N -> N :=
  nset (nonce s) (tx_from t) (wrap64 (tx_nonce t + 1)).

(** the frame property for one transaction *)
Definition frame_ok (e : fenv) (s s' : st) (t : tx) : Prop :=
  (forall k, store s' k = store s k) /\
  (forall a, bal s' a = spec_bal e s t a) /\
  (forall a, nonce s' a = spec_nonce s t a).

(** ------------------------------------------------------------------------------------ *)
(** judge.  One block of an implementation trace with concrete programs.

    [xc_keys]   the tracked store keys with their values before the block
    [xc_bals], [xc_nonces]  tracked accounts before the block
    observations after the block: receipts (SUCCESS?), values of the tracked keys, balances,
    nonces, the Counter entries, and the number of changed entries outside the tracked sets *)

Inductive cbody :=
| CTransfer (to : N) (amt : amount)
| CBvm (p : prog)
| CStub (sc : stubcall)        (* promoted Stub method by name on a contract *)
| CIbtp (p : prog)
| CGrant (newadmin : N) (ok : bool)   (* the governance call that approves an admin registration *)
| CGet (k : key)                      (* a contract read that succeeds iff the key is present (Store.Get, GetInterchain) *)
| CPutIfAbsent (k : key) (v : N)      (* read the key, write it only when absent, succeed (InterchainManager.Register) *)
| CBad.

Record ctx := { c_from : N; c_nonce : N; c_body : cbody; c_invalid : bool }.

(** the admin grant of role.go: [GetAccount(id).AddBalance(genesis balance)] inside the concluding call *)
Definition grant_body (e : fenv) (na : N) (ok : bool) : st -> prog :=
  fun s => if ok then SetBal na (bal s na + genesis_bal e) Done else Fail false.

Definition tx_of (c : xcfg) (e : fenv) (t : ctx) : tx :=
  {| tx_from := c_from t; tx_nonce := c_nonce t; tx_invalid := c_invalid t;
     tx_kind := match c_body t with
                | CTransfer to amt => KTransfer to amt
                | CBvm p => KBvm (fun _ => p)
                | CStub sc => KBvm (fun _ => stub_prog c sc)
                | CIbtp p => KIbtp (fun _ => p)
                | CGrant na ok => KBvm (grant_body e na ok)
                | CGet k => KBvm (fun s => Peek k (match store s k with Some _ => Done | None => Fail false end))
                | CPutIfAbsent k v => KBvm (fun s => Peek k (match store s k with Some _ => Done | None => JWrite k v Done end))
                | CBad => KBad
                end |}.

Definition keys_of (t : ctx) : list key :=
  match c_body t with
  | CBvm p | CIbtp p => footprint p
  | CStub sc => match sc with SSet k _ | SDelete k | SAdd k _ => [k] | SPostInterchain _ => [] end
  | CPutIfAbsent k _ => [k]
  | _ => []
  end.

Record xcase := {
  xc_cfgs : list xcfg;
  xc_env : fenv;
  xc_keys : list (key * option N);
  xc_bals : list (N * Z);
  xc_nonces : list (N * N);
  xc_pre : list N;
  xc_txs : list ctx;
  xc_recs : list bool;
  xc_okeys : list (key * option N);
  xc_obals : list (N * Z);
  xc_ononces : list (N * N);
  xc_ocnt : list (N * (N * bool * bool));
  xc_other : N;
  xc_warm : option (list key);                (* None: every key warm; Some l: exactly the keys of l are warm (after a restart) *)
  xc_posted : list (list N);                 (* per transaction: the destination chains of the interchain events its RECEIPT carries *)
  xc_meta : list (option N * option N)        (* metamorphic pairs: (observed in this run, observed in the run of the same
                                                 history without the FAILED transactions): final values of the tracked keys
                                                 and results of the reads *)
}.

Definition st_of (k : xcase) : st :=
  mkSt (fun x => match alookup key_eqb x (xc_keys k) with Some v => v | None => None end)
       (of_alist (xc_bals k))
       (fun a => match alookup N.eqb a (xc_nonces k) with Some v => v | None => 0%N end)
       (fun _ => None) 0%N [] []
       (fun x => match xc_warm k with None => true | Some l => existsb (key_eqb x) l end)
       (fun x => match alookup key_eqb x (xc_keys k) with Some v => v | None => None end).

Definition optN_eqb := option_eqb N.eqb.
Definition cent_eqb (a b : counter_entry) : bool :=
  (fst a =? fst b)%N && (fst (fst (snd a)) =? fst (fst (snd b)))%N &&
  Bool.eqb (snd (fst (snd a))) (snd (fst (snd b))) && Bool.eqb (snd (snd a)) (snd (snd b)).

(** counter entries are compared per destination chain (Go map), in order *)
Definition cnt_of_chain (ch : N) (l : list counter_entry) := filter (fun x => (fst x =? ch)%N) l.
Definition cnt_eqb (a b : list counter_entry) : bool :=
  (length a =? length b)%nat &&
  forallb (fun x => list_eqb cent_eqb (cnt_of_chain (fst x) a) (cnt_of_chain (fst x) b)) (a ++ b).

Definition xmodel_matches (c : xcfg) (k : xcase) : bool :=
  let '(s', rcs, cnt) := exec_block c (xc_env k) (st_of k) (xc_pre k) (map (tx_of c (xc_env k)) (xc_txs k)) in
  list_eqb Bool.eqb (map r_ok rcs) (xc_recs k) &&
  forallb (fun p : key * option N => optN_eqb (store s' (fst p)) (snd p)) (xc_okeys k) &&
  forallb (fun p : N * Z => bal s' (fst p) =? snd p) (xc_obals k) &&
  forallb (fun p : N * N => (nonce s' (fst p) =? snd p)%N) (xc_ononces k) &&
  cnt_eqb cnt (xc_ocnt k).

Fixpoint xmatch_idx (cs : list xcfg) (k : xcase) (i : N) : N :=
  match cs with
  | [] => 0%N
  | c :: t => if xmodel_matches c k then i else xmatch_idx t k (N.succ i)
  end.

(** property predicate on the implementation's own trace of one block:
    1. every changed tracked key lies in the footprint of a transaction whose receipt is SUCCESS,
       and nothing outside the tracked sets changed;
    2. every Counter entry announced as valid names a position of this block whose receipt is
       SUCCESS and carries an interchain event for that destination chain;
    3. when every transaction of the block FAILED, balances and nonces are exactly the iterated
       fee/nonce specification. *)
Definition succ_keys (k : xcase) : list key :=
  flat_map (fun p : ctx * bool => if snd p then keys_of (fst p) else []) (combine (xc_txs k) (xc_recs k)).

Definition changed_keys (k : xcase) : list key :=
  map fst (filter (fun p : key * option N =>
                     negb (optN_eqb (match alookup key_eqb (fst p) (xc_keys k) with Some v => v | None => None end) (snd p)))
                  (xc_okeys k)).

Definition p_store_b (k : xcase) : bool :=
  forallb (fun x => existsb (key_eqb x) (succ_keys k)) (changed_keys k) && (xc_other k =? 0)%N.

Definition p_counter_b (k : xcase) : bool :=
  forallb (fun x : counter_entry =>
             negb (snd (fst (snd x))) ||
             (nth (N.to_nat (fst (fst (snd x)))) (xc_recs k) false &&
              existsb (N.eqb (fst x)) (nth (N.to_nat (fst (fst (snd x)))) (xc_posted k) [])))
          (xc_ocnt k).

Fixpoint spec_chain (e : fenv) (b : bals) (n : N -> N) (ts : list ctx) : bals * (N -> N) :=
  match ts with
  | [] => (b, n)
  | t :: r =>
      let s := mkSt (fun _ => None) b n (fun _ => None) 0%N [] [] (fun _ => true) (fun _ => None) in
      let t' := tx_of xcfg_fixed e t in
      spec_chain e (spec_bal e s t') (spec_nonce s t') r
  end.

Definition p_allfailed_b (k : xcase) : bool :=
  if existsb (fun x => x) (xc_recs k) then true
  else
    let '(b, n) := spec_chain (xc_env k) (bal (st_of k)) (nonce (st_of k)) (xc_txs k) in
    forallb (fun p : N * Z => b (fst p) =? snd p) (xc_obals k) &&
    forallb (fun p : N * N => (n (fst p) =? snd p)%N) (xc_ononces k).

(** 4. metamorphic form of the property on the implementation alone: running the same history
    without its FAILED transactions gives the same values of the tracked keys and the same
    results of the reads *)
Definition p_meta_b (k : xcase) : bool :=
  forallb (fun p : option N * option N => optN_eqb (fst p) (snd p)) (xc_meta k).

(** verdicts: (2, 100*p + i) predicate p false on the implementation trace (i = matching allowed
    configuration, 0 none); (0, i) fine; (1, 0) predicates hold but no allowed configuration matches *)
Definition judge_frame (k : xcase) : verdict :=
  let i := xmatch_idx (xc_cfgs k) k 1%N in
  if negb (Nat.eqb (length (xc_recs k)) (length (xc_txs k))) then V_propfalse (400 + i)%N
  else if negb (p_store_b k) then V_propfalse (100 + i)%N
  else if negb (p_counter_b k) then V_propfalse (200 + i)%N
  else if negb (p_allfailed_b k) then V_propfalse (300 + i)%N
  else if negb (p_meta_b k) then V_propfalse (500 + i)%N
  else if (i =? 0)%N then V_mismatch 0 else (0%N, i).

(** C14 judge: the conservation and non-negativity predicates of [Model/Fees.v] on the
    implementation's own balances first, then the correspondence with this model.
    [grants]: genesis balance times the number of admin approvals with a SUCCESS receipt.
    Code 300: more left the books of the block than the rounding loss of its transactions. *)
Definition judge_native (grants : Z) (k : xcase) : verdict :=
  let dom := map fst (xc_obals k) in
  let b0 := of_alist (xc_bals k) in
  let b1 := of_alist (xc_obals k) in
  let i := xmatch_idx (xc_cfgs k) k 1%N in
  if negb (conserve_b dom b0 b1 grants) then V_propfalse (100 + i)%N
  else if negb (nonneg_b dom b1) && nonneg_b dom b0 then V_propfalse (200 + i)%N
  else if negb (loss_b dom b0 b1 grants (length (admins (xc_env k))) (length (xc_txs k))) then V_propfalse (300 + i)%N
  else if (i =? 0)%N then V_mismatch 0 else (0%N, i).

(** ------------------------------------------------------------------------------------ *)
(** Ethereum transactions ([applyEthTransaction]).  The EVM is not modelled: the receipt's status
    and gas used are inputs.  What the model fixes is the accounting around them: the sender pays
    gasUsed * gasPrice to the coinbase (the first admin - not shared among the admins), its nonce
    becomes tx.nonce + 1, and only a SUCCESS moves the value.  A transaction the state transition
    rejects (before or after the gas is bought: nonce, funds for gas, intrinsic gas, funds for the
    transfer) uses no gas: FAILED with gasUsed = 0 leaves nothing but the nonce. *)
Record ethobs := { eo_from : N; eo_to : option N; eo_value : Z; eo_price : Z; eo_nonce : N;
                   eo_ok : bool; eo_gas_used : Z }.

Definition eth_apply (coinbase : N) (bn : bals * (N -> N)) (t : ethobs) : bals * (N -> N) :=
  let '(b, n) := bn in
  let fee := eo_gas_used t * eo_price t in
  let b1 := bset b (eo_from t) (b (eo_from t) - fee) in
  let b2 := bset b1 coinbase (b1 coinbase + fee) in
  let b3 := if eo_ok t
            then match eo_to t with
                 | Some r => let b' := bset b2 (eo_from t) (b2 (eo_from t) - eo_value t) in bset b' r (b' r + eo_value t)
                 | None => b2
                 end
            else b2 in
  (b3, nset n (eo_from t) (wrap64 (eo_nonce t + 1))).

Record ethcase := {
  ec_coinbase : N; ec_txs : list ethobs;
  ec_bals0 : list (N * Z); ec_nonces0 : list (N * N);
  ec_obals : list (N * Z); ec_ononces : list (N * N);
  ec_other : N          (* changed entries outside the tracked accounts (store keys, code, other accounts) *)
}.

Definition eth_block_ok (k : ethcase) : bool :=
  let '(b, n) := fold_left (eth_apply (ec_coinbase k))
                           (ec_txs k)
                           (of_alist (ec_bals0 k), fun a => match alookup N.eqb a (ec_nonces0 k) with Some v => v | None => 0%N end) in
  forallb (fun p : N * Z => b (fst p) =? snd p) (ec_obals k) &&
  forallb (fun p : N * N => (n (fst p) =? snd p)%N) (ec_ononces k) &&
  (ec_other k =? 0)%N.

(** code 600: a block with a FAILED Ethereum transaction whose balances / nonces are not the
    fee-and-nonce specification, or that changed anything else *)
Definition judge_eth (k : ethcase) : verdict :=
  if eth_block_ok k then (0%N, 1%N)
  else if existsb (fun t => negb (eo_ok t)) (ec_txs k) then V_propfalse 600
  else V_mismatch 0.
