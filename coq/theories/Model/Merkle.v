(** github.com/cbergoon/merkletree v0.2.0 as used by internal/executor/handle.go
    ([calcMerkleRoot], behind TxRoot, ReceiptRoot, TimeoutRoot).

    - a leaf's hash is the content's [CalculateHash()], which for [*types.Hash] is the 32 raw bytes
      themselves (leaves are NOT re-hashed);
    - [buildWithContent]: an odd number of leaves is padded with a copy of the last leaf;
    - [buildIntermediate]: nodes are paired left to right, parent = H(left ++ right); an unpaired
      last node of an intermediate level is paired with itself; the level of exactly two nodes
      yields the root;
    - [calcMerkleRoot] of no contents is the zero hash.
    Definitions only; [H] is a parameter (SHA-256 in the judge). *)
From BX Require Import Base.Prelude Model.JsonAcct.
Local Open Scope N_scope.

Definition zero32 : bytes := repeat 0 32.

Section Merkle.
  Variable H : bytes -> bytes.

  Fixpoint pair_up (l : list bytes) : list bytes :=
    match l with
    | a :: b :: t => H (a ++ b) :: pair_up t
    | [a] => [H (a ++ a)]
    | [] => []
    end.

  (** [l] has at least two elements; fuel = length is always enough *)
  Fixpoint build_levels (fuel : nat) (l : list bytes) : option bytes :=
    match fuel with
    | O => None
    | S k => match l with
             | [a; b] => Some (H (a ++ b))
             | _ => build_levels k (pair_up l)
             end
    end.

  Definition pad_leaves (l : list bytes) : list bytes :=
    if Nat.odd (List.length l) then l ++ [last l []] else l.

  Definition merkle_root (leaves : list bytes) : option bytes :=
    match leaves with
    | [] => Some zero32
    | _ => let l := pad_leaves leaves in build_levels (S (List.length l)) l
    end.
End Merkle.

Definition bytes_eqb : bytes -> bytes -> bool := list_eqb N.eqb.

(** Judge for the Merkle driver.  A case is a pair of leaf lists with the two observed roots
    ([None] = the implementation returned an error).
    Property predicate on the implementation's own answers, evaluated first: two different leaf
    lists must have different roots; (2,1) = equal length, different lists, same root;
    (2,2) = different lengths, same root.  Then the correspondence with [merkle_root]. *)
Definition leaves_eqb : list bytes -> list bytes -> bool := list_eqb bytes_eqb.
Definition judge_merkle (H : bytes -> bytes)
           (c : (list bytes * option bytes) * (list bytes * option bytes)) : list verdict :=
  let '((l1, o1), (l2, o2)) := c in
  let pb :=
    match o1, o2 with
    | Some r1, Some r2 =>
        if negb (leaves_eqb l1 l2) && bytes_eqb r1 r2
        then V_propfalse (if Nat.eqb (List.length l1) (List.length l2) then 1 else 2)
        else V_ok
    | _, _ => V_propfalse 3            (* the root computation must be total *)
    end in
  let corr (l : list bytes) (o : option bytes) :=
    match merkle_root H l, o with
    | Some r, Some r' => bytes_eqb r r'
    | _, _ => false
    end in
  [pb; if corr l1 o1 && corr l2 o2 then V_ok else V_mismatch 0].
