(** github.com/cbergoon/merkletree v0.2.0 as used by internal/executor/handle.go
    ([calcMerkleRoot], behind TxRoot, ReceiptRoot, TimeoutRoot).

    - a leaf's hash is the content's [CalculateHash()], which for [*types.Hash] is the 32 raw bytes
      themselves (leaves are NOT re-hashed);
    - [buildWithContent]: an odd number of leaves is padded with a copy of the last leaf;
    - [buildIntermediate]: nodes are paired left to right, parent = H(left ++ right); an unpaired
      last node of an intermediate level is paired with itself; the level of exactly two nodes
      yields the root;
    - [calcMerkleRoot] of no contents is the zero hash.
    Definitions only; [H] is a parameter (SHA-256 in the judge). *)
From BX Require Import Base.Prelude Model.JsonAcct.
Local Open Scope N_scope.

Definition zero32 : bytes := repeat 0 32.

Section Merkle.
  Variable H : bytes -> bytes.

  Fixpoint pair_up (l : list bytes) : list bytes :=
    match l with
    | a :: b :: t => H (a ++ b) :: pair_up t
    | [a] => [H (a ++ a)]
    | [] => []
    end.

  (** [l] has at least two elements; fuel = length is always enough *)
  Fixpoint build_levels (fuel : nat) (l : list bytes) : option bytes :=
    match fuel with
    | O => None
    | S k => match l with
             | [a; b] => Some (H (a ++ b))
             | _ => build_levels k (pair_up l)
             end
    end.

  Definition pad_leaves (l : list bytes) : list bytes :=
    if Nat.odd (List.length l) then l ++ [last l []] else l.

  Definition merkle_root (leaves : list bytes) : option bytes :=
    match leaves with
    | [] => Some zero32
    | _ => let l := pad_leaves leaves in build_levels (S (List.length l)) l
    end.
End Merkle.

Definition bytes_eqb : bytes -> bytes -> bool := list_eqb N.eqb.

(** correspondence judge for the Merkle driver: (leaves, observed root or None for error) *)
Definition judge_merkle (H : bytes -> bytes) (c : list bytes * option bytes) : verdict :=
  let '(leaves, obs) := c in
  match merkle_root H leaves, obs with
  | Some r, Some o => if bytes_eqb r o then V_ok else V_mismatch 0
  | None, _ => V_domain 0
  | Some _, None => V_mismatch 1
  end.
