(** C16 - governance lifecycles of appchains, services, rules and roles, and their cascades.

    Sources modelled: internal/executor/contracts/{appchain_manager,service_manager,rule_manager,
    role,governance}.go and the bitxhub-core managers.  The state machines, the pre-check maps,
    the "available" sets and the proposal priorities are NOT written here: they are
    [BXGen.Gen_ObjFsm], regenerated from the sources on every run; a status is changed only
    by [fsm_fire] on those tables.

    The operations are written in a small command language ([prog]) whose interpreter ([run])
    is the only place where state is modified; this makes the frame properties (who changes
    which status, which service records are followed by an Event_SERVICE) provable once, by
    induction on programs.  Definitions only. *)
From BX Require Import Base.Prelude Base.Fsm Model.Gate.
From BXGen Require Import Gen_ObjFsm.
From Coq Require Import String.
Local Open Scope string_scope.

(** * Tables *)
Inductive okind := KChain | KSvc | KRule | KRole | KNode.
Definition okind_eqb (a b : okind) : bool :=
  match a, b with KChain, KChain | KSvc, KSvc | KRule, KRule | KRole, KRole | KNode, KNode => true | _, _ => false end.
Definition okind_code (k : okind) : N := match k with KChain => 0 | KSvc => 1 | KRule => 2 | KRole => 3 | KNode => 4 end%N.

Definition table (k : okind) (last : string) : fsm_events :=
  match k with
  | KChain => appchain_fsm_events last | KSvc => service_fsm_events last | KRule => rule_fsm_events last
  | KRole => role_fsm_events last | KNode => node_fsm_events last
  end.
Definition pre_map (k : okind) : list (string * list string) :=
  match k with KChain => appchain_pre | KSvc => service_pre | KRule => rule_pre | KRole => role_pre | KNode => node_pre end.
Definition avail_set (k : okind) : list string :=
  match k with KChain => appchain_available | KSvc => service_available | KRule => rule_available | KRole => role_available | KNode => node_available end.

(** GovernancePre: the event may be requested from this status *)
Definition pre_ok (k : okind) (ev st : string) : bool :=
  match alookup String.eqb ev (pre_map k) with Some l => mem_s st l | None => false end.

(** ChangeStatus *)
Definition fire (k : okind) (last cur ev : string) : option string := fsm_fire (table k last) cur ev.

Definition prio (ev : string) : N := match alookup String.eqb ev gov_priority with Some n => n | None => 0%N end.

(** * State *)
Record rule := { ru_id : N; ru_status : string; ru_master : bool; ru_default : bool }.

Record prop := {
  p_kind : okind; p_obj : N; p_chain : N;            (* object: chain id / service id / rule id (+ its chain) / role id *)
  p_event : string; p_last : string;
  p_status : N;                                       (* 0 proposed, 1 paused, 2 approved, 3 rejected *)
  p_lock : option N;                                  (* lower-priority proposal paused by this one *)
  p_black : list N;                                   (* service update: the new blacklist *)
  p_old : N; p_oldst : string; p_chainst : string }.  (* master-rule update: old master, its status, the appchain's status *)

Definition PS_PROPOSED := 0%N.
Definition PS_PAUSED := 1%N.
Definition PS_APPROVED := 2%N.
Definition PS_REJECTED := 3%N.

(** one status change, with what caused it *)
Record lentry := { l_kind : okind; l_id : N; l_chain : N; l_from : string; l_ev : string; l_last : string; l_to : string; l_cause : N }.
Definition CAUSE_OP := 0%N.        (* the governance operation submitted on this object *)
Definition CAUSE_CONCL := 1%N.     (* approval / rejection / restoration of a proposal about this object *)
Definition CAUSE_CASCADE := 2%N.   (* cascade of the owning appchain (its operation, its proposal, or one of its rules') *)

Record state := {
  chains : list (N * string);          (* appchain id -> status *)
  occ : list N;                        (* occupied appchain ids *)
  svcs : smap;                         (* service id -> record (service manager contract) *)
  regl : list (N * list N);            (* appchain -> its registered services, in registration order *)
  rules : list (N * list rule);        (* appchain -> its rules, in registration order *)
  roles : list (N * string);           (* governance admin (normal weight) -> status *)
  props : list prop;                   (* proposals in creation order *)
  cache : smap;                        (* the executor's service cache *)
  evs : list (N * svc);                (* Event_SERVICE events posted by the running transaction *)
  slog : list lentry }.                (* status changes made by the running transaction *)

Definition st0 : state := {| chains := []; occ := []; svcs := []; regl := []; rules := []; roles := []; props := []; cache := []; evs := []; slog := [] |}.

Definition upd_chains f s := {| chains := f (chains s); occ := occ s; svcs := svcs s; regl := regl s; rules := rules s; roles := roles s; props := props s; cache := cache s; evs := evs s; slog := slog s |}.
Definition upd_occ f s := {| chains := chains s; occ := f (occ s); svcs := svcs s; regl := regl s; rules := rules s; roles := roles s; props := props s; cache := cache s; evs := evs s; slog := slog s |}.
Definition upd_svcs f s := {| chains := chains s; occ := occ s; svcs := f (svcs s); regl := regl s; rules := rules s; roles := roles s; props := props s; cache := cache s; evs := evs s; slog := slog s |}.
Definition upd_regl f s := {| chains := chains s; occ := occ s; svcs := svcs s; regl := f (regl s); rules := rules s; roles := roles s; props := props s; cache := cache s; evs := evs s; slog := slog s |}.
Definition upd_rules f s := {| chains := chains s; occ := occ s; svcs := svcs s; regl := regl s; rules := f (rules s); roles := roles s; props := props s; cache := cache s; evs := evs s; slog := slog s |}.
Definition upd_roles f s := {| chains := chains s; occ := occ s; svcs := svcs s; regl := regl s; rules := rules s; roles := f (roles s); props := props s; cache := cache s; evs := evs s; slog := slog s |}.
Definition upd_props f s := {| chains := chains s; occ := occ s; svcs := svcs s; regl := regl s; rules := rules s; roles := roles s; props := f (props s); cache := cache s; evs := evs s; slog := slog s |}.
Definition set_cache c s := {| chains := chains s; occ := occ s; svcs := svcs s; regl := regl s; rules := rules s; roles := roles s; props := props s; cache := c; evs := evs s; slog := slog s |}.
Definition upd_evs f s := {| chains := chains s; occ := occ s; svcs := svcs s; regl := regl s; rules := rules s; roles := roles s; props := props s; cache := cache s; evs := f (evs s); slog := slog s |}.
Definition add_log e s := {| chains := chains s; occ := occ s; svcs := svcs s; regl := regl s; rules := rules s; roles := roles s; props := props s; cache := cache s; evs := evs s; slog := (slog s ++ [e])%list |}.
Definition clear_tx s := {| chains := chains s; occ := occ s; svcs := svcs s; regl := regl s; rules := rules s; roles := roles s; props := props s; cache := cache s; evs := []; slog := [] |}.

Definition nget {V} (k : N) (m : list (N * V)) : option V := alookup N.eqb k m.
Definition nset {V} (k : N) (v : V) (m : list (N * V)) : list (N * V) := aset N.eqb k v m.
Definition reg_of (c : N) (s : state) : list N := match nget c (regl s) with Some l => l | None => [] end.
Definition rules_of (c : N) (s : state) : list rule := match nget c (rules s) with Some l => l | None => [] end.

(** * Programs *)
Inductive prog :=
| Ret | Fail
| RdChain (c : N) (k : option string -> prog)
| RdSvc (i : N) (k : option svc -> prog)
| RdReg (c : N) (k : list N -> prog)
| RdRules (c : N) (k : list rule -> prog)
| RdRole (r : N) (k : option string -> prog)
| RdProps (k : list prop -> prog)
| RdOcc (k : list N -> prog)
| FireChain (c : N) (ev last : string) (cause : N) (k : prog)
| FireRole (r : N) (ev last : string) (cause : N) (k : prog)
| FireRule (c r : N) (ev last : string) (cause : N) (k : prog)
| NewChain (c : N) (k : prog)                  (* manageRegisterApprove: appchain record, status available *)
| NewRules (c : N) (k : prog)                  (* RegisterRuleFirst: the default rules, the happy rule bound as master *)
| AddRule (c r : N) (k : prog)                 (* RegisterRule: a custom rule, bindable *)
| NewRole (r : N) (k : prog)                   (* registerPre: role record, status unavailable *)
| SetOcc (f : list N -> list N) (k : prog)
| Gov (f : list prop -> list prop) (k : prog)
| Scope (i : N) (body : prog) (k : prog)       (* operations on service i, then postServiceEvent(i) *)
| SFire (ev last : string) (cause : N) (k : prog)   (* on the service of the enclosing scope *)
| SNew (r : svc) (k : prog)                    (* RegisterPre *)
| SBlack (b : list N) (k : prog)               (* Update: new blacklist *)
| SReg (k : prog).                             (* Register: enter the appchain's service list *)

(** the rule-manager callback that runs on every transition (code, not table) *)
Definition rule_after (ev : string) (r : rule) (st' : string) : rule :=
  let master := if String.eqb ev Ev_Approve then String.eqb st' St_Available
                else if String.eqb ev Ev_Bind then true else ru_master r in
  let st'' := if String.eqb ev Ev_CLear && ru_default r then St_Bindable else st' in
  {| ru_id := ru_id r; ru_status := st''; ru_master := master; ru_default := ru_default r |}.

Definition default_rules : list rule :=
  [ {| ru_id := 0; ru_status := St_Bindable; ru_master := false; ru_default := true |};    (* happy rule *)
    {| ru_id := 1; ru_status := St_Bindable; ru_master := false; ru_default := true |};    (* fabric rule *)
    {| ru_id := 2; ru_status := St_Bindable; ru_master := false; ru_default := true |} ]%N. (* simulated fabric rule *)

Fixpoint map_rule (r : N) (f : rule -> option rule) (l : list rule) : option (list rule) :=
  match l with
  | [] => Some []
  | x :: t =>
      match map_rule r f t with
      | None => None
      | Some t' => if (ru_id x =? r)%N then match f x with Some x' => Some (x' :: t') | None => None end else Some (x :: t')
      end
  end.

Definition post (i : N) (s : state) : bool * state :=
  match sget i (svcs s) with
  | Some r => (true, upd_evs (fun e => (e ++ [(i, r)])%list) s)
  | None => (false, s)
  end.

Definition mk_log k i c a ev last b cause : lentry :=
  {| l_kind := k; l_id := i; l_chain := c; l_from := a; l_ev := ev; l_last := last; l_to := b; l_cause := cause |}.

Fixpoint run (p : prog) (cur : option N) (s : state) : bool * state :=
  match p with
  | Ret => (true, s)
  | Fail => (false, s)
  | RdChain c k => run (k (nget c (chains s))) cur s
  | RdSvc i k => run (k (sget i (svcs s))) cur s
  | RdReg c k => run (k (reg_of c s)) cur s
  | RdRules c k => run (k (rules_of c s)) cur s
  | RdRole r k => run (k (nget r (roles s))) cur s
  | RdProps k => run (k (props s)) cur s
  | RdOcc k => run (k (occ s)) cur s
  | FireChain c ev last cause k =>
      match nget c (chains s) with
      | Some a => match fire KChain last a ev with
                  | Some b => run k cur (add_log (mk_log KChain c c a ev last b cause) (upd_chains (nset c b) s))
                  | None => (false, s)
                  end
      | None => (false, s)
      end
  | FireRole r ev last cause k =>
      match nget r (roles s) with
      | Some a => match fire KRole last a ev with
                  | Some b => run k cur (add_log (mk_log KRole r 0 a ev last b cause) (upd_roles (nset r b) s))
                  | None => (false, s)
                  end
      | None => (false, s)
      end
  | FireRule c r ev last cause k =>
      match nget c (rules s) with
      | None => (false, s)
      | Some l =>
          if negb (existsb (fun x => (ru_id x =? r)%N) l) then (false, s)
          else match map_rule r (fun x => match fire KRule last (ru_status x) ev with
                                          | Some b => Some (rule_after ev x b)
                                          | None => None
                                          end) l with
               | Some l' =>
                   let a := match find (fun x => (ru_id x =? r)%N) l with Some x => ru_status x | None => "" end in
                   let b := match find (fun x => (ru_id x =? r)%N) l' with Some x => ru_status x | None => "" end in
                   run k cur (add_log (mk_log KRule r c a ev last b cause) (upd_rules (nset c l') s))
               | None => (false, s)
               end
      end
  | NewChain c k =>
      match nget c (chains s) with
      | Some _ => (false, s)
      | None => run k cur (add_log (mk_log KChain c c "" Ev_Register "" St_Available CAUSE_CONCL) (upd_chains (nset c St_Available) s))
      end
  | NewRules c k => run k cur (upd_rules (nset c default_rules) s)
  | AddRule c r k =>
      run k cur (upd_rules (nset c (rules_of c s ++ [{| ru_id := r; ru_status := St_Bindable; ru_master := false; ru_default := false |}])%list) s)
  | NewRole r k =>
      match nget r (roles s) with
      | Some a => if String.eqb a St_Unavailable then run k cur s else (false, s)
      | None => run k cur (add_log (mk_log KRole r 0 "" "" "" St_Unavailable CAUSE_OP) (upd_roles (nset r St_Unavailable) s))
      end
  | SetOcc f k => run k cur (upd_occ f s)
  | Gov f k => run k cur (upd_props f s)
  | Scope i body k =>
      (* scopes nest only on the same service (unPauseService -> Manage of the restored proposal) *)
      if match cur with Some j => negb (j =? i)%N | None => false end then (false, s)
      else
        let '(ok, s1) := run body (Some i) s in
        if ok then let '(ok2, s2) := post i s1 in if ok2 then run k cur s2 else (false, s2)
        else (false, s1)
  | SFire ev last cause k =>
      match cur with
      | None => (false, s)
      | Some i =>
          match sget i (svcs s) with
          | None => (false, s)
          | Some r =>
              match fire KSvc last (sv_status r) ev with
              | Some b =>
                  let r' := {| sv_chain := sv_chain r; sv_status := b; sv_black := sv_black r; sv_reg := sv_reg r |} in
                  run k cur (add_log (mk_log KSvc i (sv_chain r) (sv_status r) ev last b cause) (upd_svcs (sset i r') s))
              | None => (false, s)
              end
          end
      end
  | SNew r k =>
      match cur with
      | None => (false, s)
      | Some i =>
          (* RegisterPre is reached only when the service is absent or unavailable (GovernancePre register) *)
          let old := match sget i (svcs s) with Some o => sv_status o | None => St_Unavailable end in
          if negb (String.eqb old St_Unavailable) then (false, s)
          else
            (* PackageServiceInfo(..., GovernanceRegisting): the record is written with the destination of the
               declared edge register: unavailable -> registering *)
            let r' := {| sv_chain := sv_chain r; sv_status := St_Registing; sv_black := sv_black r; sv_reg := false |} in
            run k cur (add_log (mk_log KSvc i (sv_chain r) old Ev_Register St_Unavailable St_Registing CAUSE_OP) (upd_svcs (sset i r') s))
      end
  | SBlack b k =>
      match cur with
      | None => (false, s)
      | Some i =>
          match sget i (svcs s) with
          | None => (false, s)
          | Some r => run k cur (upd_svcs (sset i {| sv_chain := sv_chain r; sv_status := sv_status r; sv_black := b; sv_reg := sv_reg r |}) s)
          end
      end
  | SReg k =>
      match cur with
      | None => (false, s)
      | Some i =>
          match sget i (svcs s) with
          | None => (false, s)
          | Some r =>
              let s1 := upd_svcs (sset i {| sv_chain := sv_chain r; sv_status := sv_status r; sv_black := sv_black r; sv_reg := true |}) s in
              let l := reg_of (sv_chain r) s in
              run k cur (if memN i l then s1 else upd_regl (nset (sv_chain r) (l ++ [i])%list) s1)
          end
      end
  end.

(** * Proposals (governance.go) *)
Definition same_obj (k : okind) (o c : N) (p : prop) : bool := okind_eqb (p_kind p) k && (p_obj p =? o)%N && (p_chain p =? c)%N.

Definition set_pstatus (st : N) (p : prop) : prop :=
  {| p_kind := p_kind p; p_obj := p_obj p; p_chain := p_chain p; p_event := p_event p; p_last := p_last p; p_status := st;
     p_lock := p_lock p; p_black := p_black p; p_old := p_old p; p_oldst := p_oldst p; p_chainst := p_chainst p |}.

Fixpoint upd_nth {A} (n : nat) (f : A -> A) (l : list A) : list A :=
  match l, n with
  | [], _ => []
  | x :: t, O => f x :: t
  | x :: t, S m => x :: upd_nth m f t
  end.

(** lockLowPriorityProposal: the first proposed proposal of the object with a lower priority is paused *)
Fixpoint find_lower (k : okind) (o c : N) (ev : string) (ps : list prop) (i : nat) : option nat :=
  match ps with
  | [] => None
  | p :: t => if same_obj k o c p && (p_status p =? PS_PROPOSED)%N && (prio (p_event p) <? prio ev)%N then Some i
              else find_lower k o c ev t (S i)
  end.

Definition lock_low (k : okind) (o c : N) (ev : string) (ps : list prop) : list prop * option N :=
  match find_lower k o c ev ps 0 with
  | Some i => (upd_nth i (set_pstatus PS_PAUSED) ps, Some (N.of_nat i))
  | None => (ps, None)
  end.

(** getHightestPriorityPausedProposalByObjId *)
Fixpoint best_paused (k : okind) (o c : N) (ps : list prop) (i : nat) (best : option (nat * prop)) : option (nat * prop) :=
  match ps with
  | [] => best
  | p :: t =>
      let best' := if same_obj k o c p && (p_status p =? PS_PAUSED)%N then
                     match best with
                     | None => Some (i, p)
                     | Some (_, b) => if (prio (p_event b) <? prio (p_event p))%N then Some (i, p) else best
                     end
                   else best in
      best_paused k o c t (S i) best'
  end.

(** EndObjProposal: every proposed or paused proposal of the object is rejected (no Manage) *)
Definition end_obj (k : okind) (o c : N) (ps : list prop) : list prop :=
  map (fun p => if same_obj k o c p && ((p_status p =? PS_PROPOSED)%N || (p_status p =? PS_PAUSED)%N) then set_pstatus PS_REJECTED p else p) ps.

Definition mk_prop k o c ev last lock black old oldst chainst : prop :=
  {| p_kind := k; p_obj := o; p_chain := c; p_event := ev; p_last := last; p_status := PS_PROPOSED; p_lock := lock;
     p_black := black; p_old := old; p_oldst := oldst; p_chainst := chainst |}.

(** SubmitProposal *)
Definition submit (k : okind) (o c : N) (ev last : string) (black : list N) (old : N) (oldst chainst : string) (cont : prog) : prog :=
  RdProps (fun ps =>
    let '(ps', lk) := lock_low k o c ev ps in
    Gov (fun _ => (ps' ++ [mk_prop k o c ev last lk black old oldst chainst])%list) cont).

(** * Defect flags *)
Record cfg := {
  d_cache_failed_events : bool;     (* Event_SERVICE events of failed (reverted) transactions still update the executor cache *)
  d_cache_not_reloaded : bool;      (* the cache is not rebuilt from the ledger at start *)
  d_logout_reject_unpauses : bool;  (* AppchainManager.Manage: a rejected logout unpauses the services whatever status the appchain returns to *)
  d_manage_reject_only : bool;      (* ServiceManager.Manage runs its not-approved follow-up only when the result string is "reject"
                                       (not the case in the code as it is) *)
  d_withdraw_paused : bool;         (* Governance.WithdrawProposal accepts a PAUSED proposal (locked by a higher-priority proposal of the
                                       same object, or paused with its object) and rejects it against whatever status the object has *)
  d_unpause_restores_locked : bool; (* UnPauseChainService restores a paused proposal of EVERY registered service, paused or not: a proposal
                                       locked by a pending logout is restored and re-triggered from status logouting *)
  d_cache_key : N -> N;             (* the key under which the executor cache holds the record of a service id: the identity in the
                                       code as it is (exact "chain:service" string) *)
  d_cache_deferred : bool           (* the executor cache takes the records posted by a transaction only at the end of the block
                                       (not the case in the code as it is: applyTx stores them right after the transaction) *)
}.
Definition cfg_fixed : cfg := {| d_cache_failed_events := false; d_cache_not_reloaded := false; d_logout_reject_unpauses := false; d_manage_reject_only := false; d_withdraw_paused := false; d_unpause_restores_locked := false; d_cache_key := fun i => i; d_cache_deferred := false |}.
Definition cfg_faithful : cfg := {| d_cache_failed_events := true; d_cache_not_reloaded := true; d_logout_reject_unpauses := true; d_manage_reject_only := false; d_withdraw_paused := true; d_unpause_restores_locked := true; d_cache_key := fun i => i; d_cache_deferred := false |}.

(** * Service manager *)
Definition lock_svc (i : N) (ev : string) (k : prog) : prog := Gov (fun ps => fst (lock_low KSvc i 0 ev ps)) k.

(** pauseService *)
Definition pause_service (i : N) (cause : N) (k : prog) : prog :=
  RdSvc i (fun r =>
    let k' := lock_svc i Ev_Pause k in
    match r with
    | Some x => if pre_ok KSvc Ev_Pause (sv_status x) then SFire Ev_Pause "" cause k' else k'
    | None => k'
    end).

(** clearService *)
Definition clear_service (i : N) (cause : N) (k : prog) : prog :=
  RdSvc i (fun r =>
    let k' := Gov (end_obj KSvc i 0) k in
    match r with
    | Some x => if pre_ok KSvc Ev_CLear (sv_status x) then SFire Ev_CLear "" cause k' else k'
    | None => k'
    end).

(** ServiceManager.Manage, inside Scope i *)
Definition svc_manage (ro : bool) (ev trigger last : string) (i : N) (black : list N) (cause : N) (k : prog) : prog :=
  SFire trigger last cause
    (if String.eqb trigger Ev_Approve then
       if String.eqb ev Ev_Register then
         SReg (RdSvc i (fun r => match r with
                                 | None => Fail
                                 | Some x => RdChain (sv_chain x) (fun c => match c with
                                                                            | None => Fail
                                                                            | Some cs => if chain_avail cs then k else pause_service i CAUSE_CASCADE k
                                                                            end)
                                 end))
       else if String.eqb ev Ev_Update then SBlack black k
       else if String.eqb ev Ev_Logout then clear_service i cause k
       else k
     else
       (* governance does not always say "reject" here: when the rejected (or withdrawn) proposal had locked a
          lower-priority one it passes the RESTORED proposal's event name; the follow-up below runs for every
          result but "approve".  [ro]: it runs for "reject" only (not the case in the code as it is) *)
       if ro && negb (String.eqb trigger Ev_Reject) then k
       else if String.eqb ev Ev_Logout then
         RdSvc i (fun r => match r with
                           | None => Fail
                           | Some x => RdChain (sv_chain x) (fun c => match c with
                                                                      | None => Fail
                                                                      | Some cs => if chain_avail cs then k else pause_service i CAUSE_CASCADE k
                                                                      end)
                           end)
       else k).

(** unPauseService: restore the highest-priority paused proposal and re-trigger its event.
    [rl] (the code as it is): also for a service that is NOT paused - its paused proposal is then one that a
    higher-priority proposal (a pending logout) has LOCKED, and it is restored and re-triggered from whatever status
    the service has *)
Definition unpause_service (rl : bool) (i : N) (k : prog) : prog :=
  RdSvc i (fun r =>
    let k' := RdProps (fun ps =>
                match best_paused KSvc i 0 ps 0 None with
                | None => k
                | Some (n, lp) =>
                    Gov (upd_nth n (set_pstatus PS_PROPOSED))
                        (Scope i (svc_manage false Ev_Unpause (p_event lp) "" i [] CAUSE_CASCADE Ret) k)
                end) in
    match r with
    | Some x => if pre_ok KSvc Ev_Unpause (sv_status x) then SFire Ev_Unpause "" CAUSE_CASCADE k' else if rl then k' else k
    | None => k'
    end).

Fixpoint each_service (ids : list N) (f : N -> prog -> prog) (k : prog) : prog :=
  match ids with
  | [] => k
  | i :: t => Scope i (f i Ret) (each_service t f k)
  end.

Definition pause_chain_services (c : N) (k : prog) : prog := RdReg c (fun ids => each_service ids (fun i => pause_service i CAUSE_CASCADE) k).
Definition clear_chain_services (c : N) (k : prog) : prog := RdReg c (fun ids => each_service ids (fun i => clear_service i CAUSE_CASCADE) k).
Definition unpause_chain_services (rl : bool) (c : N) (k : prog) : prog := RdReg c (fun ids => each_service ids (unpause_service rl) k).

(** a blacklist entry must name an existing service that is not logged out (checkPermissionService) *)
Fixpoint black_ok (b : list N) (k : prog) : prog :=
  match b with
  | [] => k
  | i :: t => RdSvc i (fun r => match r with
                                | Some x => if String.eqb (sv_status x) St_Forbidden then Fail else black_ok t k
                                | None => Fail
                                end)
  end.

Definition register_service (c i : N) (black : list N) : prog :=
  RdSvc i (fun r =>
    if match r with Some x => negb (pre_ok KSvc Ev_Register (sv_status x)) | None => false end then Fail
    else RdChain c (fun cs =>
      match cs with
      | None => Fail
      | Some st => if negb (chain_avail st) then Fail
                   else black_ok black
                          (submit KSvc i 0 Ev_Register St_Unavailable [] 0 "" ""
                             (Scope i (SNew {| sv_chain := c; sv_status := St_Registing; sv_black := black; sv_reg := false |} Ret) Ret))
      end)).

(** FreezeService / ActivateService / LogoutService and UpdateService with a change that needs a proposal *)
Definition service_op (ev : string) (i : N) (black : list N) : prog :=
  RdSvc i (fun r =>
    match r with
    | None => Fail
    | Some x =>
        if negb (pre_ok KSvc ev (sv_status x)) then Fail
        else (if String.eqb ev Ev_Update then black_ok black else fun k => k)
               (submit KSvc i 0 ev (sv_status x) black 0 "" "" (Scope i (SFire ev (sv_status x) CAUSE_OP Ret) Ret))
    end).

(** UpdateService when only the permission list / introduction changes: no proposal *)
Definition service_set_black (i : N) (black : list N) : prog :=
  RdSvc i (fun r =>
    match r with
    | None => Fail
    | Some x => if negb (pre_ok KSvc Ev_Update (sv_status x)) then Fail else black_ok black (Scope i (SBlack black Ret) Ret)
    end).

(** * Appchain manager *)
Definition master_of (l : list rule) : option rule := find ru_master l.

Definition register_chain (c : N) : prog :=
  RdOcc (fun o => if memN c o then Fail else SetOcc (cons c) (submit KChain c 0 Ev_Register "" [] 0 "" "" Ret)).

Definition need_master_available (c : N) (k : prog) : prog :=
  RdRules c (fun l => match master_of l with
                      | Some m => if String.eqb (ru_status m) St_Available then k else Fail
                      | None => Fail
                      end).

Definition chain_op (ev : string) (c : N) : prog :=
  let body :=
    RdChain c (fun cs =>
      match cs with
      | None => Fail
      | Some st =>
          if negb (pre_ok KChain ev st) then Fail
          else
            let go := submit KChain c 0 ev st [] 0 "" ""
                        (FireChain c ev st CAUSE_OP
                           (if String.eqb ev Ev_Logout || String.eqb ev Ev_Update then pause_chain_services c Ret else Ret)) in
            if String.eqb ev Ev_Update then need_master_available c go else go
      end) in
  if String.eqb ev Ev_Activate then need_master_available c body else body.

Definition chain_manage (f : cfg) (ev trigger last : string) (c : N) (k : prog) : prog :=
  let after :=
    if String.eqb trigger Ev_Approve then
      if String.eqb ev Ev_Register then NewChain c (NewRules c (FireRule c 0 Ev_Bind St_Bindable CAUSE_CONCL k))
      else if String.eqb ev Ev_Update then unpause_chain_services (d_unpause_restores_locked f) c k
      else if String.eqb ev Ev_Freeze then pause_chain_services c k
      else if String.eqb ev Ev_Activate then unpause_chain_services (d_unpause_restores_locked f) c k
      else if String.eqb ev Ev_Logout then
        clear_chain_services c
          (RdRules c (fun l =>
             (fix clr (rs : list rule) : prog :=
                match rs with
                | [] => (* EndObjProposal of the rule that was binding *)
                        match find (fun x => String.eqb (ru_status x) St_Binding) l with
                        | Some b => Gov (end_obj KRule (ru_id b) c) k
                        | None => k
                        end
                | x :: t => FireRule c (ru_id x) Ev_CLear (ru_status x) CAUSE_CASCADE (clr t)
                end) l))
      else k
    else
      if String.eqb ev Ev_Register then SetOcc (filter (fun x => negb (x =? c)%N)) k
      else if String.eqb ev Ev_Logout then
        (if d_logout_reject_unpauses f then unpause_chain_services (d_unpause_restores_locked f) c k
         else RdChain c (fun cs => match cs with
                                   | Some st => if chain_avail st then unpause_chain_services (d_unpause_restores_locked f) c k else k
                                   | None => Fail
                                   end))
      else k in
  if String.eqb ev Ev_Register then after else FireChain c trigger last CAUSE_CONCL after.

(** * Rule manager *)
Definition rule_register (c r : N) : prog :=
  RdChain c (fun cs =>
    match cs with
    | None => Fail
    | Some st => if String.eqb st St_Forbidden then Fail
                 else RdRules c (fun l => if existsb (fun x => (ru_id x =? r)%N) l then Fail
                                          else if (r <? 3)%N then Fail        (* default rules cannot be registered *)
                                          else AddRule c r Ret)
    end).

Definition rule_logout (c r : N) : prog :=
  RdChain c (fun cs =>
    match cs with
    | None => Fail
    | Some st => if String.eqb st St_Forbidden then Fail
                 else RdRules c (fun l => match find (fun x => (ru_id x =? r)%N) l with
                                          | None => Fail
                                          | Some x => if negb (pre_ok KRule Ev_Logout (ru_status x)) then Fail
                                                      else if ru_default x then Fail
                                                      else FireRule c r Ev_Logout (ru_status x) CAUSE_OP Ret
                                          end)
    end).

(** UpdateMasterRule *)
Definition rule_update (c r : N) : prog :=
  RdChain c (fun cs =>
    match cs with
    | None => Fail
    | Some st =>
        if negb (String.eqb st St_Available || String.eqb st St_Frozen) then Fail
        else RdRules c (fun l =>
          match find (fun x => (ru_id x =? r)%N) l with
          | None => Fail
          | Some x =>
              if negb (pre_ok KRule Ev_Update (ru_status x)) then Fail
              else if existsb (fun y => ru_master y && negb (String.eqb (ru_status y) St_Available)) l then Fail
              else
                (* PauseAppchain *)
                let paused (k : prog) := if String.eqb st St_Available
                                         then FireChain c Ev_Pause st CAUSE_CASCADE (pause_chain_services c k) else k in
                paused (match master_of l with
                        | None => Fail
                        | Some m =>
                            submit KRule r c Ev_Update (ru_status x) [] (ru_id m) (ru_status m) st
                              (FireRule c r Ev_Update (ru_status x) CAUSE_OP (FireRule c (ru_id m) Ev_Unbind (ru_status m) CAUSE_OP Ret))
                        end)
          end)
    end).

Definition rule_manage (f : cfg) (ev trigger last : string) (c r old : N) (oldst chainst : string) (k : prog) : prog :=
  if String.eqb ev Ev_Update then
    FireRule c old trigger oldst CAUSE_CONCL
      (FireRule c r trigger last CAUSE_CONCL
         (if String.eqb trigger Ev_Approve then
            (* UnPauseAppchain *)
            RdChain c (fun cs =>
              match cs with
              | None => Fail
              | Some st => if negb (pre_ok KChain Ev_Unpause st) then Fail
                           else if String.eqb chainst St_Frozen then k
                           else FireChain c Ev_Unpause chainst CAUSE_CASCADE
                                  (if String.eqb chainst St_Available then unpause_chain_services (d_unpause_restores_locked f) c k else k)
              end)
          else k))
  else k.

(** * Role manager (governance admins of normal weight) *)
Definition role_register (r : N) : prog :=
  RdRole r (fun x =>
    if match x with Some st => negb (pre_ok KRole Ev_Register st) | None => false end then Fail
    else NewRole r (submit KRole r 0 Ev_Register St_Unavailable [] 0 "" "" (FireRole r Ev_Register St_Unavailable CAUSE_OP Ret))).

Definition role_op (ev : string) (r : N) : prog :=
  RdRole r (fun x =>
    match x with
    | None => Fail
    | Some st => if negb (pre_ok KRole ev st) then Fail
                 else submit KRole r 0 ev st [] 0 "" "" (FireRole r ev st CAUSE_OP Ret)
    end).

Definition role_manage (ev trigger last : string) (r : N) (k : prog) : prog :=
  if String.eqb ev Ev_Unpause then k else FireRole r trigger last CAUSE_CONCL k.

(** * Governance: conclusion of a proposal (Vote reaching a decision, WithdrawProposal) *)
Definition manage (f : cfg) (p : prop) (trigger : string) (k : prog) : prog :=
  match p_kind p with
  | KChain => chain_manage f (p_event p) trigger (p_last p) (p_obj p) k
  | KSvc => Scope (p_obj p) (svc_manage (d_manage_reject_only f) (p_event p) trigger (p_last p) (p_obj p) (p_black p) CAUSE_CONCL Ret) k
  | KRule => rule_manage f (p_event p) trigger (p_last p) (p_chain p) (p_obj p) (p_old p) (p_oldst p) (p_chainst p) k
  | KRole => role_manage (p_event p) trigger (p_last p) (p_obj p) k
  | KNode => Fail
  end.

(** [withdraw]: a paused proposal can be withdrawn, but not voted on *)
Definition conclude (f : cfg) (pid : N) (approve withdraw : bool) : prog :=
  RdProps (fun ps =>
    match nth_error ps (N.to_nat pid) with
    | None => Fail
    | Some p =>
        if negb ((p_status p =? PS_PROPOSED)%N || (withdraw && d_withdraw_paused f && (p_status p =? PS_PAUSED)%N)) then Fail
        else
          Gov (upd_nth (N.to_nat pid) (set_pstatus (if approve then PS_APPROVED else PS_REJECTED)))
            (match p_lock p with
             | None => manage f p (if approve then Ev_Approve else Ev_Reject) Ret
             | Some l =>
                 match nth_error ps (N.to_nat l) with
                 | None => Fail
                 | Some lp =>
                     if approve then Gov (upd_nth (N.to_nat l) (set_pstatus PS_REJECTED)) (manage f p Ev_Approve Ret)
                     else Gov (upd_nth (N.to_nat l) (set_pstatus PS_PROPOSED)) (manage f p (p_event lp) Ret)
                 end
             end)
    end).

(** the k-th newest proposal that is still proposed (or, for a withdrawal, proposed or paused) *)
Fixpoint open_ids (paused_too : bool) (ps : list prop) (i : nat) : list N :=
  match ps with
  | [] => []
  | p :: t => let rest := open_ids paused_too t (S i) in
              if (p_status p =? PS_PROPOSED)%N || (paused_too && (p_status p =? PS_PAUSED)%N) then (rest ++ [N.of_nat i])%list else rest
  end.
Definition nth_open (paused_too : bool) (k : N) (ps : list prop) : option N := nth_error (open_ids paused_too ps 0) (N.to_nat k).

(** * Operations of a history *)
Inductive op :=
| ORegChain (c : N)
| OChainOp (ev : N) (c : N)           (* 0 update, 1 freeze, 2 activate, 3 logout *)
| ORegSvc (c i : N) (black : list N)
| OSvcOp (ev : N) (i : N) (black : list N)   (* 0 update (with proposal), 1 freeze, 2 activate, 3 logout *)
| OSvcBlack (i : N) (black : list N)
| ORuleReg (c r : N) | ORuleLogout (c r : N) | ORuleUpdate (c r : N)
| ORoleReg (r : N) | ORoleOp (ev : N) (r : N)        (* 1 freeze, 2 activate, 3 logout *)
| OConclude (k : N) (approve : bool)   (* the k-th newest proposal that is still proposed *)
| OWithdraw (k : N)                    (* the k-th newest proposal that is proposed or paused *)
| OIbtp (src dst : N)
| ORoleVote (r k : N) (approve : bool)  (* the account of role r, while its live role record does not say "available governance
                                            admin", casts a ballot on the k-th newest open proposal: refused *)
| ORestart.

Definition ev_of (n : N) : string :=
  match n with 0%N => Ev_Update | 1%N => Ev_Freeze | 2%N => Ev_Activate | _ => Ev_Logout end.

Definition prog_of (f : cfg) (o : op) : prog :=
  match o with
  | ORegChain c => register_chain c
  | OChainOp ev c => chain_op (ev_of ev) c
  | ORegSvc c i b => register_service c i b
  | OSvcOp ev i b => service_op (ev_of ev) i b
  | OSvcBlack i b => service_set_black i b
  | ORuleReg c r => rule_register c r
  | ORuleLogout c r => rule_logout c r
  | ORuleUpdate c r => rule_update c r
  | ORoleReg r => role_register r
  | ORoleOp ev r => role_op (ev_of ev) r
  | OConclude k a => RdProps (fun ps => match nth_open false k ps with Some pid => conclude f pid a false | None => Fail end)
  | OWithdraw k => RdProps (fun ps => match nth_open true k ps with Some pid => conclude f pid false true | None => Fail end)
  | ORoleVote _ _ _ => Fail
  | OIbtp _ _ | ORestart => Ret
  end.

(** the proof stage of an interchain request (pkg/proof): the source appchain must be known and
    have a rule whose status is exactly available, and that rule must accept the proof; the
    histories carry proofs only the always-accepting happy rule (id 0) accepts *)
Definition chain_of_sid (i : N) : N := (i / 10)%N.      (* service ids are chain * 10 + k *)
Definition proof_ok (s : state) (src : N) : bool :=
  match nget (chain_of_sid src) (chains s) with
  | None => false
  | Some _ => match find (fun x => String.eqb (ru_status x) St_Available) (rules_of (chain_of_sid src) s) with
              | Some x => (ru_id x =? 0)%N
              | None => false
              end
  end.

Definition ibtp_outcome (f : cfg) (s : state) (src dst : N) : outcome :=
  if negb (proof_ok s src) then OProof else gate (view (d_cache_key f) (cache s) (svcs s)) src dst.

(** one step: the transaction is atomic on the ledger; the executor cache is fed from the posted events *)
Record result := { r_ok : bool; r_out : N (* outcome code of an interchain request, else 9 *); r_log : list lentry; r_state : state }.

Definition step (f : cfg) (s : state) (o : op) : result :=
  match o with
  | OIbtp src dst => {| r_ok := true; r_out := outcome_code (ibtp_outcome f s src dst); r_log := []; r_state := s |}
  | ORestart => {| r_ok := true; r_out := 9; r_log := [];
                   r_state := set_cache (if d_cache_not_reloaded f then [] else rekey (d_cache_key f) (svcs s)) s |}
  | _ =>
      let '(ok, w) := run (prog_of f o) None s in
      if ok then {| r_ok := true; r_out := 9; r_log := slog w; r_state := clear_tx (set_cache (apply_events (d_cache_key f) (evs w) (cache w)) w) |}
      else {| r_ok := false; r_out := 9; r_log := [];
              r_state := if d_cache_failed_events f then set_cache (apply_events (d_cache_key f) (evs w) (cache s)) s else s |}
  end.

Fixpoint run_ops (f : cfg) (s : state) (h : list op) : state :=
  match h with
  | [] => s
  | o :: t => run_ops f (r_state (step f s o)) t
  end.

Fixpoint trace (f : cfg) (s : state) (h : list op) : list result :=
  match h with
  | [] => []
  | o :: t => let r := step f s o in r :: trace f (r_state r) t
  end.

(** ** Blocks
    A block is a list of transactions executed one after the other.  Two stages of a request look at different
    moments: the proofs of ALL requests of a block are verified before its first transaction is applied
    (BlockExecutor.processExecuteEvent calls verifyProofs first), so the proof stage sees the state [s0] the block
    started from; the service gate runs inside the transaction, and the executor stores the service records a
    transaction posted into its cache right after that transaction (applyTx), so the gate of a request later in the
    same block sees them.  With [d_cache_deferred] the gate decides on the cache as it was when the block started. *)
Definition step_at (f : cfg) (s0 : state) (s : state) (o : op) : result :=
  match o with
  | OIbtp src dst =>
      {| r_ok := true; r_log := []; r_state := s;
         r_out := outcome_code (if negb (proof_ok s0 src) then OProof
                                else gate (view (d_cache_key f) (if d_cache_deferred f then cache s0 else cache s) (svcs s)) src dst) |}
  | _ => step f s o
  end.

Fixpoint trace_block (f : cfg) (s0 : state) (s : state) (ops : list op) : list result * state :=
  match ops with
  | [] => ([], s)
  | o :: t => let r := step_at f s0 s o in
              let '(rs, s') := trace_block f s0 (r_state r) t in (r :: rs, s')
  end.

Fixpoint trace_blocks (f : cfg) (s : state) (bs : list (list op)) : list result :=
  match bs with
  | [] => []
  | b :: t => let '(rs, s') := trace_block f s s b in (rs ++ trace_blocks f s' t)%list
  end.

(** * Observations, property predicates, judge *)

(** what the driver reads back after every step (BVM views GetAppchain / GetServiceInfo /
    GetServicesByAppchainID / Rules / GetRoleInfoById / GetProposal and the executor cache hook) *)
Record obs := {
  ob_ok : bool; ob_out : N;
  ob_chains : list (N * string);
  ob_svcs : list (N * svc);
  ob_rules : list (N * list (N * string * bool));
  ob_roles : list (N * string);
  ob_props : list N;
  ob_cache : list (N * svc) }.

Fixpoint insert_by {V} (k : N) (v : V) (l : list (N * V)) : list (N * V) :=
  match l with
  | [] => [(k, v)]
  | (k', v') :: t => if (k <=? k')%N then (k, v) :: l else (k', v') :: insert_by k v t
  end.
Definition sort_by {V} (l : list (N * V)) : list (N * V) := fold_right (fun e acc => insert_by (fst e) (snd e) acc) [] l.

Definition obs_of (r : result) : obs :=
  let s := r_state r in
  {| ob_ok := r_ok r; ob_out := r_out r;
     ob_chains := sort_by (chains s);
     ob_svcs := sort_by (svcs s);
     ob_rules := sort_by (map (fun e : N * list rule => (fst e, map (fun x => (ru_id x, ru_status x, ru_master x)) (snd e))) (rules s));
     ob_roles := sort_by (roles s);
     ob_props := map p_status (props s);
     ob_cache := sort_by (cache s) |}.

Definition ns_eqb (a b : N * string) : bool := (fst a =? fst b)%N && String.eqb (snd a) (snd b).
Definition nsvc_eqb (a b : N * svc) : bool := (fst a =? fst b)%N && svc_eqb (snd a) (snd b).
(** a cached record carries no "registered" flag *)
Definition ncache_eqb (a b : N * svc) : bool :=
  (fst a =? fst b)%N && (sv_chain (snd a) =? sv_chain (snd b))%N && String.eqb (sv_status (snd a)) (sv_status (snd b))
  && list_eqb N.eqb (sv_black (snd a)) (sv_black (snd b)).
Definition rule_obs_eqb (a b : N * string * bool) : bool :=
  (fst (fst a) =? fst (fst b))%N && String.eqb (snd (fst a)) (snd (fst b)) && Bool.eqb (snd a) (snd b).
Definition nrules_eqb (a b : N * list (N * string * bool)) : bool := (fst a =? fst b)%N && list_eqb rule_obs_eqb (snd a) (snd b).

(** 0 = equal, otherwise the number of the first differing component *)
Definition obs_diff (m i : obs) : N :=
  if negb (Bool.eqb (ob_ok m) (ob_ok i)) then 1
  else if negb (ob_out m =? ob_out i)%N then 2
  else if negb (list_eqb ns_eqb (ob_chains m) (ob_chains i)) then 3
  else if negb (list_eqb nsvc_eqb (ob_svcs m) (ob_svcs i)) then 4
  else if negb (list_eqb nrules_eqb (ob_rules m) (ob_rules i)) then 5
  else if negb (list_eqb ns_eqb (ob_roles m) (ob_roles i)) then 6
  else if negb (list_eqb N.eqb (ob_props m) (ob_props i)) then 7
  else if negb (list_eqb ncache_eqb (ob_cache m) (ob_cache i)) then 8
  else 0.

(** ** declared transitions: the status graph of an object kind (edges of the generated table for
    every value of lastStatus among the status constants) and its reflexive-transitive closure *)
Definition status_universe : list string := map snd gov_status_consts.
Definition kind_edges (k : okind) : list (string * string) :=
  flat_map (fun last => map (fun e : string * string * string => (fst (fst e), snd e)) (fsm_edges (table k last))) status_universe.
Definition extra_edges (k : okind) : list (string * string) :=
  match k with
  | KRule => [(St_Bindable, St_Bindable); (St_Available, St_Bindable); (St_Binding, St_Bindable); (St_Unbinding, St_Bindable); (St_Forbidden, St_Bindable)]
             (* clear on a default rule: the callback resets the status to bindable *)
  | KSvc => [(St_Unavailable, St_Registing)]      (* RegisterPre writes the status of the declared edge register directly *)
  | _ => []
  end.
Definition succs (es : list (string * string)) (a : string) : list string :=
  map snd (filter (fun e : string * string => String.eqb (fst e) a) es).
Fixpoint closure (es : list (string * string)) (fuel : nat) (seen : list string) : list string :=
  match fuel with
  | O => seen
  | S n => closure es n (fold_left (fun acc x => if mem_s x acc then acc else (acc ++ [x])%list) (flat_map (succs es) seen) seen)
  end.
Definition reach_from (k : okind) (a : string) : list string := closure (kind_edges k ++ extra_edges k)%list 20 [a].
Definition reach_table_of (k : okind) : list (string * list string) := map (fun a => (a, reach_from k a)) ("" :: status_universe).
(** computed once, when this file is compiled against the generated tables *)
Definition reach_chain := Eval vm_compute in reach_table_of KChain.
Definition reach_svc := Eval vm_compute in reach_table_of KSvc.
Definition reach_rule := Eval vm_compute in reach_table_of KRule.
Definition reach_role := Eval vm_compute in reach_table_of KRole.
Definition reach_node := Eval vm_compute in reach_table_of KNode.
Definition reach_table (k : okind) : list (string * list string) :=
  match k with KChain => reach_chain | KSvc => reach_svc | KRule => reach_rule | KRole => reach_role | KNode => reach_node end.
Definition reach (k : okind) (a b : string) : bool :=
  match alookup String.eqb a (reach_table k) with
  | Some l => mem_s b l
  | None => String.eqb a b
  end.

Definition declared_pair {V} (k : okind) (st : V -> string) (before after : list (N * V)) : bool :=
  forallb (fun e : N * V => match alookup N.eqb (fst e) before with
                            | Some o => reach k (st o) (st (snd e))
                            | None => true          (* created in this step *)
                            end) after.

Definition rule_pairs (l : list (N * list (N * string * bool))) : list (N * string) :=
  flat_map (fun e : N * list (N * string * bool) => map (fun x : N * string * bool => (fst e * 100 + fst (fst x), snd (fst x))%N) (snd e)) l.

Definition declared_step (a b : obs) : bool :=
  declared_pair KChain (fun x : string => x) (ob_chains a) (ob_chains b)
  && declared_pair KSvc sv_status (ob_svcs a) (ob_svcs b)
  && declared_pair KRole (fun x : string => x) (ob_roles a) (ob_roles b)
  && declared_pair KRule (fun x : string => x) (rule_pairs (ob_rules a)) (rule_pairs (ob_rules b)).

(** ** logged out stays logged out (appchains, services, roles) *)
Definition forever_step (a b : obs) : bool :=
  forallb (fun e : N * string => negb (String.eqb (snd e) St_Forbidden) ||
                                 match alookup N.eqb (fst e) (ob_chains b) with Some x => String.eqb x St_Forbidden | None => false end) (ob_chains a)
  && forallb (fun e : N * svc => negb (String.eqb (sv_status (snd e)) St_Forbidden) ||
                                 match alookup N.eqb (fst e) (ob_svcs b) with Some x => String.eqb (sv_status x) St_Forbidden | None => false end) (ob_svcs a)
  && forallb (fun e : N * string => negb (String.eqb (snd e) St_Forbidden) ||
                                    match alookup N.eqb (fst e) (ob_roles b) with Some x => String.eqb x St_Forbidden | None => false end) (ob_roles a).

(** ** cascade: while an appchain is frozen or forbidden none of its registered services is available *)
Definition cascade_obs (o : obs) : bool :=
  forallb (fun e : N * svc =>
             negb (sv_reg (snd e)) ||
             match alookup N.eqb (sv_chain (snd e)) (ob_chains o) with
             | Some cs => if String.eqb cs St_Frozen || String.eqb cs St_Forbidden then negb (svc_avail (snd e)) else true
             | None => true
             end) (ob_svcs o).

(** ** gate: the outcome of every request agrees with the STORED records *)
Definition gate_obs (o : op) (ob : obs) : bool :=
  match o with
  | OIbtp src dst =>
      match ob_out ob with
      | 0%N => gate_sound (ob_svcs ob) src dst OBegin
      | 1%N => gate_sound (ob_svcs ob) src dst OBeginFail
      | 2%N => gate_sound (ob_svcs ob) src dst ORejSrc
      | 3%N => true
      | _ => false
      end
  | _ => true
  end.

(** ** a pending logout: a service in status logouting stays so or becomes forbidden, unless the step (the block)
    holds a rejection or a withdrawal (its logout not approved: it returns to its last status) *)
Definition is_rolevote (o : op) : bool := match o with ORoleVote _ _ _ => true | _ => false end.
Definition is_reject (o : op) : bool := match o with OConclude _ false | OWithdraw _ => true | _ => false end.
Definition logout_step (a b : obs) : bool :=
  forallb (fun e : N * svc =>
             negb (String.eqb (sv_status (snd e)) St_Logouting) ||
             match alookup N.eqb (fst e) (ob_svcs b) with
             | Some x => String.eqb (sv_status x) St_Logouting || String.eqb (sv_status x) St_Forbidden
             | None => false
             end) (ob_svcs a).

(** positions of a history made of blocks: (operation, the gate check is meaningful here, last of its block, the block
    holds no rejection / withdrawal).
    Inside a block only the state after the block can be read back; the stored records at the position of a request
    are those after the block exactly when only requests follow it in the block. *)
Definition is_ibtp (o : op) : bool := match o with OIbtp _ _ => true | _ => false end.
Fixpoint block_mask_aux (strict : bool) (ops : list op) : list (op * bool * bool * bool) :=
  match ops with
  | [] => []
  | o :: t => (o, forallb is_ibtp t, match t with [] => true | _ => false end, strict) :: block_mask_aux strict t
  end.
Definition block_mask (ops : list op) : list (op * bool * bool * bool) := block_mask_aux (negb (existsb is_reject ops)) ops.
Definition hist_mask (bs : list (list op)) : list (op * bool * bool * bool) := flat_map block_mask bs.
Definition flat_mask (h : list op) : list (op * bool * bool * bool) := map (fun o => (o, true, true, negb (is_reject o))) h.

(** the property on a trace; returns 0 when it holds, else which*100000 + step (which: 1 gate 2 declared 3 forever 4 cascade
    5 pending logout 6 ballot of an unavailable admin accepted) *)
Fixpoint P_trace_from (h : list (op * bool * bool * bool)) (prev : obs) (tr : list obs) (i : N) : N :=
  match h, tr with
  | (o, chk, _, strict) :: h', ob :: tr' =>
      if chk && negb (gate_obs o ob) then 100000 + i
      else if negb (declared_step prev ob) then 200000 + i
      else if negb (forever_step prev ob) then 300000 + i
      else if negb (cascade_obs ob) then 400000 + i
      else if strict && negb (logout_step prev ob) then 500000 + i
      else if is_rolevote o && ob_ok ob then 600000 + i
      else P_trace_from h' ob tr' (N.succ i)
  | _, _ => 0
  end%N.
Definition obs0 : obs := {| ob_ok := true; ob_out := 9; ob_chains := []; ob_svcs := []; ob_rules := []; ob_roles := []; ob_props := []; ob_cache := [] |}.
Definition P_trace (h : list op) (tr : list obs) : N := P_trace_from (flat_mask h) obs0 tr 0.
Definition P_b (h : list op) (tr : list obs) : bool := (P_trace h tr =? 0)%N.
Definition P_trace_blocks (bs : list (list op)) (tr : list obs) : N := P_trace_from (hist_mask bs) obs0 tr 0.
Definition P_b_blocks (bs : list (list op)) (tr : list obs) : bool := (P_trace_blocks bs tr =? 0)%N.

(** first step at which model and implementation differ: component*1000 + step, 0 = none.  Inside a block only
    the receipt and the request outcome of a transaction can be compared; the state is compared after the block. *)
Definition obs_diff_light (m i : obs) : N :=
  if negb (Bool.eqb (ob_ok m) (ob_ok i)) then 1 else if negb (ob_out m =? ob_out i)%N then 2 else 0.
Fixpoint first_mismatch_m (mask : list (op * bool * bool * bool)) (ms is : list obs) (i : N) : N :=
  match mask, ms, is with
  | (_, _, full, _) :: mask', m :: ms', o :: is' =>
      match (if full then obs_diff m o else obs_diff_light m o) with
      | 0%N => first_mismatch_m mask' ms' is' (N.succ i)
      | d => d * 1000 + i
      end
  | _, [], [] => 0
  | _, _, _ => 9000 + i
  end%N.
Definition first_mismatch (ms is : list obs) (i : N) : N := first_mismatch_m (map (fun _ => (ORestart, true, true, true)) ms) ms is i.

Definition model_trace (f : cfg) (h : list op) : list obs := map obs_of (trace f st0 h).
Definition model_trace_blocks (f : cfg) (bs : list (list op)) : list obs := map obs_of (trace_blocks f st0 bs).

Definition cfg_of_bits6 (a b c d w u : bool) : cfg :=
  {| d_cache_failed_events := a; d_cache_not_reloaded := b; d_logout_reject_unpauses := c; d_manage_reject_only := false; d_withdraw_paused := w;
     d_unpause_restores_locked := u; d_cache_key := fun i => i; d_cache_deferred := d |}.
(** [d_unpause_restores_locked] is a fact of the code as it is *)
Definition cfg_of_bits5 (a b c d w : bool) : cfg := cfg_of_bits6 a b c d w true.
(** [d_withdraw_paused] is a fact of the code as it is *)
Definition cfg_of_bits4 (a b c d : bool) : cfg := cfg_of_bits5 a b c d true.
Definition cfg_reject_only : cfg :=
  {| d_cache_failed_events := false; d_cache_not_reloaded := true; d_logout_reject_unpauses := false; d_manage_reject_only := true; d_withdraw_paused := true; d_unpause_restores_locked := true;
     d_cache_key := fun i => i; d_cache_deferred := false |}.
(** the same flags with the cache keyed by the case-folded id *)
Definition cfg_folded (g : cfg) : cfg :=
  {| d_cache_failed_events := d_cache_failed_events g; d_cache_not_reloaded := d_cache_not_reloaded g;
     d_logout_reject_unpauses := d_logout_reject_unpauses g; d_manage_reject_only := d_manage_reject_only g; d_withdraw_paused := d_withdraw_paused g; d_unpause_restores_locked := d_unpause_restores_locked g; d_cache_key := fold_key; d_cache_deferred := d_cache_deferred g |}.
Definition cfg_of_bits (a b c : bool) : cfg := cfg_of_bits4 a b c false.
(** the flag sets below [cur], the current one first *)
Definition sub_cfgs (cur : cfg) : list cfg :=
  let opts (x : bool) := if x then [true; false] else [false] in
  flat_map (fun u => flat_map (fun w => flat_map (fun a => flat_map (fun b => flat_map (fun c => map (fun d => cfg_of_bits6 a b c d w u) (opts (d_cache_deferred cur)))
                                                 (opts (d_logout_reject_unpauses cur))) (opts (d_cache_not_reloaded cur)))
           (opts (d_cache_failed_events cur))) (opts (d_withdraw_paused cur))) (opts (d_unpause_restores_locked cur)).
Definition without_withdraw_paused (g : cfg) : cfg :=
  {| d_cache_failed_events := d_cache_failed_events g; d_cache_not_reloaded := d_cache_not_reloaded g;
     d_logout_reject_unpauses := d_logout_reject_unpauses g; d_manage_reject_only := d_manage_reject_only g; d_withdraw_paused := false; d_unpause_restores_locked := d_unpause_restores_locked g;
     d_cache_key := d_cache_key g; d_cache_deferred := d_cache_deferred g |}.

(** verdict of one history (a list of blocks): the property on the implementation's own trace first; then
    model = implementation under some flag set below the current one.
    (2, w*100000 + 50000*e + 25000*e' + i): property false at step i (w as above), e = 1 when the implementation's
    trace is the model's trace under a flag set that has the flag responsible for w switched on; e' = 1 when it is the
    model's trace under a flag set with [d_withdraw_paused] on AND the same flag set with it off satisfies the property
    on this history (the withdrawal of a paused proposal is what breaks it);  (1, comp*1000 + i): mismatch *)
Definition judge_hist (cur : cfg) (c : list (list op) * list obs) : verdict :=
  let '(bs, tr) := c in
  let mask := hist_mask bs in
  let matched := find (fun f => (first_mismatch_m mask (model_trace_blocks f bs) tr 0 =? 0)%N) (sub_cfgs cur) in
  match P_trace_blocks bs tr with
  | 0%N => match matched with
           | Some _ => V_ok
           | None => V_mismatch (first_mismatch_m mask (model_trace_blocks cur bs) tr 0)
           end
  | d => let w := (d / 100000)%N in
         let e := match matched with
                  | Some f => if (w =? 1)%N then d_cache_failed_events f || d_cache_deferred f
                              else if (w =? 4)%N then d_logout_reject_unpauses f
                              else if (w =? 5)%N then d_unpause_restores_locked f else false
                  | None => false
                  end in
         let e' := match matched with
                   | Some f => d_withdraw_paused f && negb e &&
                               (P_trace_blocks bs (model_trace_blocks (without_withdraw_paused f) bs) =? 0)%N
                   | None => false
                   end in
         V_propfalse (d + (if e then 50000 else 0) + (if e' then 25000 else 0))
  end.

(** ** the state-machine differential test: one row = the real ChangeStatus on (status, event, lastStatus) *)
Definition judge_fire (c : okind * string * string * string * option string) : bool :=
  let '(k, st, ev, last, res) := c in
  option_eqb String.eqb (fire k last st ev) res.

(** rule rows carry (default, master before) and expect (status, master after) *)
Definition judge_fire_rule (c : string * string * string * bool * bool * option (string * bool)) : bool :=
  let '(st, ev, last, def, master, res) := c in
  let r := {| ru_id := 0; ru_status := st; ru_master := master; ru_default := def |} in
  match fire KRule last st ev, res with
  | Some b, Some (st', m') => let r' := rule_after ev r b in String.eqb (ru_status r') st' && Bool.eqb (ru_master r') m'
  | None, None => true
  | _, _ => false
  end.

Definition judge_pre (c : okind * string * string * bool) : bool :=
  let '(k, ev, st, ok) := c in Bool.eqb (pre_ok k ev st) ok.
