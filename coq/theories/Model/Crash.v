(** C11 — one block commit as a set of durable write units, crash = the disk after any
    order-ideal of them, recovery = what a restart does (NewBlockFile.repair, loadChainMeta,
    NewSimpleLedger, ledger.New's Rollback(meta.Height)).  Definitions only.

    Code read for this file: internal/ledger/ledger.go (PersistBlockData: StateLedger.Commit
    and ChainLedger.PersistExecutionResult in two goroutines; New: Rollback(meta.Height)),
    chain_ledger_impl.go (PersistExecutionResult: bf.AppendBlock and batcher.Commit in two
    goroutines; AppendBlock appends hash, body, transactions, receipts, interchain in this
    order), state_accessor.go (Commit: one batch with the data, journal-<h>, maxHeight and, the
    first time, minHeight; then, for h > 10, removeJournalsBeforeBlock(h-10): a second batch;
    RollbackState), simple_ledger.go (NewSimpleLedger), block_journal.go, bitxhub-kit blockfile.

    The state store is abstract: its data is the list of block deltas applied (newest first),
    a journal entry records (state root after the block, delta of the block), reverting a
    journal pops the delta. *)
From BX Require Import Base.Prelude Model.ChainLedger.
Local Open Scope N_scope.

(** * Write units and the order the code imposes on them *)
Inductive wunit := UState | UPrune | UIndex | UBFhash | UBFbody | UBFtxs | UBFrcpts | UBFic.
Definition all_units : list wunit := [UState; UPrune; UIndex; UBFhash; UBFbody; UBFtxs; UBFrcpts; UBFic].
Definition uset := wunit -> bool.

(** [before a b]: [b] is issued only after [a] has returned (same goroutine, sequential).
    State/Prune, Index and the blockfile appends run in three concurrent goroutines. *)
Definition before (a b : wunit) : bool :=
  match a, b with
  | UState, UPrune => true
  | UBFhash, UBFbody | UBFbody, UBFtxs | UBFtxs, UBFrcpts | UBFrcpts, UBFic => true
  | _, _ => false
  end.
Definition ideal (S : uset) : Prop := forall a b, before a b = true -> S b = true -> S a = true.
Definition ideal_b (S : uset) : bool :=
  forallb (fun a => forallb (fun b => implb (before a b && S b) (S a)) all_units) all_units.

Definition bf_complete (S : uset) : bool := S UBFhash && S UBFbody && S UBFtxs && S UBFrcpts && S UBFic.
(** the crash states from which a restart succeeds, is consistent and continues like a node
    that never crashed: if the index batch is durable then so are the whole blockfile append
    and the state batch.  (On the tree as pinned also "blockfile complete -> index batch
    durable" was needed, [Good_pinned]; that defect was repaired in /repo, see [restart_bf].) *)
Definition Good (S : uset) : bool := implb (S UIndex) (bf_complete S && S UState).
Definition Good_pinned (S : uset) : bool :=
  Bool.eqb (S UIndex) (bf_complete S) && implb (S UIndex) (S UState).

(** encoding of a unit set as a number (bit i = unit i of [all_units]) for the driver *)
Definition uset_of (code : N) : uset :=
  fun u => N.testbit code (match u with UState => 0 | UPrune => 1 | UIndex => 2 | UBFhash => 3
                                     | UBFbody => 4 | UBFtxs => 5 | UBFrcpts => 6 | UBFic => 7 end).

(** * The abstract state store *)
Record sdisk := mkSD {
  sd_min : N;                    (* journal-minHeight (0 = absent) *)
  sd_max : N;                    (* journal-maxHeight (0 = absent) *)
  sd_jnl : list (N * (N * N));   (* journal-<h> -> (state root after block h, delta of block h) *)
  sd_data : list N }.            (* account/state data: deltas applied, newest first *)
Definition sd_empty : sdisk := mkSD 0 0 [] [].
Record smem := mkSM { sm_min : N; sm_max : N; sm_prev : N }.   (* minJnlHeight, maxJnlHeight, prevJnlHash *)

(** NewSimpleLedger *)
Definition state_open (sd : sdisk) : option smem :=
  if sd_max sd =? 0 then Some (mkSM (sd_min sd) 0 0)
  else match nlookup (sd_max sd) (sd_jnl sd) with
       | Some (r, _) => Some (mkSM (sd_min sd) (sd_max sd) r)
       | None => None               (* "get empty block journal for block" *)
       end.

(** Commit, first batch *)
Definition state_batch (m : smem) (h delta rt : N) (sd : sdisk) : sdisk :=
  mkSD (if sm_min m =? 0 then h else sd_min sd) h (nset h (rt, delta) (sd_jnl sd)) (delta :: sd_data sd).
Definition smem_commit (m : smem) (h rt : N) : smem :=
  mkSM (if sm_min m =? 0 then h else sm_min m) h rt.
(** Commit, second batch (removeJournalsBeforeBlock (h-10)); [m] is the memory after the first *)
Definition prune_applies (m : smem) (h : N) : bool := (10 <? h) && negb (h - 10 <=? sm_min m).
Definition prune_batch (m : smem) (h : N) (sd : sdisk) : sdisk :=
  mkSD (h - 10) (sd_max sd)
       (filter (fun kv => negb ((sm_min m <=? fst kv) && (fst kv <? h - 10))) (sd_jnl sd))
       (sd_data sd).
Definition smem_prune (m : smem) (h : N) : smem :=
  if prune_applies m h then mkSM (h - 10) (sm_max m) (sm_prev m) else m.

(** revertJournal: pops the delta when the data is the one the journal was written against *)
Definition revert_delta (delta : N) (data : list N) : list N :=
  match data with
  | d :: rest => if d =? delta then rest else 0 :: data
  | [] => [0]
  end.

(** RollbackState's loop; [None] = ErrorRollbackWithoutJournal (state left half reverted) *)
Fixpoint rbs_loop (hs : list N) (sd : sdisk) : sdisk * bool :=
  match hs with
  | [] => (sd, true)
  | i :: r =>
      match nlookup i (sd_jnl sd) with
      | None => (sd, false)
      | Some (_, delta) =>
          rbs_loop r (mkSD (sd_min sd) (i - 1) (nremove i (sd_jnl sd)) (revert_delta delta (sd_data sd)))
      end
  end.

(** result codes: 0 ok, 1 "rollback to higher blockchain height", 2 "rollback too much block",
    3 "rollback to blockchain height without journal", 4 state store cannot be opened *)
Definition rollback_state (t : N) (m : smem) (sd : sdisk) : N * smem * sdisk :=
  if sm_max m <? t then (1, m, sd)
  else if (t <? sm_min m) && negb ((sm_min m =? 1) && (t =? 0)) then (2, m, sd)
  else if sm_max m =? t then (0, m, sd)
  else
    match rbs_loop (heights_down (N.to_nat (sm_max m - t)) (sm_max m)) sd with
    | (sd', false) => (3, m, sd')
    | (sd', true) =>
        if t =? 0 then (0, mkSM 0 0 0, sd')
        else match nlookup t (sd_jnl sd') with
             | Some (r, _) => (0, mkSM (sm_min m) t r, sd')
             | None => (3, m, sd')        (* Go: nil journal dereferenced *)
             end
    end.

(** * Disk, live ledger *)
Record disk := mkDisk { dk_state : sdisk; dk_ix : index; dk_bf : bfile }.
Definition disk_empty : disk := mkDisk sd_empty ix_empty bf_empty.
Record ledger := mkL { l_disk : disk; l_smem : smem; l_cmem : cmeta }.
Definition ledger_empty : ledger := mkL disk_empty (mkSM 0 0 0) meta0.
Definition height (l : ledger) : N := cm_height (l_cmem l).
(** the chain-ledger view of a live ledger (for the lookups of [ChainLedger]) *)
Definition chain_view (l : ledger) : cledger :=
  mkCL (dk_bf (l_disk l)) (dk_ix (l_disk l)) (l_cmem l) jw0.

(** what the ordering layer hands over for one height *)
Record bspec := mkBS { bs_txs : list N; bs_rcpts : list N; bs_im : imeta; bs_delta : N }.

Section WithHash.
  Variable hash_hdr : header -> N.
  Variable root : list N -> N.
  Variable sroot : N -> N -> N.       (* FlushDirtyData: new state root from the previous root and the block's delta *)

  (** the executor seals the block against the ledger it runs on: number, parent, roots, state
      root from the running journal hash, block hash last (executor/handle.go) *)
  Definition seal_at (num parent prev : N) (b : bspec) : entry :=
    let hd := mkHdr num parent (sroot prev (bs_delta b)) (root (bs_txs b)) (root (bs_rcpts b)) in
    mkEntry (mkBlk hd (hash_hdr hd) (bs_txs b)) (bs_rcpts b) (bs_im b).
  Definition seal (l : ledger) (b : bspec) : entry :=
    seal_at (height l + 1) (cm_hash (l_cmem l)) (sm_prev (l_smem l)) b.

  (** ** the units of committing [b] on the live ledger [l] *)
  Definition apply_state (S : uset) (l : ledger) (b : bspec) : sdisk :=
    let h := height l + 1 in
    let rt := sroot (sm_prev (l_smem l)) (bs_delta b) in
    let sd := dk_state (l_disk l) in
    if S UState then
      let sd1 := state_batch (l_smem l) h (bs_delta b) rt sd in
      let m1 := smem_commit (l_smem l) h rt in
      if S UPrune && prune_applies m1 h then prune_batch m1 h sd1 else sd1
    else sd.
  Definition apply_bf (S : uset) (e : entry) (bf : bfile) : bfile :=
    mkBF (if S UBFhash then bf_hashes bf ++ [b_hash (e_blk e)] else bf_hashes bf)
         (if S UBFbody then bf_bodies bf ++ [(b_hdr (e_blk e), b_hash (e_blk e))] else bf_bodies bf)
         (if S UBFtxs then bf_txs bf ++ [b_txs (e_blk e)] else bf_txs bf)
         (if S UBFrcpts then bf_rcpts bf ++ [e_rcpts e] else bf_rcpts bf)
         (if S UBFic then bf_ics bf ++ [e_im e] else bf_ics bf).
  (** the disk when the process dies after exactly the units of [S] became durable *)
  Definition crash (S : uset) (l : ledger) (b : bspec) : disk :=
    let e := seal l b in
    mkDisk (apply_state S l b)
           (if S UIndex then persist_index (cm_count (l_cmem l)) e (dk_ix (l_disk l)) else dk_ix (l_disk l))
           (apply_bf S e (dk_bf (l_disk l))).

  (** ** a commit that is not interrupted.  [None]: AppendBlock refuses ("out-order") and the
      goroutine's panic kills the process *)
  Definition everything : uset := fun _ => true.
  Definition commit (l : ledger) (b : bspec) : option ledger :=
    if bf_blocks (dk_bf (l_disk l)) =? height l then
      let e := seal l b in
      let h := height l + 1 in
      let rt := sroot (sm_prev (l_smem l)) (bs_delta b) in
      Some (mkL (crash everything l b)
                (smem_prune (smem_commit (l_smem l) h rt) h)
                (new_meta (cm_count (l_cmem l)) e))
    else None.
  Fixpoint commit_all (l : ledger) (bs : list bspec) : option ledger :=
    match bs with
    | [] => Some l
    | b :: r => match commit l b with Some l' => commit_all l' r | None => None end
    end.
End WithHash.

(** * Restart *)
(** NewBlockFile.repair, then (NewChainLedgerImpl, repaired in /repo: [trunc] = true) drop the
    one block a crash can leave in the blockfile beyond the chain meta.  [trunc] = false is the
    tree as pinned. *)
Definition restart_bf (trunc : bool) (cm : cmeta) (bf : bfile) : bfile :=
  let r := bf_repair bf in
  if trunc && (bf_blocks r =? cm_height cm + 1) then bf_truncate_blocks (cm_height cm) r else r.

Inductive rres := RecOk (l : ledger) | RecErr (code : N).
Definition recover_with (trunc : bool) (d : disk) : rres :=
  let cm := load_meta (dk_ix d) in              (* NewChainLedgerImpl *)
  let bf := restart_bf trunc cm (dk_bf d) in    (* NewBlockFile + NewChainLedgerImpl *)
  match state_open (dk_state d) with            (* NewSimpleLedger *)
  | None => RecErr 4
  | Some m =>
      (* ledger.Rollback(meta.Height): state first; the chain side is at its own height: no-op *)
      match rollback_state (cm_height cm) m (dk_state d) with
      | (0, m', sd') => RecOk (mkL (mkDisk sd' (dk_ix d) bf) m' cm)
      | (c, _, _) => RecErr c
      end
  end.
Definition recover : disk -> rres := recover_with true.

(** one start-up of the node (app.GenerateBitXHubWithoutOrder): ledger.New, then the read-only
    VIEW ledger, a second NewSimpleLedger on the same state store (error class 6 when it cannot
    be opened) *)
Definition startup_with (trunc : bool) (d : disk) : rres :=
  match recover_with trunc d with
  | RecErr c => RecErr c
  | RecOk l => match state_open (dk_state (l_disk l)) with
               | None => RecErr 6
               | Some _ => RecOk l
               end
  end.
(** two start-ups in a row: the node is stopped again before it executes anything (error
    classes of the second start-up are shifted by 20) *)
Definition startup_twice_with (trunc : bool) (d : disk) : rres :=
  match startup_with trunc d with
  | RecErr c => RecErr c
  | RecOk l => match startup_with trunc (l_disk l) with
               | RecErr c => RecErr (20 + c)
               | RecOk l2 => RecOk l2
               end
  end.

(** * Observables of a live ledger: every chain lookup, state version, running state root,
    and the state data *)
Record lobs := mkLobs { lo_chain : obs; lo_version : N; lo_root : N; lo_data : list N }.
Definition observe_ledger (U : universe) (l : ledger) : lobs :=
  mkLobs (observe cfg_fixed U (chain_view l)) (sm_max (l_smem l)) (sm_prev (l_smem l))
         (sd_data (dk_state (l_disk l))).
Definition lobs_eqb (a b : lobs) : bool :=
  obs_eqb (lo_chain a) (lo_chain b) && (lo_version a =? lo_version b) && (lo_root a =? lo_root b)
  && nlist_eqb (lo_data a) (lo_data b).

(** * The experiment the driver performs and the judge re-runs: commit [pre] cleanly, die in
    the commit of [b] after the units [S], start up twice in a row, observe, execute the remaining blocks of
    [pre ++ b :: post], observe *)
Record outcome := mkOut {
  oc_rec : N;                 (* 0 restart succeeded, else the error class *)
  oc_obs1 : option lobs;      (* after the restart *)
  oc_cont : N;                (* 0 continued to the end, 9 a commit died "out-order", 7 not attempted *)
  oc_obs2 : option lobs }.    (* at the end *)

Section Experiment.
  Variable hash_hdr : header -> N.
  Variable root : list N -> N.
  Variable sroot : N -> N -> N.

  (** executing the remaining blocks: those above the ledger's height *)
  Definition continue_from (l : ledger) (all : list bspec) : option ledger :=
    commit_all hash_hdr root sroot l (skipn (N.to_nat (height l)) all).

  Definition experiment_with (trunc : bool) (U : universe) (pre : list bspec) (b : bspec) (post : list bspec) (S : uset) : option outcome :=
    match commit_all hash_hdr root sroot ledger_empty pre with
    | None => None
    | Some ln =>
        match startup_twice_with trunc (crash hash_hdr root sroot S ln b) with
        | RecErr c => Some (mkOut c None 7 None)
        | RecOk l =>
            match continue_from l (pre ++ b :: post) with
            | None => Some (mkOut 0 (Some (observe_ledger U l)) 9 None)
            | Some l2 => Some (mkOut 0 (Some (observe_ledger U l)) 0 (Some (observe_ledger U l2)))
            end
        end
    end.

  Definition experiment := experiment_with true.

  (** the reference: a node that never crashed *)
  Definition reference (U : universe) (all : list bspec) (k : nat) : option lobs :=
    match commit_all hash_hdr root sroot ledger_empty (firstn k all) with
    | Some l => Some (observe_ledger U l)
    | None => None
    end.

  (** ** the property of one experiment, as a predicate on an outcome (the implementation's or
      the model's), relative to the observations [rn], [rn1], [rN] of a node that never crashed
      at the previous height, the new height and the end: the restart succeeds; the ledger
      observed is consistent in itself ([consistent_b]: chain invariant up to the head, state
      version = chain height, running state root = state root of the head block, one delta per
      height) and is the uncrashed ledger of the previous or of the new height; the
      continuation reaches the end with the uncrashed node's observations.  "No block below
      the head is lost" is part of the equality with the reference. *)
  Definition head_state_root (o : obs) : N :=
    match nth_error (o_heights o) (N.to_nat (cm_height (o_meta o))) with
    | Some ho => match ho_full ho with ROk b => h_state (b_hdr b) | _ => 0 end
    | None => 0
    end.
  Definition consistent_b (x : lobs) : bool :=
    chain_inv_b hash_hdr root (lo_chain x)
    && (lo_version x =? cm_height (o_meta (lo_chain x)))
    && (if cm_height (o_meta (lo_chain x)) =? 0 then lo_root x =? 0
        else lo_root x =? head_state_root (lo_chain x))
    && (N.of_nat (length (lo_data x)) =? cm_height (o_meta (lo_chain x))).
  Definition option_lobs_eqb (a b : option lobs) : bool :=
    match a, b with Some x, Some y => lobs_eqb x y | _, _ => false end.
  Definition outcome_ok_b (rn rn1 rN : option lobs) (o : outcome) : bool :=
    (oc_rec o =? 0)
    && match oc_obs1 o with Some x => consistent_b x | None => false end
    && (option_lobs_eqb (oc_obs1 o) rn || option_lobs_eqb (oc_obs1 o) rn1)
    && (oc_cont o =? 0)
    && option_lobs_eqb (oc_obs2 o) rN.
  (** which conjunct fails first: 1 restart failed, 2 restarted ledger inconsistent in itself,
      3 not the uncrashed ledger at n or n+1, 4 continuation died, 5 final observations differ *)
  Definition outcome_fail (rn rn1 rN : option lobs) (o : outcome) : N :=
    if negb (oc_rec o =? 0) then 1
    else if negb (match oc_obs1 o with Some x => consistent_b x | None => false end) then 2
    else if negb (option_lobs_eqb (oc_obs1 o) rn || option_lobs_eqb (oc_obs1 o) rn1) then 3
    else if negb (oc_cont o =? 0) then 4
    else if negb (option_lobs_eqb (oc_obs2 o) rN) then 5 else 0.
End Experiment.

(** * Oracle instances for running (tables produced by the driver by really hashing) *)
Definition oracle_sroot (tbl : list ((N * N) * N)) (prev delta : N) : N :=
  match find (fun p => (fst (fst p) =? prev) && (snd (fst p) =? delta)) tbl with
  | Some p => snd p | None => 0 end.

Record ccase := mkCCase {
  cc_univ : universe; cc_pre : list bspec; cc_b : bspec; cc_post : list bspec; cc_units : N;
  cc_impl : outcome;
  cc_refs : option lobs * option lobs * option lobs;    (* the implementation's own uncrashed run at n, n+1, end *)
  cc_hash_tbl : list (header * N); cc_root_tbl : list (list N * N); cc_sroot_tbl : list ((N * N) * N) }.

(** verdicts: (0,_) fine; (2,k) the property is false on the implementation's outcome
    ([outcome_fail] = k); (1,k) model and implementation differ (k = 1 restart code, 2 restarted
    observation, 3 continuation code, 4 final observation, 5..7 the uncrashed reference at n, n+1,
    end); (3,_) outside the model's domain *)
Definition judge_crash_prop (c : ccase) : verdict :=
  let hh := oracle_hash (cc_hash_tbl c) in
  let rt := oracle_root (cc_root_tbl c) in
  let '(rn, rn1, rN) := cc_refs c in
  if negb (tbl_inj_b hdr_eqb (cc_hash_tbl c) && tbl_nonzero_b (cc_hash_tbl c)) then V_domain 0
  else match outcome_fail hh rt rn rn1 rN (cc_impl c) with
       | 0 => (* the reference itself must be consistent, or the comparison means nothing *)
           if match rn, rn1, rN with
              | Some a, Some b, Some d => consistent_b hh rt a && consistent_b hh rt b && consistent_b hh rt d
              | _, _, _ => false end
           then V_ok else V_propfalse 6
       | k => V_propfalse k
       end.
Definition olobs_eqb (a b : option lobs) : bool :=
  match a, b with Some x, Some y => lobs_eqb x y | None, None => true | _, _ => false end.
Definition judge_crash_model (c : ccase) : verdict :=
  let hh := oracle_hash (cc_hash_tbl c) in
  let rt := oracle_root (cc_root_tbl c) in
  let sr := oracle_sroot (cc_sroot_tbl c) in
  let all := cc_pre c ++ cc_b c :: cc_post c in
  let '(rn, rn1, rN) := cc_refs c in
  match experiment hh rt sr (cc_univ c) (cc_pre c) (cc_b c) (cc_post c) (uset_of (cc_units c)) with
  | None => V_domain 1
  | Some m =>
      if negb (oc_rec m =? oc_rec (cc_impl c)) then V_mismatch 1
      else if negb (olobs_eqb (oc_obs1 m) (oc_obs1 (cc_impl c))) then V_mismatch 2
      else if negb (oc_cont m =? oc_cont (cc_impl c)) then V_mismatch 3
      else if negb (olobs_eqb (oc_obs2 m) (oc_obs2 (cc_impl c))) then V_mismatch 4
      else if negb (olobs_eqb (reference hh rt sr (cc_univ c) all (length (cc_pre c))) rn) then V_mismatch 5
      else if negb (olobs_eqb (reference hh rt sr (cc_univ c) all (S (length (cc_pre c)))) rn1) then V_mismatch 6
      else if negb (olobs_eqb (reference hh rt sr (cc_univ c) all (length all)) rN) then V_mismatch 7
      else V_ok
  end.
(** what the theorem says about the unit set itself: (0,_) in Good, (2,0) not *)
Definition judge_crash_good (c : ccase) : verdict :=
  if Good (uset_of (cc_units c)) then V_ok else V_propfalse 0.
