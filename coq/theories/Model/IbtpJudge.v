(** Correspondence judge for the IBTP driver: compares the observations printed by the real
    executor with [IbtpExec.run] under the candidate defect configurations.  Definitions only. *)
From BX Require Import Base.Prelude Base.Fsm Model.TxFsm Model.TxMgr Model.Interchain Model.IbtpExec Model.IbtpMon.
From Coq Require Import String.
Local Open Scope N_scope.

Definition triple_eqb (a b : N * N * N) : bool :=
  let '(a1, a2, a3) := a in let '(b1, b2, b3) := b in (a1 =? b1) && (a2 =? b2) && (a3 =? b3).
Definition quad_eqb (a b : N * N * N * N) : bool :=
  let '(a1, a2, a3, a4) := a in let '(b1, b2, b3, b4) := b in (a1 =? b1) && (a2 =? b2) && (a3 =? b3) && (a4 =? b4).

(** TimeoutCounter / MultiTxCounter lists (ordered by the code since the map-order fix) *)
Definition all_tx (l : list tok) : bool := forallb (fun t => match t with TTx _ => true | _ => false end) l.
Definition ids_of (l : list tok) : list txid :=
  flat_map (fun t => match t with TTx i => [i] | _ => [] end) l.
Definition toks_canon (w : world) (l : list tok) : list tok := l.   (* the code orders these lists itself: exact comparison *)
Definition cmapobs_eqb (w : world) (a b : list (N * list tok)) : bool :=
  list_eqb (fun p q : N * list tok => (fst p =? fst q) && list_eqb tok_eqb (toks_canon w (snd p)) (toks_canon w (snd q))) a b.

Definition kid_eqb (a b : txid * N) : bool := txid_eqb (fst a) (fst b) && (snd a =? snd b).

Definition bobs_eqb (w : world) (a b : bobs) : bool :=
  list_eqb triple_eqb (o_rc a) (o_rc b) &&
  list_eqb (fun p q : N * list (N * N * N) => (fst p =? fst q) && list_eqb triple_eqb (snd p) (snd q)) (o_cnt a) (o_cnt b) &&
  cmapobs_eqb w (o_to a) (o_to b) &&
  cmapobs_eqb w (o_mt a) (o_mt b) &&
  Bool.eqb (o_tr a) (o_tr b) &&
  list_eqb (option_eqb N.eqb) (o_st a) (o_st b) &&
  list_eqb (fun p q : option N * option N => option_eqb N.eqb (fst p) (fst q) && option_eqb N.eqb (snd p) (snd q)) (o_ix a) (o_ix b) &&
  list_eqb (option_eqb (fun p q : N * N * N * list (txid * N) =>
                          triple_eqb (fst p) (fst q) && list_eqb kid_eqb (snd p) (snd q))) (o_ch a) (o_ch b) &&
  list_eqb (option_eqb (list_eqb (fun p q : svc * (N * N * N * N) => (fst p =? fst q) && quad_eqb (snd p) (snd q)))) (o_ic a) (o_ic b) &&
  list_eqb (option_eqb (list_eqb tok_eqb)) (o_tl a) (o_tl b).

(** which field differs first (for mismatch reports): 1 rc 2 cnt 3 to 4 mt 5 tr 6 st 7 ix 8 ch 9 ic 10 tl *)
Definition bobs_diff (w : world) (a b : bobs) : N :=
  if negb (list_eqb triple_eqb (o_rc a) (o_rc b)) then 1
  else if negb (list_eqb (fun p q : N * list (N * N * N) => (fst p =? fst q) && list_eqb triple_eqb (snd p) (snd q)) (o_cnt a) (o_cnt b)) then 2
  else if negb (cmapobs_eqb w (o_to a) (o_to b)) then 3
  else if negb (cmapobs_eqb w (o_mt a) (o_mt b)) then 4
  else if negb (Bool.eqb (o_tr a) (o_tr b)) then 5
  else if negb (list_eqb (option_eqb N.eqb) (o_st a) (o_st b)) then 6
  else if negb (list_eqb (fun p q : option N * option N => option_eqb N.eqb (fst p) (fst q) && option_eqb N.eqb (snd p) (snd q)) (o_ix a) (o_ix b)) then 7
  else if negb (list_eqb (option_eqb (fun p q : N * N * N * list (txid * N) =>
                          triple_eqb (fst p) (fst q) && list_eqb kid_eqb (snd p) (snd q))) (o_ch a) (o_ch b)) then 8
  else if negb (list_eqb (option_eqb (list_eqb (fun p q : svc * (N * N * N * N) => (fst p =? fst q) && quad_eqb (snd p) (snd q)))) (o_ic a) (o_ic b)) then 9
  else if negb (list_eqb (option_eqb (list_eqb tok_eqb)) (o_tl a) (o_tl b)) then 10
  else 0.

(** number of leading blocks on which model and implementation agree *)
Fixpoint agree_prefix (w : world) (m i : list bobs) : N :=
  match m, i with
  | x :: m', y :: i' => if bobs_eqb w x y then 1 + agree_prefix w m' i' else 0
  | _, _ => 0
  end.

Record icase := {
  k_world : world;
  k_query : query;
  k_items : list item;
  k_impl : list bobs
}.

(** result of comparing under one configuration: None = outside the domain, Some n = n blocks agree *)
Definition match_cfg (k : icase) (cfg : Defects) : option N :=
  match run cfg (k_world k) (k_query k) state_init (k_items k) with
  | None => None
  | Some m => Some (if (List.length m =? List.length (k_impl k))%nat then agree_prefix (k_world k) m (k_impl k) else 0)
  end.

(** index (1-based) of the first configuration of [cfgs] under which all blocks agree, 0 if none *)
Fixpoint first_match (k : icase) (cfgs : list Defects) (n : N) : N :=
  match cfgs with
  | [] => 0
  | c :: r => match match_cfg k c with
              | Some a => if a =? N.of_nat (List.length (k_impl k)) then n else first_match k r (n + 1)
              | None => first_match k r (n + 1)
              end
  end.

Fixpoint best_prefix (k : icase) (cfgs : list Defects) : option N :=
  match cfgs with
  | [] => None
  | c :: r => match match_cfg k c, best_prefix k r with
              | Some a, Some b => Some (N.max a b)
              | Some a, None => Some a
              | None, x => x
              end
  end.

(** detailed report for one case and one configuration: (blocks agreeing, differing field) *)
Definition explain (k : icase) (cfg : Defects) : N * N :=
  match run cfg (k_world k) (k_query k) state_init (k_items k) with
  | None => (1000, 1000)
  | Some m =>
      let a := agree_prefix (k_world k) m (k_impl k) in
      match nth_error m (N.to_nat a), nth_error (k_impl k) (N.to_nat a) with
      | Some x, Some y => (a, bobs_diff (k_world k) x y)
      | _, _ => (a, 0)
      end
  end.


(** * the judge: property predicate on the IMPLEMENTATION trace first, then model = implementation
    under one of the candidate configurations (subsets of the open findings' flags) *)
Definition prop_b (which : N) (k : icase) : bool :=
  let w := k_world k in let q := k_query k in
  if which =? 2 then c02_b w q (k_items k) (k_impl k)
  else if which =? 4 then c04_b w q (k_items k) (k_impl k)
  else if which =? 5 then c05_b w q (k_items k) (k_impl k)
  else if which =? 6 then c06_b w q (k_items k) (k_impl k)
  else true.

(** (0,n) ok, matched candidate n;  (2,0) property false on the implementation trace;
    (1,i) property true but no candidate reproduces the trace (i = longest agreeing prefix);
    (3,0) every candidate left the modelled domain *)
Definition judge_ibtp (which : N) (cfgs : list Defects) (k : icase) : verdict :=
  let n := first_match k cfgs 1 in
  if negb (prop_b which k) then V_propfalse n       (* n = candidate reproducing the trace, 0 = none *)
  else
    if negb (n =? 0) then (0, n)
    else match best_prefix k cfgs with
         | Some a => V_mismatch a
         | None => V_domain 0
         end.

(** the same predicate on the model's own trace under a configuration (self-check of the predicates
    and refutation witnesses) *)
Definition prop_on_model (which : N) (cfg : Defects) (w : world) (q : query) (items : list item) : option bool :=
  match run cfg w q state_init items with
  | Some tr => Some (prop_b which (Build_icase w q items tr))
  | None => None
  end.
