(** Model of [internal/repo/repo.go]: [MakeStrategyDecision], [CheckStrategyExpression] and of
    [governance.go: getCurThresholdApproveNum], over an arbitrary decision predicate
    [s : N -> N -> N -> bool] (shallow: [s a r t] is the value of the strategy expression with
    [a] approvals, [r] rejections, [t] electors), with the uint64 subtraction
    [availableNum - reject] explicit.  For RUNNING, a deep embedding of the expression grammar
    the generator emits, evaluated over exact rationals [Q].

    Gap (stated, not hidden): govaluate evaluates in float64.  [Q] and float64 agree on the
    grammar the generator emits: variables a r t, constants that are dyadic rationals of small
    magnitude, + - *, division by a non-zero constant power of two, comparisons, && || !.
    Values of a r t above 2^53 are rounded the way Go converts uint64 to float64 ([f64N]);
    arithmetic on such huge values is exact in [Q] but not in float64, so expressions are only
    compared with the implementation when huge values meet nothing but comparisons against small
    numbers and multiplication by powers of two.  Definitions only. *)
From BX Require Import Base.Prelude.
From Coq Require Import QArith.
Local Open Scope N_scope.

(** * The decision function (shallow) *)

Inductive decision := DOpen | DApprove | DReject.

Definition decision_eqb (x y : decision) : bool :=
  match x, y with
  | DOpen, DOpen | DApprove, DApprove | DReject, DReject => true
  | _, _ => false
  end.

(** the value substituted for [a] in the second evaluation.
    [uf = true]: Go's [availableNum - reject] on uint64 (wraps when reject > availableNum);
    [uf = false]: the repaired, guarded subtraction (0 when reject > availableNum). *)
Definition amax (uf : bool) (r avail : N) : N :=
  if uf then wrap64 (avail + W64 - r) else avail - r.

Definition decide (s : N -> N -> N -> bool) (uf : bool) (a r t avail : N) : decision :=
  if s a r t then DApprove
  else if s (amax uf r avail) r t then DOpen
  else DReject.

(** [getCurThresholdApproveNum]: the first [x] in [a..t] with [s x r t]; [None] = the Go error
    "illegal strategy expression ... may not pass". *)
Fixpoint find_from (f : N -> bool) (start : N) (cnt : nat) : option N :=
  match cnt with
  | O => None
  | S k => if f start then Some start else find_from f (start + 1) k
  end.

Definition threshold (s : N -> N -> N -> bool) (a r t : N) : option N :=
  if t <? a then None else find_from (fun x => s x r t) a (S (N.to_nat (t - a))).

(** [CheckStrategyExpression expr n]: some [a] in [0..n] satisfies the expression at r = 0, t = n *)
Definition admitted (s : N -> N -> N -> bool) (n : N) : bool :=
  match threshold s 0 0 n with Some _ => true | None => false end.

(** * What "approval has become unreachable" means *)

(** [m] electors can still vote; [k] of them approve and [j] reject *)
Definition reachable (s : N -> N -> N -> bool) (a r t m : N) : Prop :=
  exists k j, k + j <= m /\ s (a + k) (r + j) t = true.

Fixpoint upto (n : nat) : list N :=
  match n with O => [0] | S k => upto k ++ [N.of_nat (S k)] end.

Definition reachable_b (s : N -> N -> N -> bool) (a r t m : N) : bool :=
  existsb (fun k => existsb (fun j => (k + j <=? m) && s (a + k) (r + j) t) (upto (N.to_nat m)))
          (upto (N.to_nat m)).

(** monotone: more approvals and fewer rejections never turn a satisfied expression false *)
Definition mono (s : N -> N -> N -> bool) : Prop :=
  forall a a' r r' t, a <= a' -> r' <= r -> s a r t = true -> s a' r' t = true.

(** boolean check of monotonicity on the finite domain a, r <= n (used by the check to recognise
    the listed finding "non-monotone expression admitted") *)
Definition mono_b (s : N -> N -> N -> bool) (n : N) : bool :=
  forallb (fun a => forallb (fun r =>
     negb (s a r n) ||
     (forallb (fun a' => (a' <? a) || s a' r n) (upto (N.to_nat n)) &&
      forallb (fun r' => (r <? r') || s a r' n) (upto (N.to_nat n))))
     (upto (N.to_nat n))) (upto (N.to_nat n)).

(** * Deep embedding for running *)

Inductive nexp :=
| NA | NR | NT
| NConst (q : Q)
| NAdd (x y : nexp) | NSub (x y : nexp) | NMul (x y : nexp) | NDiv (x y : nexp).

Inductive cmp := CEq | CNe | CLt | CLe | CGt | CGe.

Inductive bexp :=
| BCmp (c : cmp) (x y : nexp)
| BAnd (x y : bexp) | BOr (x y : bexp) | BNot (x : bexp)
| BLit (b : bool).

Fixpoint neval (a r t : Q) (e : nexp) : Q :=
  match e with
  | NA => a | NR => r | NT => t
  | NConst q => q
  | NAdd x y => (neval a r t x + neval a r t y)%Q
  | NSub x y => (neval a r t x - neval a r t y)%Q
  | NMul x y => (neval a r t x * neval a r t y)%Q
  | NDiv x y => (neval a r t x / neval a r t y)%Q
  end.

Definition qcmp (c : cmp) (x y : Q) : bool :=
  match c with
  | CEq => Qeq_bool x y
  | CNe => negb (Qeq_bool x y)
  | CLt => negb (Qle_bool y x)
  | CLe => Qle_bool x y
  | CGt => negb (Qle_bool x y)
  | CGe => Qle_bool y x
  end.

Fixpoint beval (a r t : Q) (e : bexp) : bool :=
  match e with
  | BCmp c x y => qcmp c (neval a r t x) (neval a r t y)
  | BAnd x y => beval a r t x && beval a r t y
  | BOr x y => beval a r t x || beval a r t y
  | BNot x => negb (beval a r t x)
  | BLit b => b
  end.

(** well-formed for the comparison with float64: every divisor is a non-zero constant *)
Fixpoint nwf (e : nexp) : bool :=
  match e with
  | NA | NR | NT | NConst _ => true
  | NAdd x y | NSub x y | NMul x y => nwf x && nwf y
  | NDiv x y => nwf x && match y with NConst q => negb (Qeq_bool q 0) | _ => false end
  end.
Fixpoint bwf (e : bexp) : bool :=
  match e with
  | BCmp _ x y => nwf x && nwf y
  | BAnd x y | BOr x y => bwf x && bwf y
  | BNot x => bwf x
  | BLit _ => true
  end.

(** Go's conversion uint64 -> float64: exact below 2^53, otherwise round to 53 significant
    bits, ties to even *)
Definition round53 (n : N) : N :=
  if n <? 9007199254740992 then n
  else
    let k := N.log2 n - 52 in
    let q := N.shiftr n k in
    let rem := n - N.shiftl q k in
    let half := N.shiftl 1 (k - 1) in
    let q' := if half <? rem then q + 1
              else if rem =? half then (if N.even q then q else q + 1)
              else q in
    N.shiftl q' k.

Definition f64N (n : N) : Q := inject_Z (Z.of_N (round53 n)).

Definition qsem (e : bexp) (a r t : N) : bool := beval (f64N a) (f64N r) (f64N t) e.

(** The property of one decision, evaluated on whatever answer is given (the implementation's or
    the model's): approve only if the expression holds; reject only if it does not hold and no
    number of further approvals by the [avail - (a + r)] electors still counted satisfies it;
    stay open only if it does not hold yet and the optimistic count [avail - r], computed
    WITHOUT wrap-around, satisfies it. *)
Definition decision_ok (s : N -> N -> N -> bool) (a r t avail : N) (d : decision) : bool :=
  match d with
  | DApprove => s a r t
  | DReject => negb (existsb (fun k => s (a + k) r t) (upto (N.to_nat (avail - (a + r)))))
  | DOpen => negb (s a r t) && s (avail - r) r t
  end.

(** judge of the pure differential run: one case = expression, (a, r, t, avail), admin count n,
    and what the implementation answered: (end, pass) of MakeStrategyDecision and admitted of
    CheckStrategyExpression.  [uf] is the defect flag the current tree is expected to show. *)
Definition judge_decide (uf : bool)
  (c : bexp * (N * N * N * N) * N * (bool * bool * bool)) : verdict :=
  let '(e, (a, r, t, avail), n, (oend, opass, oadm)) := c in
  if negb (bwf e) || (64 <? avail - (a + r)) then V_domain 0
  else
    let impl := if oend then (if opass then DApprove else DReject) else DOpen in
    if negb (decision_ok (qsem e) a r t avail impl) then V_propfalse 0
    else if negb (decision_eqb (decide (qsem e) uf a r t avail) impl) then V_mismatch 0
    else if negb (Bool.eqb oadm (admitted (qsem e) n)) then V_mismatch 1
    else V_ok.
