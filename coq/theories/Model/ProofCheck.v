(** Proof verification of IBTPs ([pkg/proof/proof_pool.go]: [CheckProof], [verifyProof],
    [verifyMultiSign], [getValidateAddress]; [internal/executor/executor.go: verifyProofs]) and the
    entry points through which an IBTP can reach the interchain contract.

    [verify_proof]: the proof bytes must hash to the value committed inside the IBTP; then
    - origin on this relay chain: the rule engine is asked with the master (= first available)
      rule of the claimed appchain in the state the block starts from;
    - origin on another relay chain: more than (n-1)/3 signatures of DISTINCT registered
      validators of that relay chain over (ibtp, status) are required; the loop shrinks the
      validator set exactly as [verifyMultiSign] does.
    The rule engine, signature recovery and the two hash functions are Section variables.
    Definitions only. *)
From BX Require Import Base.Prelude Model.Fees Model.ExecFrame.
Local Open Scope N_scope.

Record rule := { r_addr : N; r_available : bool; r_master : bool }.   (* status = available; Master flag *)
Record appchain := {
  a_trust : N;                        (* trust root handed to the rule engine *)
  a_validators : option (list N)      (* decoded {"addresses": [...]}; None = absent / undecodable *)
}.
Record pstate := {
  ps_bxh : N;                         (* id of this relay chain *)
  ps_chains : N -> option appchain;   (* appchain-mgr records (appchains and registered relay chains) *)
  ps_rules : N -> list rule           (* rule-mgr record of a chain, in stored order *)
}.

Record ibtp := {
  ib_id : N;
  ib_from_bxh : N; ib_from_chain : N;
  ib_to_bxh : N; ib_to_chain : N;
  ib_is_req : bool;                   (* Category() = REQUEST; otherwise RESPONSE *)
  ib_proofhash : N
}.

Record bxhproof := { bp_status : N; bp_sigs : list N }.

Inductive proofdata :=
| PdAbsent
| PdBytes (p : N) (decoded : option bxhproof).   (* the bytes, and their BxhProof reading if any *)

Inductive vres :=
| VOk
| VFalse          (* the rule answered "false" without an error *)
| VErr (why : N). (* 1 empty, 2 hash, 3 chain unknown, 4 no master rule, 5 rule error, 6 multisig *)

Definition vres_ok (v : vres) : bool := match v with VOk => true | _ => false end.

Fixpoint mem (a : N) (l : list N) : bool :=
  match l with [] => false | x :: t => (x =? a) || mem a t end.
Fixpoint remove_all (a : N) (l : list N) : list N :=
  match l with [] => [] | x :: t => if x =? a then remove_all a t else x :: remove_all a t end.

(** Go: (len(validators.Addresses) - 1) / 3 with truncating integer division *)
Definition threshold (vs : list N) : Z := Z.quot (Z.of_nat (List.length vs) - 1) 3.

Section Oracles.
  Variable H : N -> N.                                            (* sha256 of the proof bytes *)
  Variable digest : N -> N -> N.                                  (* EncodePackedAndHash(ibtp, status) *)
  Variable rule_validate : N -> N -> N -> N -> N -> option bool.  (* rule, chain, proof, ibtp, trust root; None = error *)
  Variable recover : N -> N -> option N.                          (* signature, digest -> signer address *)

  (** the counting loop of [verifyMultiSign]; [m] is the set of validators not yet counted *)
  Fixpoint ms_loop (m : list N) (sigs : list N) (d : N) (counter thr : Z) : bool :=
    match sigs with
    | [] => false
    | s :: t =>
        match recover s d with
        | None => ms_loop m t d counter thr
        | Some a =>
            if mem a m then
              if (counter + 1 >? thr)%Z then true
              else ms_loop (remove_all a m) t d (counter + 1)%Z thr
            else ms_loop m t d counter thr
        end
    end.

  Definition verify_multisign (app : appchain) (ib : ibtp) (bp : option bxhproof) : vres :=
    match a_validators app with
    | None => VErr 6
    | Some vs =>
        match bp with
        | None => VErr 6
        | Some p => if ms_loop vs (bp_sigs p) (digest (ib_id ib) (bp_status p)) 0%Z (threshold vs)
                    then VOk else VErr 6
        end
    end.

  Definition master_rule (st : pstate) (chain : N) : option rule :=
    find r_available (ps_rules st chain).

  (** origin of an IBTP: a request comes from [From], a receipt from [To] *)
  Definition origin (ib : ibtp) : N * N :=
    if ib_is_req ib then (ib_from_bxh ib, ib_from_chain ib) else (ib_to_bxh ib, ib_to_chain ib).

  Definition verify_proof (st : pstate) (ib : ibtp) (pd : proofdata) : vres :=
    match pd with
    | PdAbsent => VErr 1
    | PdBytes p dec =>
        if negb (H p =? ib_proofhash ib) then VErr 2
        else
          let '(b, c) := origin ib in
          if negb (b =? ps_bxh st) then
            match ps_chains st b with
            | None => VErr 3
            | Some app => verify_multisign app ib dec
            end
          else
            match ps_chains st c with
            | None => VErr 3
            | Some app =>
                match master_rule st c with
                | None => VErr 4
                | Some r =>
                    match rule_validate (r_addr r) c p (ib_id ib) (a_trust app) with
                    | None => VErr 5
                    | Some true => VOk
                    | Some false => VFalse
                    end
                end
            end
    end.

  (** [verifyProofs]: the invalid-reason of an IBTP transaction (checked against the state the
      block starts from); anything but [VOk] makes [applyBxhTransaction] return before the body *)
  Definition checked (st : pstate) (ib : ibtp) (pd : proofdata) (t : tx) : tx :=
    {| tx_from := tx_from t; tx_nonce := tx_nonce t; tx_kind := tx_kind t;
       tx_invalid := tx_invalid t || negb (vres_ok (verify_proof st ib pd)) |}.

  (** ---------------------------------------------------------------------------------- *)
  (** the proof pool as an object of the NODE: through which view of the state do its appchain /
      rule / trust-root lookups go?

      The code as it stands takes [ledger.Copy()] for every lookup: the state committed by the
      previous block.  Node-local memory (outside the ledger, lost by a restart): [n_view], the
      view a pool that MEMOISES its first Copy() would hold.  Two configuration facts decide
      whether such a memory is observable:
      - [d_memo_view] (defect flag, [false] for the code as it stands): the pool keeps the view
        of its first lookup for the life of the process;
      - [snapshot_ledger]: Copy() is a snapshot of the state ([ledger.type = "complex"]); with
        the default simple ledger Copy() is the live ledger itself and a kept reference still
        reads the latest committed state. *)
  Record pcfg := { d_memo_view : bool; snapshot_ledger : bool }.

  Inductive pevent :=
  | PCommit (st : pstate)                    (* a block commits; [st] is the state after it *)
  | PRestart                                 (* the process restarts: a new pool over the same ledger *)
  | PCheck (ib : ibtp) (pd : proofdata).     (* verifyProofs / CheckProof asks the pool *)

  Record node := { n_committed : pstate; n_view : option pstate }.

  Definition pool_view (c : pcfg) (n : node) : pstate :=
    if d_memo_view c && snapshot_ledger c
    then match n_view n with Some v => v | None => n_committed n end
    else n_committed n.

  Definition pool_step (c : pcfg) (n : node) (e : pevent) : node * option (pstate * vres) :=
    match e with
    | PCommit st => ({| n_committed := st; n_view := n_view n |}, None)
    | PRestart => ({| n_committed := n_committed n; n_view := None |}, None)
    | PCheck ib pd =>
        ({| n_committed := n_committed n;
            n_view := Some (match n_view n with Some v => v | None => n_committed n end) |},
         Some (n_committed n, verify_proof (pool_view c n) ib pd))
    end.

  (** answers of a node history; each with the state committed when the question was asked (the
      state at the end of the previous block) *)
  Fixpoint pool_run (c : pcfg) (n : node) (evs : list pevent) : list (option (pstate * vres)) :=
    match evs with
    | [] => []
    | e :: t => let '(n', a) := pool_step c n e in a :: pool_run c n' t
    end.

  (** the specification of the pool without any memory: every question is answered from the state
      committed by the last block before it *)
  Fixpoint pool_spec (cur : pstate) (evs : list pevent) : list (option (pstate * vres)) :=
    match evs with
    | [] => []
    | PCommit st :: t => None :: pool_spec st t
    | PRestart :: t => None :: pool_spec cur t
    | PCheck ib pd :: t => Some (cur, verify_proof cur ib pd) :: pool_spec cur t
    end.

  (** the state committed at the end of the last block before event [i] *)
  Fixpoint committed_at (cur : pstate) (evs : list pevent) (i : nat) : pstate :=
    match i, evs with
    | S j, PCommit st :: t => committed_at st t j
    | S j, _ :: t => committed_at cur t j
    | _, _ => cur
    end.

  (** ---------------------------------------------------------------------------------- *)
  (** the two stages of the executor.  Blocks handed over by consensus enter a pipeline
      ([ExecuteBlock] -> preBlockC -> signature stage -> blockC -> execution stage); several
      blocks can be queued when consensus is faster than execution (batch delivery, catch-up).
      A block is its list of questions (the IBTP transactions with their proofs) and the state it
      commits.  The code as it stands asks the pool in the EXECUTION stage, after every earlier
      block has committed; [d_verify_at_enqueue] (mutation class, [false] for the code as it
      stands): the questions are answered when the block ENTERS the pipeline, from whatever
      state is committed at that moment. *)
  Record qcfg := { d_verify_at_enqueue : bool }.
  Record qblock := { qb_checks : list (ibtp * proofdata); qb_after : pstate }.
  Inductive qevent := QEnqueue (b : qblock) | QExecute.
  Record qnode := { q_committed : pstate; q_queue : list (qblock * list vres) }.

  Definition answers_of (st : pstate) (b : qblock) : list vres :=
    map (fun q : ibtp * proofdata => verify_proof st (fst q) (snd q)) (qb_checks b).

  Definition q_step (c : qcfg) (n : qnode) (e : qevent) : qnode * option (pstate * list vres) :=
    match e with
    | QEnqueue b =>
        ({| q_committed := q_committed n; q_queue := q_queue n ++ [(b, answers_of (q_committed n) b)] |}, None)
    | QExecute =>
        match q_queue n with
        | [] => (n, None)
        | (b, early) :: t =>
            ({| q_committed := qb_after b; q_queue := t |},
             Some (q_committed n, if d_verify_at_enqueue c then early else answers_of (q_committed n) b))
        end
    end.

  (** the answers of the executed blocks, in execution order, each with the state committed by the
      block executed before it *)
  Fixpoint q_run (c : qcfg) (n : qnode) (evs : list qevent) : list (pstate * list vres) :=
    match evs with
    | [] => []
    | e :: t => let '(n', a) := q_step c n e in
                match a with Some x => x :: q_run c n' t | None => q_run c n' t end
    end.

  (** lock-step execution of a list of blocks: every block is verified against the state committed
      by its predecessor *)
  Fixpoint lockstep (cur : pstate) (bs : list qblock) : list (pstate * list vres) :=
    match bs with
    | [] => []
    | b :: t => (cur, answers_of cur b) :: lockstep (qb_after b) t
    end.

  (** the blocks a history of pipeline events executes, in order (queue discipline only) *)
  Fixpoint executed (q : list qblock) (evs : list qevent) : list qblock :=
    match evs with
    | [] => []
    | QEnqueue b :: t => executed (q ++ [b]) t
    | QExecute :: t => match q with [] => executed [] t | b :: r => b :: executed r t end
    end.

  (** ---------------------------------------------------------------------------------- *)
  (** a verdict cache in the pool (mutation class [d_verdict_cache], [false] for the code as it
      stands: the pool's [proofs] map is never consulted).  The cache key is (address of the bound
      rule, NAME of the IBTP = from-to-index, hash of the proof) - neither the IBTP's content nor
      the chain / trust root the rule was evaluated for.  [cn_cache] is node-local memory, lost by a
      restart.  An IBTP is given with its name; [ib_id] stands for its whole content. *)
  Record ccfg := { d_verdict_cache : bool }.
  Inductive cevent := CCommit (st : pstate) | CRestart | CCheck (ib : ibtp) (name : N) (pd : proofdata).
  Record cnode := { cn_state : pstate; cn_cache : list (N * N * N) }.

  Definition cache_key (st : pstate) (ib : ibtp) (name : N) (pd : proofdata) : option (N * N * N) :=
    match pd, master_rule st (snd (origin ib)) with
    | PdBytes p _, Some r => Some (r_addr r, name, H p)
    | _, _ => None
    end.

  Definition key_eqb3 (a b : N * N * N) : bool :=
    (fst (fst a) =? fst (fst b)) && (snd (fst a) =? snd (fst b)) && (snd a =? snd b).

  Definition c_step (c : ccfg) (n : cnode) (e : cevent) : cnode * option vres :=
    match e with
    | CCommit st => ({| cn_state := st; cn_cache := cn_cache n |}, None)
    | CRestart => ({| cn_state := cn_state n; cn_cache := [] |}, None)
    | CCheck ib name pd =>
        let k := cache_key (cn_state n) ib name pd in
        let hit := match k with Some key => existsb (key_eqb3 key) (cn_cache n) | None => false end in
        let v := if d_verdict_cache c && hit then VOk else verify_proof (cn_state n) ib pd in
        ({| cn_state := cn_state n;
            cn_cache := match k, v with Some key, VOk => key :: cn_cache n | _, _ => cn_cache n end |}, Some v)
    end.

  Fixpoint c_run (c : ccfg) (n : cnode) (evs : list cevent) : list (option vres) :=
    match evs with
    | [] => []
    | e :: t => let '(n', a) := c_step c n e in a :: c_run c n' t
    end.

  (** without memory: every answer is the verdict function applied to the committed state *)
  Fixpoint c_spec (cur : pstate) (evs : list cevent) : list (option vres) :=
    match evs with
    | [] => []
    | CCommit st :: t => None :: c_spec st t
    | CRestart :: t => None :: c_spec cur t
    | CCheck ib _ pd :: t => Some (verify_proof cur ib pd) :: c_spec cur t
    end.
End Oracles.

(** ------------------------------------------------------------------------------------ *)
(** entry points: how an IBTP can reach [InterchainManager.HandleIBTP]'s processing.

    Node-local state: [cache_init] - the [ServiceCache] field of the registered (shared,
    in-memory) InterchainManager object; nil after start, set by the exported
    [InitServiceCache]; lost by a restart.

    Flags (faithful when [true]):
    - [d_init_cache_exported]: any account can invoke [InitServiceCache] by name (the method
      runs, mutates the shared object, then the call "fails" for lack of a result);
    - [d_open_handle_data]: [HandleIBTPData(bytes)] has no caller check and no proof check;
    - [d_open_emit]: [InterBroker.EmitInterchain] lets the caller choose [fromServiceId]. *)
Record ecfg := { d_init_cache_exported : bool; d_open_handle_data : bool; d_open_emit : bool }.
Definition ecfg_fixed := {| d_init_cache_exported := false; d_open_handle_data := false; d_open_emit := false |}.
Definition ecfg_faithful := {| d_init_cache_exported := true; d_open_handle_data := true; d_open_emit := true |}.

Inductive entry_op :=
| EIbtpTx (verified : bool) (handles : bool)   (* IBTP transaction; [handles]: the contract accepts it (index, availability) *)
| EHandleData (handles : bool)                 (* plain BVM invocation of HandleIBTPData with a proof-less IBTP *)
| EEmit (handles : bool)                       (* plain BVM invocation of InterBroker.EmitInterchain *)
| EInitCache
| ERestart.

(** result of one step: (receipt SUCCESS?, an IBTP was processed) *)
Definition entry_step (c : ecfg) (cache_init : bool) (op : entry_op) : bool * (bool * bool) :=
  match op with
  | EIbtpTx v h => (cache_init, (v && h, v && h))      (* the IBTP path builds its own contract object *)
  | EHandleData h =>
      if d_open_handle_data c && cache_init then (cache_init, (h, h)) else (cache_init, (false, false))
  | EEmit h =>
      if d_open_emit c && cache_init then (cache_init, (h, h)) else (cache_init, (false, false))
  | EInitCache => (cache_init || d_init_cache_exported c, (false, false))
  | ERestart => (false, (true, false))
  end.

Fixpoint entry_run (c : ecfg) (cache_init : bool) (ops : list entry_op) : list (bool * bool) :=
  match ops with
  | [] => []
  | op :: r => let '(ci, out) := entry_step c cache_init op in out :: entry_run c ci r
  end.

(** the property: an IBTP is processed only by a proof-verified IBTP transaction *)
Definition entry_ok (op : entry_op) (out : bool * bool) : bool :=
  negb (snd out) || match op with EIbtpTx true _ => true | _ => false end.

Fixpoint entries_ok (ops : list entry_op) (outs : list (bool * bool)) : bool :=
  match ops, outs with
  | [], [] => true
  | op :: r, o :: t => entry_ok op o && entries_ok r t
  | _, _ => false
  end.

(** ------------------------------------------------------------------------------------ *)
(** concrete oracles used by the judge (the drivers realise exactly these):
    - [H]: proof bytes are named by numbers, the committed hash is compared by name;
    - rules: 1 HappyRule (always true), 2 Fabric rule fed junk (error), 3 SimFabric rule (content-sensitive, see below),
      4 the first-byte rule (true iff the proof id is odd), anything else: no such rule (error);
    - signatures: s = 4 * signer + k; k = 0 genuine over the digest, k = 1 undecodable,
      k = 2 genuine over another digest (recovers to an unrelated address). *)
Definition c_H (p : N) : N := p.
Definition c_digest (i s : N) : N := 8 * i + s.
Definition c_rule (r chain p i trust : N) : option bool :=
  if r =? 1 then Some true
  else if r =? 4 then Some (N.odd p)
  else if r =? 3 then
    (* SimFabric rule with really endorsed proofs: proof 2000000 + 1000 * k + _ endorses the
       out-message (index, function, arguments) numbered k; an IBTP's content number is id / 1000.
       Anything else fed to the rule is junk (error). *)
    if (2000000 <=? p) && ((p - 2000000) / 1000 =? i / 1000) then Some true else None
  else None.
Definition c_recover (s d : N) : option N :=
  match s mod 4 with
  | 0 => Some (s / 4)
  | 2 => Some (1000000 + s / 4)
  | _ => None
  end.

Definition c_verify := verify_proof c_H c_digest c_rule c_recover.

(** "the CURRENT MASTER rule accepts": the rule carrying the Master flag in the chain's rule list
    (not the selection function of the proof pool) is AVAILABLE (a logged-out chain keeps the flag
    on its unbound rule) and answers true on these bytes.  Used as the
    property predicate on implementation traces: an accepted locally-originated IBTP must satisfy it. *)
Definition master_accepts (st : pstate) (ib : ibtp) (pd : proofdata) : bool :=
  let '(b, c) := origin ib in
  match pd, ps_chains st c, find r_master (ps_rules st c) with
  | PdBytes p _, Some app, Some r =>
      (c_H p =? ib_proofhash ib) && r_available r &&
      match c_rule (r_addr r) c p (ib_id ib) (a_trust app) with Some true => true | _ => false end
  | _, _, _ => false
  end.

Definition is_local (bxh : N) (ib : ibtp) : bool := fst (origin ib) =? bxh.

(** judge: one block; per transaction optionally the proof description of the IBTP it carries *)
Record pdesc := {
  pd_chains : list (N * appchain);
  pd_rules : list (N * list rule);
  pd_ibtp : ibtp;
  pd_proof : proofdata
}.

Definition pstate_of (bxh : N) (d : pdesc) : pstate :=
  {| ps_bxh := bxh;
     ps_chains := fun c => alookup N.eqb c (pd_chains d);
     ps_rules := fun c => match alookup N.eqb c (pd_rules d) with Some l => l | None => [] end |}.

Record pcase := {
  pc_bxh : N;
  pc_descs : list (option pdesc);      (* one per transaction of [pc_frame] *)
  pc_frame : xcase                     (* the block; [c_invalid] of IBTP transactions is recomputed *)
}.

Definition verdict_of (bxh : N) (d : option pdesc) : option vres :=
  match d with
  | None => None
  | Some x => Some (c_verify (pstate_of bxh x) (pd_ibtp x) (pd_proof x))
  end.

Definition with_invalid (t : ctx) (v : option vres) : ctx :=
  match v with
  | None => t
  | Some r => {| c_from := c_from t; c_nonce := c_nonce t; c_body := c_body t;
                 c_invalid := c_invalid t || negb (vres_ok r) |}
  end.

Fixpoint map2 {A B C} (f : A -> B -> C) (a : list A) (b : list B) : list C :=
  match a, b with x :: t, y :: u => f x y :: map2 f t u | _, _ => [] end.

Definition frame_of (k : pcase) : xcase :=
  let vs := map (verdict_of (pc_bxh k)) (pc_descs k) in
  let f := pc_frame k in
  {| xc_cfgs := xc_cfgs f; xc_env := xc_env f; xc_keys := xc_keys f; xc_bals := xc_bals f;
     xc_nonces := xc_nonces f; xc_pre := xc_pre f; xc_txs := map2 with_invalid (xc_txs f) vs;
     xc_recs := xc_recs f; xc_okeys := xc_okeys f; xc_obals := xc_obals f; xc_ononces := xc_ononces f;
     xc_ocnt := xc_ocnt f; xc_other := xc_other f; xc_warm := xc_warm f; xc_posted := xc_posted f; xc_meta := xc_meta f |}.

(** the property on the implementation's trace: a SUCCESS receipt of an IBTP transaction implies
    a verified proof *)
Definition p_verified_b (k : pcase) : bool :=
  forallb (fun p : option vres * bool => match fst p with Some v => negb (snd p) || vres_ok v | None => true end)
          (combine (map (verdict_of (pc_bxh k)) (pc_descs k)) (xc_recs (pc_frame k))).

(** ... and, for a locally originated IBTP, that the current MASTER rule accepts *)
Definition p_master_b (k : pcase) : bool :=
  forallb (fun p : option pdesc * bool =>
             match fst p with
             | Some d => negb (snd p) || negb (is_local (pc_bxh k) (pd_ibtp d)) ||
                         master_accepts (pstate_of (pc_bxh k) d) (pd_ibtp d) (pd_proof d)
             | None => true
             end)
          (combine (pc_descs k) (xc_recs (pc_frame k))).

Definition judge_proof (k : pcase) : verdict :=
  if negb (Nat.eqb (List.length (pc_descs k)) (List.length (xc_txs (pc_frame k)))) then V_domain 0
  else if negb (p_master_b k) then V_propfalse 600
  else if negb (p_verified_b k) then V_propfalse 500
  else judge_frame (frame_of k).

(** judge for whole node histories of the proof pool (commits = the appchain / rule records as
    read back or seeded at the end of each block, restarts, questions with the observed answer
    "accepted?").  First the property on the implementation's answers: an accepted locally
    originated IBTP is accepted by the MASTER rule bound in the state committed by the previous
    block; then the answers must be those of [pool_run] under one of the configurations. *)
Inductive hev :=
| HCommit (chains : list (N * appchain)) (rules : list (N * list rule))
| HRestart
| HCheck (ib : ibtp) (pd : proofdata) (accepted : bool).

Record hcase := { hc_bxh : N; hc_snapshot : bool; hc_memo : list bool; hc_evs : list hev }.

Definition hstate (bxh : N) chains rules : pstate :=
  pstate_of bxh {| pd_chains := chains; pd_rules := rules;
                   pd_ibtp := {| ib_id := 0; ib_from_bxh := 0; ib_from_chain := 0; ib_to_bxh := 0; ib_to_chain := 0;
                                 ib_is_req := true; ib_proofhash := 0 |};
                   pd_proof := PdAbsent |}.

Definition hev_event (bxh : N) (e : hev) : pevent :=
  match e with
  | HCommit ch ru => PCommit (hstate bxh ch ru)
  | HRestart => PRestart
  | HCheck ib pd _ => PCheck ib pd
  end.

Definition hev_obs (e : hev) : option bool :=
  match e with HCheck _ _ a => Some a | _ => None end.

Definition empty_node (bxh : N) : node := {| n_committed := hstate bxh [] []; n_view := None |}.

Definition c_pool_run (c : pcfg) (k : hcase) :=
  pool_run c_H c_digest c_rule c_recover c (empty_node (hc_bxh k)) (map (hev_event (hc_bxh k)) (hc_evs k)).

(** property: computed with the committed states only (no pool, no memory) *)
Fixpoint p_pool_current_b (bxh : N) (cur : pstate) (evs : list hev) : bool :=
  match evs with
  | [] => true
  | HCommit ch ru :: t => p_pool_current_b bxh (hstate bxh ch ru) t
  | HRestart :: t => p_pool_current_b bxh cur t
  | HCheck ib pd a :: t =>
      (negb a || (if is_local bxh ib then master_accepts cur ib pd else vres_ok (c_verify cur ib pd)))
      && p_pool_current_b bxh cur t
  end.

Definition ans_eqb (m : option (pstate * vres)) (o : option bool) : bool :=
  match m, o with
  | None, None => true
  | Some (_, v), Some a => Bool.eqb (vres_ok v) a
  | _, _ => false
  end.

Definition pool_matches (m : bool) (k : hcase) : bool :=
  forallb (fun p : option (pstate * vres) * option bool => ans_eqb (fst p) (snd p))
          (combine (c_pool_run {| d_memo_view := m; snapshot_ledger := hc_snapshot k |} k) (map hev_obs (hc_evs k))).

Fixpoint hmatch_idx (ms : list bool) (k : hcase) (i : N) : N :=
  match ms with
  | [] => 0
  | m :: t => if pool_matches m k then i else hmatch_idx t k (N.succ i)
  end.

Definition judge_pool (k : hcase) : verdict :=
  if negb (p_pool_current_b (hc_bxh k) (n_committed (empty_node (hc_bxh k))) (hc_evs k)) then V_propfalse 700
  else let i := hmatch_idx (hc_memo k) k 1 in
       if i =? 0 then V_mismatch 0 else (0, i).

(** judge for the entry-point histories: observed (SUCCESS?, processed?) per step *)
Record ecase := { ec_cfgs : list ecfg; ec_ops : list entry_op; ec_obs : list (bool * bool) }.

Definition out_eqb (a b : bool * bool) : bool := Bool.eqb (fst a) (fst b) && Bool.eqb (snd a) (snd b).

Fixpoint ematch_idx (cs : list ecfg) (k : ecase) (i : N) : N :=
  match cs with
  | [] => 0
  | c :: t => if list_eqb out_eqb (entry_run c false (ec_ops k)) (ec_obs k) then i else ematch_idx t k (N.succ i)
  end.

Definition judge_entry (k : ecase) : verdict :=
  let i := ematch_idx (ec_cfgs k) k 1 in
  if negb (entries_ok (ec_ops k) (ec_obs k)) then V_propfalse (100 + i)
  else if i =? 0 then V_mismatch 0 else (0, i).

(** judge for the direct [CheckProof] differential (multi-signature counting with real secp256k1
    signatures in the driver).  The property on the implementation's answer is stated with an
    independent specification of "distinct registered validators with a valid signature":
    de-duplicated set arithmetic, no loop. *)
Definition valid_signers (vs sigs : list N) (d : N) : list N :=
  nodup N.eq_dec
    (filter (fun a => mem a vs)
            (flat_map (fun s => match c_recover s d with Some a => [a] | None => [] end) sigs)).

Definition vres_code (v : vres) : N := match v with VOk => 0 | VFalse => 1 | VErr _ => 2 end.

Definition judge_verify (k : N * pdesc * N) : verdict :=
  let '(bxh, d, obs) := k in
  let st := pstate_of bxh d in
  let ib := pd_ibtp d in
  let v := c_verify st ib (pd_proof d) in
  let remote := negb (fst (origin ib) =? bxh) in
  let enough :=
    match ps_chains st (fst (origin ib)), pd_proof d with
    | Some app, PdBytes _ (Some bp) =>
        match a_validators app with
        | Some vs => (Z.of_nat (List.length (valid_signers vs (bp_sigs bp) (c_digest (ib_id ib) (bp_status bp)))) >? threshold vs)%Z
        | None => false
        end
    | _, _ => false
    end in
  if (obs =? 0) && remote && negb enough then V_propfalse 1
  else if (obs =? 0) && negb remote && negb (master_accepts st ib (pd_proof d)) then V_propfalse 2
  else if vres_code v =? obs then V_ok else V_mismatch 0.
