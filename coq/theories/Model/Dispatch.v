(** Control skeleton of block execution with respect to totality (C08): which paths return a
    receipt, which Go panics are recovered ([BoltVM.Run], [BoltVM.HandleIBTP]) and which are not
    (executor goroutine, proof-verification goroutines, [evmInterchain]).  A panic outside a
    recover is [Crash]; a library call that does not return is [Hang].

    Reflection dispatch of [BoltVM.InvokeBVM] is modelled concretely: method lookup by name
    (promoted Stub methods included), [parseArgs], [reflect.Value.Call] panicking on arity / type
    mismatch, the assertion of the first result to a boltvm Response pointer.

    Defect flags (faithful behaviour when [true]):
    - [d_promoted_dispatch]: promoted Stub methods are dispatchable by name; [PostInterchainEvent]
      then posts an event that [applyTx] cannot decode -> [panic(err)] in the executor goroutine;
    - [d_evm_wipes_revisions]: [CrossInvokeEVM] calls [Finalise]/[ClearChangerAndRefund] inside the
      transaction, wiping the snapshot list; a later [RevertToSnapshot] (callee error or
      unaffordable fee) panics in the executor goroutine;
    - [d_checkproof_nil_err]: a rule that answers plain [false] makes [CheckProof] return
      [(false, nil)] and [verifyProofs] calls [err.Error()] on the nil error inside a goroutine;
    - [d_nil_validator]: a rule contract that cannot be instantiated yields a typed-nil validator,
      dereferenced inside the proof goroutine;
    - [d_evm_interchain_norecover]: [evmInterchain] calls [InvokeBVM] directly, not through [Run];
    - [d_code_revert_reenters]: undoing a CODE write calls the journaling setter while the changer's
      lock is held: a successful XVM deployment whose fee cannot be paid wedges the executor (Hang);
    - [d_nil_to] / [d_nil_from]: a funded native transfer with a nil To, resp. any transaction with
      a nil From, makes the ledger dereference the nil address in the executor goroutine (such
      transactions are refused by the API admission check, but not by block execution).
    Definitions only. *)
From Coq Require Import String.
From BX Require Import Base.Prelude Model.Sites.
Local Open Scope N_scope.

Inductive outcome (A : Type) := Ret (a : A) | Crash | Hang.
Arguments Ret {A} a.
Arguments Crash {A}.
Arguments Hang {A}.

Record dcfg := {
  d_promoted_dispatch : bool;
  d_evm_wipes_revisions : bool;
  d_checkproof_nil_err : bool;
  d_nil_validator : bool;
  d_evm_interchain_norecover : bool;
  d_nil_to : bool;
  d_nil_from : bool;
  d_code_revert_reenters : bool
}.
Definition dcfg_fixed : dcfg :=
  {| d_promoted_dispatch := false; d_evm_wipes_revisions := false; d_checkproof_nil_err := false;
     d_nil_validator := false; d_evm_interchain_norecover := false; d_nil_to := false; d_nil_from := false; d_code_revert_reenters := false |}.
Definition dcfg_faithful : dcfg :=
  {| d_promoted_dispatch := true; d_evm_wipes_revisions := true; d_checkproof_nil_err := true;
     d_nil_validator := true; d_evm_interchain_norecover := true; d_nil_to := true; d_nil_from := true; d_code_revert_reenters := true |}.

(** ------------------------------------------------------------------------------------ *)
(** reflection *)

(** an argument as it arrives in [pb.Arg]: declared type and whether its text parses *)
Inductive argv :=
| AStr | ABytes
| AU64 (parses : bool) | AI32 (parses : bool) | AI64 (parses : bool)
| ABool (parses : bool) | AF64 (parses : bool)
| AOtherType.              (* any other type tag: passed on as a string *)

Definition parse_arg (a : argv) : option pkind :=
  match a with
  | AStr => Some KStr
  | ABytes => Some KBytes
  | AU64 p => if p then Some KU64 else None
  | AI32 p => if p then Some KI32 else None
  | AI64 p => if p then Some KI64 else None
  | ABool p => if p then Some KBool else None
  | AF64 p => if p then Some KF64 else None
  | AOtherType => Some KStr
  end.

Fixpoint parse_args (l : list argv) : option (list pkind) :=
  match l with
  | [] => Some []
  | a :: t => match parse_arg a, parse_args t with
              | Some k, Some ks => Some (k :: ks)
              | _, _ => None
              end
  end.

Definition pkind_eqb (a b : pkind) : bool :=
  match a, b with
  | KStr, KStr | KBytes, KBytes | KU64, KU64 | KI32, KI32 | KI64, KI64
  | KBool, KBool | KF64, KF64 | KIface, KIface | KOther, KOther => true
  | _, _ => false
  end.

(** [reflect]: a value is accepted for a parameter of identical type or of type [interface{}] *)
Definition assignable (arg param : pkind) : bool :=
  match param with
  | KIface => true
  | KOther => false
  | _ => pkind_eqb arg param
  end.

Record msig := {
  ms_params : list pkind;      (* for a variadic method the last entry is the element type *)
  ms_variadic : bool;
  ms_response : bool;          (* exactly one result, of type *boltvm.Response *)
  ms_promoted : option stub_effect   (* Some e: promoted from the embedded Stub, with effect class e *)
}.

Fixpoint all2 (f : pkind -> pkind -> bool) (a b : list pkind) : bool :=
  match a, b with
  | [], [] => true
  | x :: t, y :: u => f x y && all2 f t u
  | _, _ => false
  end.

(** does [m.Call(args)] go through without a reflect panic *)
Definition call_shape (m : msig) (args : list pkind) : bool :=
  if ms_variadic m then
    match rev (ms_params m) with
    | [] => false
    | elem :: front_rev =>
        let front := rev front_rev in
        let n := List.length front in
        (n <=? List.length args)%nat &&
        all2 assignable (firstn n args) front &&
        forallb (fun a => assignable a elem) (skipn n args)
    end
  else all2 assignable args (ms_params m).

(** what the callee does once it runs (oracle: contract logic is not modelled here) *)
Inductive behaviour := BOk | BErr | BPanic | BUnknown.

Inductive bvm_call :=
| BcBadInvokePayload
| BcUnknownContract
| BcUnknownMethod
| BcCall (m : msig) (args : list argv) (beh : behaviour) (calls_evm : bool).

Inductive body :=
| BNilPayload
| BBadTxData                 (* TransactionData does not unmarshal *)
| BTransfer (sufficient : option bool)
| BWrongVm
| BXvm (ok : option bool)    (* wasm instantiate / run: returns a result or an error *)
| BXvmDeploy (ok : bool)     (* XVM deployment: module instantiates (code and nonce written) or not *)
| BBvm (c : bvm_call)
| BIbtp (beh : behaviour)
| BEth (evm_ok : bool) (interbroker_log : bool) (c : bvm_call)
| BUnknownTxType
| BNilTo                     (* funded native transfer with a nil To *)
| BNilFrom                   (* nil From *)
| BOpaque.                   (* bytes whose decoding is not predicted: decodes to one of the classes above *)

Inductive proofc :=
| PfNotIbtp | PfVerified | PfRejectedErr | PfRejectedFalse | PfValidatorNil
| PfLibPanic | PfLibHang.     (* library behaviour outside the inventory (excluded by hypothesis) *)

Record dtx := { dt_proof : proofc; dt_sig_ok : bool; dt_body : body; dt_fee_ok : bool }.

(** verification phase (signature goroutines, proof goroutines): [Ret invalid?] *)
Definition verify_one (c : dcfg) (t : dtx) : outcome bool :=
  match dt_proof t with
  | PfNotIbtp | PfVerified => Ret (negb (dt_sig_ok t))
  | PfRejectedErr => Ret true
  | PfRejectedFalse => if d_checkproof_nil_err c then Crash else Ret true
  | PfValidatorNil => if d_nil_validator c then Crash else Ret true
  | PfLibPanic => Crash
  | PfLibHang => Hang
  end.

Fixpoint verify_all (c : dcfg) (ts : list dtx) : outcome (list bool) :=
  match ts with
  | [] => Ret []
  | t :: r => match verify_one c t with
              | Ret i => match verify_all c r with
                         | Ret is => Ret (i :: is)
                         | Crash => Crash
                         | Hang => Hang
                         end
              | Crash => Crash
              | Hang => Hang
              end
  end.

Definition is_promoted (m : msig) : bool := match ms_promoted m with Some _ => true | None => false end.
Definition posts_undecodable_event (m : msig) : bool :=
  match ms_promoted m with Some SeEvent => true | _ => false end.
Definition promoted_evm (m : msig) : bool :=
  match ms_promoted m with Some SeEvm => true | _ => false end.

(** result of InvokeBVM under Run's recover:
    [ran]    the callee's code was entered (its effects exist)
    [ok]     Some true / Some false / None when the callee's own verdict is unknown *)
Definition invoke (c : dcfg) (bc : bvm_call) : bool * option bool :=
  match bc with
  | BcBadInvokePayload | BcUnknownContract | BcUnknownMethod => (false, Some false)
  | BcCall m args beh _ =>
      if is_promoted m && negb (d_promoted_dispatch c) then (false, Some false)
      else match parse_args args with
           | None => (false, Some false)
           | Some ks =>
               if negb (call_shape m ks) then (false, Some false)
               else if negb (ms_response m) then (true, Some false)
               else match beh with
                    | BOk => (true, Some true)
                    | BErr | BPanic => (true, Some false)
                    | BUnknown => (true, None)
                    end
           end
  end.

Definition call_wipes (c : dcfg) (bc : bvm_call) : bool :=
  match bc with
  | BcCall m _ _ evm => d_evm_wipes_revisions c && (evm || promoted_evm m)
  | _ => false
  end.

Definition call_bad_event (bc : bvm_call) : bool :=
  match bc with BcCall m _ _ _ => posts_undecodable_event m | _ => false end.

Definition and_fee (ok : option bool) (fee_ok : bool) : option bool :=
  match ok with
  | Some b => Some (b && fee_ok)
  | None => if fee_ok then None else Some false
  end.

(** one transaction: [Ret status] ([Some true] SUCCESS, [Some false] FAILED, [None] decided by
    contract logic that is not modelled) *)
Definition apply_dtx (c : dcfg) (invalid : bool) (t : dtx) : outcome (option bool) :=
  if invalid then Ret (Some false)
  else match dt_body t with
       | BNilPayload | BBadTxData | BWrongVm | BUnknownTxType => Ret (Some false)
       | BNilTo => if d_nil_to c then Crash else Ret (Some false)
       | BNilFrom => if d_nil_from c then Crash else Ret (Some false)
       | BOpaque => Ret None
       | BTransfer ok => Ret (and_fee ok (dt_fee_ok t))
       | BXvm ok => Ret (and_fee ok (dt_fee_ok t))
       | BXvmDeploy ok =>
           (* an unaffordable fee reverts the deployment, i.e. undoes a code write *)
           if ok && negb (dt_fee_ok t) && d_code_revert_reenters c then Hang
           else Ret (Some (ok && dt_fee_ok t))
       | BIbtp beh =>
           Ret (and_fee (match beh with BOk => Some true | BErr | BPanic => Some false | BUnknown => None end)
                        (dt_fee_ok t))
       | BBvm bc =>
           let '(ran, ok) := invoke c bc in
           let wiped := ran && call_wipes c bc in
           (* RevertToSnapshot after a callee error, or after an unaffordable fee *)
           if wiped && (match ok with Some true => negb (dt_fee_ok t) | Some false => true | None => true end)
           then (match ok with
                 | None => if dt_fee_ok t then Ret None else Crash
                 | _ => Crash
                 end)
           else if ran && call_bad_event bc then Crash
           else Ret (and_fee ok (dt_fee_ok t))
       | BEth evm_ok log bc =>
           if negb evm_ok then Ret (Some false)
           else if negb log then Ret (Some true)
           else
             (* evmInterchain -> InvokeBVM without recover *)
             let panics :=
               match bc with
               | BcCall m args beh _ =>
                   match parse_args args with
                   | None => false
                   | Some ks => negb (call_shape m ks) || negb (ms_response m) ||
                                match beh with BPanic => true | _ => false end
                   end
               | _ => false
               end in
             if panics && d_evm_interchain_norecover c then Crash
             else Ret (match snd (invoke c bc) with Some b => Some b | None => None end)
       end.

Fixpoint apply_all (c : dcfg) (invs : list bool) (ts : list dtx) : outcome (list (option bool)) :=
  match ts, invs with
  | [], _ => Ret []
  | t :: r, i :: is =>
      match apply_dtx c i t with
      | Ret x => match apply_all c is r with
                 | Ret xs => Ret (x :: xs)
                 | Crash => Crash
                 | Hang => Hang
                 end
      | Crash => Crash
      | Hang => Hang
      end
  | _ :: _, [] => Crash       (* unreachable: verify_all returns one flag per transaction *)
  end.

(** a block at height [h]: receipts in block order and the committed height *)
Definition exec_block (c : dcfg) (h : N) (ts : list dtx) : outcome (list (option bool) * N) :=
  match verify_all c ts with
  | Ret invs => match apply_all c invs ts with
                | Ret rs => Ret (rs, h + 1)
                | Crash => Crash
                | Hang => Hang
                end
  | Crash => Crash
  | Hang => Hang
  end.

(** library hypothesis: the rule engine, signature recovery, protobuf / JSON decoding return or
    panic only where the inventory says (they never panic or hang inside the proof goroutines) *)
Definition lib_ok (t : dtx) : Prop :=
  dt_proof t <> PfLibPanic /\ dt_proof t <> PfLibHang.
Definition lib_ok_b (t : dtx) : bool :=
  match dt_proof t with PfLibPanic | PfLibHang => false | _ => true end.

(** the receipt each transaction gets under the repaired behaviour, as a function of the
    transaction alone (so: one receipt per transaction, in block order) *)
Definition receipt_spec (t : dtx) : option bool :=
  let invalid := match dt_proof t with
                 | PfNotIbtp | PfVerified => negb (dt_sig_ok t)
                 | _ => true
                 end in
  match apply_dtx dcfg_fixed invalid t with Ret x => x | _ => Some false end.

(** ------------------------------------------------------------------------------------ *)
(** judge: one block of an implementation trace *)

Inductive dobs :=
| OCrash
| OHang
| OReceipts (rs : list bool) (height_plus_one : bool) (ordered : bool).

Record dcase := { dc_cfgs : list dcfg; dc_txs : list dtx; dc_obs : dobs }.

Fixpoint compat (m : list (option bool)) (o : list bool) : bool :=
  match m, o with
  | [], [] => true
  | Some b :: t, x :: u => Bool.eqb b x && compat t u
  | None :: t, _ :: u => compat t u
  | _, _ => false
  end.

Definition dmodel_matches (c : dcfg) (k : dcase) : bool :=
  match exec_block c 0 (dc_txs k), dc_obs k with
  | Crash, OCrash => true
  | Hang, OHang => true
  | Ret (rs, _), OReceipts o hp ord => compat rs o && hp && ord
  | _, _ => false
  end.

Fixpoint dmatch_idx (cs : list dcfg) (k : dcase) (i : N) : N :=
  match cs with
  | [] => 0
  | c :: t => if dmodel_matches c k then i else dmatch_idx t k (N.succ i)
  end.

(** the property on the implementation's own trace: no crash, no hang, one receipt per
    transaction in order, height + 1 *)
Definition total_b (k : dcase) : bool :=
  match dc_obs k with
  | OCrash | OHang => false
  | OReceipts o hp ord => (List.length o =? List.length (dc_txs k))%nat && hp && ord
  end.

Definition judge_dispatch (k : dcase) : verdict :=
  let i := dmatch_idx (dc_cfgs k) k 1 in
  if negb (total_b k) then V_propfalse (100 + i)
  else if i =? 0 then V_mismatch 0 else (0, i).
