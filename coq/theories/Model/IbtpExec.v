(** Block-level model of the IBTP part of [internal/executor/handle.go] /
    [serial_executor.go]: per-transaction apply with failed / valid classification, harvesting
    of interchain events into [InterchainMeta.Counter], [setTimeoutList], [getTimeoutIBTPsMap]
    ([TimeoutCounter]), [getMultiTxIBTPsMap] ([MultiTxCounter]) and [setTimeoutRollback].
    uint64 arithmetic is explicit where the code guards H+T.  Definitions only. *)
From BX Require Import Base.Prelude Base.Fsm Model.TxFsm Model.TxMgr Model.Interchain.
From Coq Require Import String.
Local Open Scope N_scope.

(** * operations of a block *)
Inductive op :=
| OIbtp (b : ibtp) (proof_ok : bool)     (* IBTP transaction; proof_ok = the proof pool accepts it *)
| OTransfer                              (* unrelated native transfer *)
| OCall (m a b c d : N).                 (* plain BVM call by an outsider, see the driver for m *)

(** [s_ph]: timeout keys that exist only in the node's account cache with the empty value: writing
    "" to a key that does not exist is skipped at commit (bytes.Equal(nil, "")) but the account
    cache keeps it, so the executing node sees the key until it restarts. *)
Record state := { s_tm : txm; s_ic : ichain; s_h : N; s_ph : N -> bool }.
Definition state_init : state := Build_state txm_init ichain_init 2 (fun _ => false).   (* genesis + seeding block *)

Definition res_ok (ret : N) : txres := Build_txres true 0 ret [] false.

Definition apply_call (cfg : Defects) (w : world) (st : state) (touched : bool) (m a b c d : N) : state * txres :=
  let ic := s_ic st in
  if m =? 1 then (st, if call_get_interchain ic a then res_ok 3 else res_err E_NO_INTERCHAIN)
  else if m =? 2 then
    let '(ic', e) := call_delete cfg w ic a touched in
    (Build_state (s_tm st) ic' (s_h st) (s_ph st), match e with Some e => res_err e | None => res_ok 0 end)
  else if m =? 3 then
    let '(ic', e) := call_register w ic a in
    (Build_state (s_tm st) ic' (s_h st) (s_ph st), match e with Some e => res_err e | None => res_ok 3 end)
  else if m =? 4 then (st, if call_get_ibtp ic (a, b, c) (negb (d =? 0)) then res_ok 3 else res_err E_NO_IBTP)
  else if m =? 5 then
    (* HandleIBTPData through the registered contract object: its service cache is nil *)
    (st, match svc_lookup w a, svc_lookup w b with
         | Some sf, Some sd =>
             if is_local sf then res_err E_OTHER
             else if negb (is_local sd) then res_err E_NOT_IN_BXH
             else if negb (hub_avail w (sv_hub sf)) then res_err E_SRC_HUB
             else res_err E_OTHER
         | _, _ => res_err E_PARSE
         end)
  else if (m =? 6) || (m =? 7) then (st, res_err E_TM_PERM)
  else if m =? 8 then
    (st, match tm_status_tx (s_tm st) (a, b, c) with Some _ => res_ok 3 | None => res_err E_NO_GLOBAL_ID end)
  else if m =? 9 then
    (* an IBTP transaction addressed to another contract: HandleIBTP runs in that contract's storage
       namespace, finds no bitxhub id there and fails while parsing the service ids *)
    (st, res_err E_PARSE)
  else (st, res_err E_NO_METHOD).

(** does the transaction create the interchain contract's account object in the ledger *)
Definition touches_ic (w : world) (o : op) : bool :=
  match o with
  | OIbtp b pok => pok && match svc_lookup w (b_from b) with Some _ => true | None => false end
  | OCall m a _ _ _ => (1 <=? m) && (m <=? 4) || ((m =? 5) && match svc_lookup w a with Some _ => true | None => false end)
  | OTransfer => false
  end.

(** one transaction at index [i] of block [h] *)
Definition apply_op (cfg : Defects) (w : world) (h i : N) (touched : bool) (st : state) (o : op) : option (state * txres) :=
  match o with
  | OTransfer => Some (st, res_ok 0)
  | OCall m a b c d => Some (apply_call cfg w st touched m a b c d)
  | OIbtp b pok =>
      if negb pok then Some (st, res_err E_PROOF)
      else match handle_ibtp cfg w h (1000 * h + i) b (s_tm st) (s_ic st) with
           | Some (t, c, r) => Some (Build_state t c (s_h st) (s_ph st), r)
           | None => None
           end
  end.

Fixpoint apply_ops (cfg : Defects) (w : world) (h i : N) (touched : bool) (st : state) (ops : list op)
  : option (state * list txres) :=
  match ops with
  | [] => Some (st, [])
  | o :: r =>
      match apply_op cfg w h i touched st o with
      | None => None
      | Some (st1, res) =>
          match apply_ops cfg w h (i + 1) (touched || touches_ic w o) st1 r with
          | None => None
          | Some (st2, rs) => Some (st2, res :: rs)
          end
      end
  end.

(** * [setTimeoutList] *)
Definition hmap := list (N * list tok).
Fixpoint hmap_add (hh : N) (x : tok) (m : hmap) : hmap :=
  match m with
  | [] => [(hh, [x])]
  | (k, l) :: r => if k =? hh then (k, l ++ [x]) :: r else (k, l) :: hmap_add hh x r
  end.

Inductive stl := StlAbort | StlMaps (adds removes : hmap).

(** is the transaction skipped as invalid / begin-failed (filterValidTx) *)
Definition tx_skipped (r : txres) : bool := negb (r_ok r) || (r_ret r =? 2) || (r_ret r =? 1).

Definition to_remote_hub (w : world) (b : ibtp) : bool :=
  match svc_lookup w (b_from b), svc_lookup w (b_to b) with
  | Some sf, Some sd => is_local sf && negb (is_local sd)
  | _, _ => false
  end.

Definition stl_step (cfg : Defects) (w : world) (fin : txm) (h : N) (acc : stl) (o : op) (r : txres) : stl :=
  match acc, o with
  | StlAbort, _ => StlAbort
  | StlMaps adds rems, OIbtp b _ =>
      if (match b_grp b with Some _ => true | None => false end)
         && (is_request b || d_receipt_group_skip cfg) then acc
      else
          if tx_skipped r then acc
          else if is_request b then
            if (b_T b <=? 0)%Z || (MAXU64 - h <=? u64_of_Z (b_T b)) then acc
            else if to_remote_hub w b && negb (d_interhub_timeout cfg) then acc
            else StlMaps (hmap_add (h + u64_of_Z (b_T b)) (TTx (b_id b)) adds) rems
          else if is_response b then
            match tm_rec fin (b_id b) with
            | None => match tm_child fin (b_id b) with Some _ => acc | None => StlAbort end
            | Some (hh, st) =>
                if d_timeout_keeps_failed cfg && (b_typ b =? 2) && (st =? ST_FAILURE) then acc
                else StlMaps adds (hmap_add hh (TTx (b_id b)) rems)
            end
          else acc
  | _, _ => acc
  end.

Fixpoint stl_fold (cfg : Defects) (w : world) (fin : txm) (h : N) (acc : stl) (ops : list op) (rs : list txres) : stl :=
  match ops, rs with
  | o :: ops', r :: rs' => stl_fold cfg w fin h (stl_step cfg w fin h acc o r) ops' rs'
  | _, _ => acc
  end.

Definition apply_adds (t : txm) (adds : hmap) : txm :=
  fold_left (fun t p => set_tl t (fst p) (tl_write (tm_tl t (fst p)) (snd p))) adds t.

Fixpoint remove_all (ids : list tok) (l : list tok) : option (list tok) :=
  match ids with
  | [] => Some l
  | x :: r => match tl_remove x l with Some l' => remove_all r l' | None => None end
  end.
Definition apply_removes (t : txm) (rems : hmap) : option txm :=
  fold_left (fun ot p =>
               match ot with
               | None => None
               | Some t =>
                   let cur := match tm_tl t (fst p) with Some l => l | None => [TEmpty] end in
                   match remove_all (snd p) cur with
                   | Some l => Some (set_tl t (fst p) (tl_norm l))
                   | None => None
                   end
               end) rems (Some t).

Definition set_timeout_list (cfg : Defects) (w : world) (t : txm) (h : N) (ops : list op) (rs : list txres) : option txm :=
  match stl_fold cfg w t h (StlMaps [] []) ops rs with
  | StlAbort => Some t
  | StlMaps adds rems => apply_removes (apply_adds t adds) rems
  end.

(** * expiry *)
Definition get_timeout_list (t : txm) (h : N) : list tok :=
  match tm_tl t h with
  | None => []
  | Some (TEmpty :: _) => []
  | Some l => l
  end.

Definition cmap := N -> list txid.
Definition cmap_add (m : cmap) (k : N) (i : txid) : cmap := upd N.eqb m k (m k ++ [i]).

Fixpoint sort_kids (w : world) (l : list (txid * N)) : list (txid * N) :=
  match l with
  | [] => []
  | p :: r =>
      (fix ins (x : txid * N) (s : list (txid * N)) : list (txid * N) :=
         match s with
         | [] => [x]
         | y :: t => if id_leb w (fst x) (fst y) then x :: s else y :: ins x t
         end) p (sort_kids w r)
  end.

(** [getTimeoutIBTPsMap] (children of a group in the textual order of their ids) *)
Fixpoint timeout_map (w : world) (t : txm) (l : list tok) (m : cmap) : option cmap :=
  match l with
  | [] => Some m
  | TEmpty :: _ => None
  | TTx i :: r => timeout_map w t r (cmap_add m (chain_of w (fst (fst i))) i)
  | TGid g :: r =>
      match tm_glob t g with
      | None => None
      | Some gi =>
          let m' := fold_left (fun m p =>
                                 let i := fst p in
                                 let m1 := cmap_add m (chain_of w (fst (fst i))) i in
                                 if is_final (snd p) then cmap_add m1 (chain_of w (snd (fst i))) i else m1)
                              (sort_kids w (g_children gi)) m in
          timeout_map w t r m'
      end
  end.

(** [setTimeoutRollback] *)
Fixpoint timeout_rollback (t : txm) (h : N) (l : list tok) : option txm :=
  match l with
  | [] => Some t
  | TEmpty :: _ => None
  | TTx i :: r => timeout_rollback (set_rec t i (h, ST_BEGIN_ROLLBACK)) h r
  | TGid g :: r =>
      match tm_glob t g with
      | None => None
      | Some gi =>
          timeout_rollback (set_glob t g (Build_ginfo ST_BEGIN_ROLLBACK (g_height gi)
                                            (children_all ST_BEGIN_ROLLBACK (g_children gi)) (g_count gi))) h r
      end
  end.

(** * what a block produces *)
Record bmeta := {
  m_res : list txres;
  m_timeout : cmap;          (* TimeoutCounter *)
  m_multi : cmap             (* MultiTxCounter *)
}.

Definition exec_block (cfg : Defects) (w : world) (st : state) (ops : list op) : option (state * bmeta) :=
  let h := wrap64 (s_h st + 1) in
  match apply_ops cfg w h 0 false st ops with
  | None => None
  | Some (st1, rs) =>
      match set_timeout_list cfg w (s_tm st1) h ops rs with
      | None => None
      | Some t2 =>
          let l := get_timeout_list t2 h in
          match timeout_map w t2 l (fun _ => []) with
          | None => None
          | Some tmap =>
              let mm := get_multi (s_ic st1) h in
              match timeout_rollback t2 h l with
              | None => None
              | Some t3 =>
                  let ph' := fun x => tl_is_empty_str (match tm_tl t3 x with Some l => l | None => [] end)
                                      && (match tm_tl (s_tm st) x with None => true | Some _ => false end || s_ph st x) in
                  Some (Build_state t3 (s_ic st1) h ph', Build_bmeta rs tmap mm)
              end
          end
      end
  end.

(** a history: blocks and restarts *)
Inductive item := IBlock (ops : list op) | IRestart.

(** * observations (the projection printed by the driver after every block) *)
Record query := {
  q_ids : list txid;
  q_gids : list gid;
  q_hs : list N;
  q_nsvc : N                  (* services 1..q_nsvc *)
}.

Record bobs := {
  o_rc : list (N * N * N);                         (* ok, error class, return class *)
  o_cnt : list (N * list (N * N * N));             (* chain, [(tx index, valid, batch)] *)
  o_to : list (N * list tok);                      (* TimeoutCounter *)
  o_mt : list (N * list tok);                      (* MultiTxCounter *)
  o_tr : bool;                                     (* TimeoutRoot non-zero *)
  o_st : list (option N);                          (* GetStatus of q_ids then q_gids *)
  o_ix : list (option N * option N);               (* GetIBTPByID request / receipt: serial *)
  o_ch : list (option (N * N * N * list (txid * N)));   (* global state, height, count, children sorted *)
  o_ic : list (option (list (svc * (N * N * N * N))));  (* per service: non-zero rows other, IC RC SIC SRC *)
  o_tl : list (option (list tok))                  (* timeout-<h> for q_hs *)
}.

Definition chain_keys : list N := [0; 1; 2; 3; 4; 5; 6; 7; 8; 98; 99].
Fixpoint seqN (from : N) (n : nat) : list N :=
  match n with O => [] | S k => from :: seqN (from + 1) k end.

Definition cmap_obs (m : cmap) : list (N * list tok) :=
  flat_map (fun k => match m k with [] => [] | l => [(k, map TTx l)] end) chain_keys.

Definition counter_obs (rs : list txres) : list (N * list (N * N * N)) :=
  flat_map (fun k =>
              let l := flat_map (fun p : N * txres =>
                                   if r_ok (snd p) && existsb (N.eqb k) (r_chains (snd p))   (* a FAILED transaction delivers nothing *)
                                   then [(fst p, 1, if r_batch (snd p) then 1 else 0)] else [])
                                (combine (seqN 0 (List.length rs)) rs) in
              match l with [] => [] | _ => [(k, l)] end) chain_keys.

Definition ic_rows (n : N) (r : icrec) : list (svc * (N * N * N * N)) :=
  flat_map (fun k =>
              let v := (ic_IC r k, ic_RC r k, ic_SIC r k, ic_SRC r k) in
              if (ic_IC r k =? 0) && (ic_RC r k =? 0) && (ic_SIC r k =? 0) && (ic_SRC r k =? 0) then [] else [(k, v)])
           (seqN 1 (N.to_nat n)).

Definition observe (w : world) (q : query) (st : state) (bm : bmeta) : bobs :=
  let t := s_tm st in
  let c := s_ic st in
  Build_bobs
    (map (fun r => (if r_ok r then 1 else 0, r_err r, r_ret r)) (m_res bm))
    (counter_obs (m_res bm))
    (cmap_obs (m_timeout bm))
    (cmap_obs (m_multi bm))
    (match cmap_obs (m_timeout bm) with [] => false | _ => true end)
    (map (tm_status_tx t) (q_ids q) ++ map (tm_status_gid t) (q_gids q))
    (map (fun i => (i_req c i, i_rcpt c i)) (q_ids q))
    (map (fun g => match tm_glob t g with
                   | Some gi => Some (g_state gi, g_height gi, g_count gi, sort_kids w (g_children gi))
                   | None => None
                   end) (q_gids q))
    (map (fun k => match i_rec c k with Some r => Some (ic_rows (q_nsvc q) r) | None => None end)
         (seqN 1 (N.to_nat (q_nsvc q))))
    (map (fun x => if s_ph st x then None else tm_tl t x) (q_hs q)).

(** a restart drops the account cache: keys that only lived there vanish *)
Definition restart (st : state) : state :=
  Build_state (Build_txm (tm_rec (s_tm st)) (tm_glob (s_tm st)) (tm_child (s_tm st))
                         (fun x => if s_ph st x then None else tm_tl (s_tm st) x))
              (s_ic st) (s_h st) (fun _ => false).

(** run a history; [None] = outside the modelled domain at some block *)
Fixpoint run (cfg : Defects) (w : world) (q : query) (st : state) (items : list item) : option (list bobs) :=
  match items with
  | [] => Some []
  | IRestart :: r => run cfg w q (restart st) r
  | IBlock ops :: r =>
      match exec_block cfg w st ops with
      | None => None
      | Some (st', bm) =>
          match run cfg w q st' r with
          | Some l => Some (observe w q st' bm :: l)
          | None => None
          end
      end
  end.
