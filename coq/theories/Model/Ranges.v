(** Model of [pkg/order/syncer/state_syncer.go: calcRangeHeight] with explicit uint64
    wrap-around.  Definitions only. *)
From BX Require Import Base.Prelude.
Local Open Scope N_scope.

Inductive ranges_result :=
| RErr                       (* begin > end: the Go function returns an error *)
| ROutOfFuel                 (* the loop did not finish within the fuel given *)
| ROk (rs : list (N * N)).

(** one Go loop iteration: [begin <= end] is checked by the caller *)
Definition range_end (fetch end_ startNo : N) : N :=
  let re0 := wrap64 (wrap64 (startNo + 1) * fetch) in
  if end_ <? re0 then end_ else re0.

Fixpoint ranges_loop (fuel : nat) (fetch begin end_ startNo : N) : option (list (N * N)) :=
  if end_ <? begin then Some []
  else match fuel with
       | O => None
       | S k =>
           let re := range_end fetch end_ startNo in
           match ranges_loop k fetch (wrap64 (re + 1)) end_ (wrap64 (startNo + 1)) with
           | Some l => Some ((begin, re) :: l)
           | None => None
           end
       end.

Definition calc_ranges (fuel : nat) (fetch begin end_ : N) : ranges_result :=
  if end_ <? begin then RErr
  else match ranges_loop fuel fetch begin end_ (begin / fetch) with
       | Some l => ROk l
       | None => ROutOfFuel
       end.

(** The property as a predicate on the produced list: the ranges are non-empty,
    ascending, pairwise disjoint, contiguous, start at [b] and end at [e]. *)
Fixpoint chain (b e : N) (rs : list (N * N)) : Prop :=
  match rs with
  | [] => b = e + 1
  | (x, y) :: t => x = b /\ b <= y /\ y <= e /\ chain (y + 1) e t
  end.

Fixpoint chain_b (b e : N) (rs : list (N * N)) : bool :=
  match rs with
  | [] => b =? e + 1
  | (x, y) :: t => (x =? b) && (b <=? y) && (y <=? e) && chain_b (y + 1) e t
  end.

(** every height of [b..e] lies in exactly one range: stated through membership count *)
Definition in_range (h : N) (r : N * N) : bool := (fst r <=? h) && (h <=? snd r).
Definition cover_count (h : N) (rs : list (N * N)) : nat :=
  length (filter (in_range h) rs).

(** ** The repaired loop ([fix:] commit in /repo): the next multiple of [fetch] is used only when it
    fits into uint64 and lies below [end]; the loop stops as soon as a range ends at [end], so
    [begin] never wraps around.  uint64 arithmetic explicit as above. *)
Definition range_end_fx (fetch end_ startNo : N) : N :=
  let n := wrap64 (startNo + 1) in
  if n =? 0 then end_
  else let next := wrap64 (n * fetch) in
       if (next / fetch =? n) && (next <? end_) then next else end_.

Fixpoint ranges_loop_fx (fuel : nat) (fetch begin end_ startNo : N) : option (list (N * N)) :=
  if end_ <? begin then Some []
  else match fuel with
       | O => None
       | S k =>
           let re := range_end_fx fetch end_ startNo in
           if re =? end_ then Some [(begin, re)]
           else match ranges_loop_fx k fetch (wrap64 (re + 1)) end_ (wrap64 (startNo + 1)) with
                | Some l => Some ((begin, re) :: l)
                | None => None
                end
       end.

Definition calc_ranges_fx (fuel : nat) (fetch begin end_ : N) : ranges_result :=
  if end_ <? begin then RErr
  else match ranges_loop_fx fuel fetch begin end_ (begin / fetch) with
       | Some l => ROk l
       | None => ROutOfFuel
       end.

(** [wrap = true]: the loop as it was (listed finding C20-ranges-overflow); [false]: the repaired loop *)
Definition calc_ranges_d (wrap : bool) := if wrap then calc_ranges else calc_ranges_fx.

(** correspondence judge: [obs] is what the implementation returned
    (None = error, Some rs = ranges); fuel is supplied by the harness *)
Definition rr_eqb (a : N * N) (b : N * N) : bool := (fst a =? fst b) && (snd a =? snd b).

Definition judge_ranges (c : bool * (N * N * N) * nat * option (list (N * N))) : verdict :=
  let '(wrap, (fetch, b, e), fuel, obs) := c in
  (* the property predicate on the implementation's own answer *)
  let p_impl := match obs with
                | None => e <? b                 (* refusing is right exactly when begin > end *)
                | Some o => (b <=? e) && chain_b b e o
                end in
  if negb p_impl then V_propfalse 0
  else match calc_ranges_d wrap fuel fetch b e, obs with
       | RErr, None => V_ok
       | ROk m, Some o =>
           match first_diff rr_eqb m o 0 with
           | Some i => V_mismatch i
           | None => V_ok
           end
       | ROutOfFuel, _ => V_domain 0
       | _, _ => V_mismatch 0
       end.

(** ** SyncCFTBlocks: one fetch request per range, in order; an honest peer answers a request (x,y) with the
    blocks x..y; every block is pushed to the consumer in arrival order. *)
Fixpoint nseq (x : N) (n : nat) : list N := match n with O => [] | S k => x :: nseq (x + 1) k end.
Definition expand (r : N * N) : list N := nseq (fst r) (N.to_nat (snd r + 1 - fst r)).
Definition sync_emit (rs : list (N * N)) : list N := flat_map expand rs.

(** the property on what the syncer emitted: exactly b, b+1, ..., e *)
Definition covers_once (b e : N) (emitted : list N) : Prop := emitted = nseq b (N.to_nat (e + 1 - b)).
Definition covers_once_b (b e : N) (emitted : list N) : bool := list_eqb N.eqb emitted (nseq b (N.to_nat (e + 1 - b))).

(** case: wrap flag, (fetch, begin, end), fuel, successful requests in order, emitted heights, error returned *)
Definition sync_case := (bool * (N * N * N) * nat * list (N * N) * list N * bool)%type.
Definition judge_sync (c : sync_case) : verdict :=
  let '(wrap, (fetch, b, e), fuel, reqs, emitted, err) := c in
  let p_impl := if e <? b then err && match emitted with [] => true | _ => false end
                else negb err && chain_b b e reqs && covers_once_b b e emitted in
  if negb p_impl then V_propfalse 0
  else match calc_ranges_d wrap fuel fetch b e with
       | RErr => if err then V_ok else V_mismatch 0
       | ROk m => if err then V_mismatch 0
                  else match first_diff rr_eqb m reqs 0 with
                       | Some i => V_mismatch i
                       | None => if list_eqb N.eqb (sync_emit m) emitted then V_ok else V_mismatch 1000
                       end
       | ROutOfFuel => V_domain 0
       end.
