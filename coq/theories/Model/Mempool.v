(** Executable model of the transaction pool [pkg/order/mempool]
    (mempool_impl.go, mempool.go, tx_store.go, btree_index.go).  Definitions only.

    - a transaction is the tuple (account, nonce, id, timestamp); its hash is modelled as the
      transaction itself (SHA-256 of the marshalled fields is assumed injective);
    - accounts are numbers ordered like the pool orders the address strings;
    - the ledger-nonce oracle [GetAccountNonce] is read through a cache that is filled on first
      use and never refreshed; [OSetLedger] moves the oracle.  [get_cn] reads the cache, else the
      oracle; the cache is filled for every account of the observation frame after every step
      (that is what the driver's queries do to the real pool);
    - the rebroadcast clock (ttlIndex / GetTimeoutTransactions) is not modelled: it is touched
      by no other operation;
    - a [defects] record selects, per listed defect, the faithful (true) or repaired (false)
      branch. *)
From BX Require Import Base.Prelude.
Local Open Scope N_scope.

(* ------------------------------------------------------------------------- data *)

Record tx := mkTx { t_acct : N; t_nonce : N; t_id : N; t_ts : N }.

Definition tx_eqb (x y : tx) : bool :=
  (t_acct x =? t_acct y) && (t_nonce x =? t_nonce y) && (t_id x =? t_id y) && (t_ts x =? t_ts y).

Notation slot := (N * N)%type (only parsing).           (* (account, nonce) *)
Definition slot_eqb (x y : slot) : bool := (fst x =? fst y) && (snd x =? snd y).
Definition slot_of (t : tx) : slot := (t_acct t, t_nonce t).

(** what the driver prints for a nil transaction inside a batch *)
Definition NILV : N := 18446744073709551615.
Definition nil_tx : tx := mkTx NILV NILV NILV NILV.

Notation pkey := (N * (N * N))%type (only parsing).     (* (timestamp, (account, nonce)) *)
Definition pkey_eqb (x y : pkey) : bool := (fst x =? fst y) && slot_eqb (snd x) (snd y).
(** orderedTimeoutKey.Less: timestamp, then account, then nonce *)
Definition pkey_ltb (x y : pkey) : bool :=
  (fst x <? fst y) ||
  ((fst x =? fst y) &&
   ((fst (snd x) <? fst (snd y)) || ((fst (snd x) =? fst (snd y)) && (snd (snd x) <? snd (snd y))))).

Fixpoint pinsert (k : pkey) (l : list pkey) : list pkey :=
  match l with
  | [] => [k]
  | h :: t => if pkey_ltb k h then k :: l else if pkey_eqb k h then l else h :: pinsert k t
  end.

(** lists used as sets (Go maps with bool values, btree indices) *)
Section SetOps.
  Context {A : Type} (eqb : A -> A -> bool).
  Definition mem (x : A) (l : list A) : bool := existsb (eqb x) l.
  Definition sadd (x : A) (l : list A) : list A := if mem x l then l else x :: l.
  Definition srem (x : A) (l : list A) : list A := filter (fun y => negb (eqb x y)) l.
  Fixpoint dedup (l : list A) : list A :=
    match l with
    | [] => []
    | x :: t => if mem x t then dedup t else x :: dedup t
    end.
End SetOps.

Definition len {A} (l : list A) : N := N.of_nat (length l).

(* ------------------------------------------------------------------------- configuration *)

Record defects := mkDefects {
  d_xacct_index : bool;     (* RemoveAliveTimeoutTxs hands the whole removal map to every account's nonce index *)
  d_commit_pending : bool;  (* a commit never raises the pending nonce / promotes what became ready *)
  d_stale_entries : bool;   (* txHashMap / batchedTxs keep entries of slots that were forwarded or evicted *)
  d_lookup_hash : bool      (* GetTransaction returns whatever occupies the slot the hash once pointed to *)
}.
Definition cfg_fixed : defects := mkDefects false false false false.
Definition cfg_faithful0 : defects := mkDefects true true true true.    (* the tree as first pinned *)

Record params := mkParams { p_batch : N; p_pool : N; p_timed : bool }.
Definition batch_size (p : params) : N := if p_batch p =? 0 then 500 else p_batch p.
Definition pool_size (p : params) : N := if p_pool p =? 0 then 50000 else p_pool p.

(* ------------------------------------------------------------------------- state *)

Record state := mkState {
  ledger : list (N * N);          (* GetAccountNonce oracle, default 0 *)
  hashmap : list (tx * slot);     (* txHashMap *)
  items : list (slot * tx);       (* allTxs[account].items[nonce] *)
  index : list slot;              (* allTxs[account].index *)
  cnonce : list (N * N);          (* nonceCache.commitNonces *)
  pnonce : list (N * N);          (* nonceCache.pendingNonces *)
  arrival : list (slot * N);      (* removeTimeoutIndex *)
  parking : list slot;            (* parkingLotIndex *)
  priority : list pkey;           (* priorityIndex, kept in iteration order *)
  batched : list slot;            (* batchedTxs *)
  pnbs : N;                       (* priorityNonBatchSize *)
  seqno : N                       (* batchSeqNo *)
}.

Definition set_ledger s v := mkState v (hashmap s) (items s) (index s) (cnonce s) (pnonce s) (arrival s) (parking s) (priority s) (batched s) (pnbs s) (seqno s).
Definition set_hashmap s v := mkState (ledger s) v (items s) (index s) (cnonce s) (pnonce s) (arrival s) (parking s) (priority s) (batched s) (pnbs s) (seqno s).
Definition set_items s v := mkState (ledger s) (hashmap s) v (index s) (cnonce s) (pnonce s) (arrival s) (parking s) (priority s) (batched s) (pnbs s) (seqno s).
Definition set_index s v := mkState (ledger s) (hashmap s) (items s) v (cnonce s) (pnonce s) (arrival s) (parking s) (priority s) (batched s) (pnbs s) (seqno s).
Definition set_cnonce s v := mkState (ledger s) (hashmap s) (items s) (index s) v (pnonce s) (arrival s) (parking s) (priority s) (batched s) (pnbs s) (seqno s).
Definition set_pnonce s v := mkState (ledger s) (hashmap s) (items s) (index s) (cnonce s) v (arrival s) (parking s) (priority s) (batched s) (pnbs s) (seqno s).
Definition set_arrival s v := mkState (ledger s) (hashmap s) (items s) (index s) (cnonce s) (pnonce s) v (parking s) (priority s) (batched s) (pnbs s) (seqno s).
Definition set_parking s v := mkState (ledger s) (hashmap s) (items s) (index s) (cnonce s) (pnonce s) (arrival s) v (priority s) (batched s) (pnbs s) (seqno s).
Definition set_priority s v := mkState (ledger s) (hashmap s) (items s) (index s) (cnonce s) (pnonce s) (arrival s) (parking s) v (batched s) (pnbs s) (seqno s).
Definition set_batched s v := mkState (ledger s) (hashmap s) (items s) (index s) (cnonce s) (pnonce s) (arrival s) (parking s) (priority s) v (pnbs s) (seqno s).
Definition set_pnbs s v := mkState (ledger s) (hashmap s) (items s) (index s) (cnonce s) (pnonce s) (arrival s) (parking s) (priority s) (batched s) v (seqno s).
Definition set_seqno s v := mkState (ledger s) (hashmap s) (items s) (index s) (cnonce s) (pnonce s) (arrival s) (parking s) (priority s) (batched s) (pnbs s) v.

Definition init_state (height : N) (led : list (N * N)) : state :=
  mkState led [] [] [] [] [] [] [] [] [] 0 height.

Definition lookup0 (a : N) (l : list (N * N)) : N :=
  match alookup N.eqb a l with Some n => n | None => 0 end.

(** nonceCache.getCommitNonce / getPendingNonce *)
Definition get_cn (s : state) (a : N) : N :=
  match alookup N.eqb a (cnonce s) with Some n => n | None => lookup0 a (ledger s) end.
Definition get_pn (s : state) (a : N) : N :=
  match alookup N.eqb a (pnonce s) with Some n => n | None => get_cn s a end.

Definition item_at (s : state) (sl : slot) : option tx := alookup slot_eqb sl (items s).

Section Model.
  Variable cfg : defects.
  Variable p : params.

  (* ----------------------------------------------------------------------- ProcessTransactions *)

  (** the entry filter of ProcessTransactions (stale nonce, same (account, nonce) earlier in this
      call, hash already known); pending nonces are those before the call *)
  Fixpoint filter_valid (s : state) (seen : list slot) (txs : list tx) : list tx :=
    match txs with
    | [] => []
    | t :: r =>
        if t_nonce t <? get_pn s (t_acct t) then filter_valid s seen r
        else if mem slot_eqb (slot_of t) seen then filter_valid s seen r
        else if mem tx_eqb t (map fst (hashmap s)) then filter_valid s (slot_of t :: seen) r
        else t :: filter_valid s (slot_of t :: seen) r
    end.

  (** transactionStore.insertTxs, one transaction *)
  Definition insert_tx (now : N) (s : state) (t : tx) : state :=
    let sl := slot_of t in
    let s := set_hashmap s (aset tx_eqb t sl (hashmap s)) in
    let s := set_items s (aset slot_eqb sl t (items s)) in
    let s := set_index s (sadd slot_eqb sl (index s)) in
    set_arrival s (aset slot_eqb sl now (arrival s)).

  (** txSortedMap.filterReady: the consecutive run of index entries starting at the demand nonce *)
  Fixpoint ready_run (idx : list slot) (a n : N) (fuel : nat) : list N :=
    match fuel with
    | O => []
    | S f => if mem slot_eqb (a, n) idx then n :: ready_run idx a (n + 1) f else []
    end.

  Definition promote_one (s : state) (a : N) (pr : list pkey) (n : N) : list pkey :=
    match item_at s (a, n) with
    | Some t => pinsert (t_ts t, (a, n)) pr
    | None => pr
    end.

  (** processDirtyAccount, one account *)
  Definition promote_acct (s : state) (a : N) : state :=
    let pn := get_pn s a in
    let run := ready_run (index s) a pn (S (length (index s))) in
    let next := pn + len run in
    let nonready := filter (fun sl => (fst sl =? a) && (next <? snd sl)) (index s) in
    let s1 := set_priority s (fold_left (promote_one s a) run (priority s)) in
    let s2 := set_pnbs s1 (pnbs s + len run) in
    let s3 := set_parking s2 (fold_left (fun pk sl => sadd slot_eqb sl pk) nonready (parking s)) in
    set_pnonce s3 (aset N.eqb a next (pnonce s)).

  (* ----------------------------------------------------------------------- generateBlock *)

  Record gacc := mkG { g_b : list slot; g_r : list slot; g_sk : list slot; g_done : bool }.

  Definition g_take (sl : slot) (acc : gacc) : gacc :=
    mkG (sadd slot_eqb sl (g_b acc)) (g_r acc ++ [sl]) (g_sk acc) (g_done acc).
  Definition g_stop (acc : gacc) : gacc := mkG (g_b acc) (g_r acc) (g_sk acc) true.

  (** the inner "skipped" loop of generateBlock *)
  Fixpoint g_chain (bsz : N) (a k : N) (fuel : nat) (acc : gacc) : gacc :=
    match fuel with
    | O => acc
    | S f =>
        if mem slot_eqb (a, k) (g_sk acc) then
          let acc' := g_take (a, k) acc in
          if len (g_r acc') =? bsz then g_stop acc' else g_chain bsz a (k + 1) f acc'
        else acc
    end.

  (** one callback of priorityIndex.Ascend *)
  Definition g_step (s : state) (bsz : N) (acc : gacc) (k : pkey) : gacc :=
    if g_done acc then acc
    else
      let sl := snd k in
      let a := fst sl in
      let n := snd sl in
      if mem slot_eqb sl (g_b acc) then acc
      else
        let seenp := (1 <=? n) && mem slot_eqb (a, n - 1) (g_b acc) in
        if seenp || (n =? get_cn s a) then
          let acc' := g_take sl acc in
          if len (g_r acc') =? bsz then g_stop acc'
          else g_chain bsz a (n + 1) (S (length (g_sk acc'))) acc'
        else mkG (g_b acc) (g_r acc) (sadd slot_eqb sl (g_sk acc)) (g_done acc).

  Definition tx_at (s : state) (sl : slot) : tx :=
    match item_at s sl with Some t => t | None => nil_tx end.

  Definition batch := (N * list tx)%type.               (* (height, transactions) *)

  Definition generate (s : state) : state * option batch :=
    let bsz := if batch_size p <? pnbs s then batch_size p else pnbs s in
    let acc := fold_left (g_step s bsz) (priority s) (mkG (batched s) [] [] false) in
    let s1 := set_batched s (g_b acc) in
    if negb (p_timed p) && (len (g_r acc) =? 0) && (0 <? pnbs s) then (set_pnbs s1 0, None)
    else
      let txl := map (tx_at s) (g_r acc) in
      let s2 := set_seqno s1 (seqno s + 1) in
      let s3 := set_pnbs s2 (if len txl <=? pnbs s then pnbs s - len txl else pnbs s) in
      (s3, Some (seqno s + 1, txl)).

  (** MemPool.GenerateBlock *)
  Definition generate_block (s : state) : state * option batch :=
    if negb (p_timed p) && (pnbs s =? 0) then (s, None) else generate s.

  Definition process_txs (s : state) (leader : bool) (now : N) (txs : list tx) : state * option batch :=
    let valid := filter_valid s [] txs in
    let s1 := fold_left (insert_tx now) valid s in
    let s2 := fold_left promote_acct (dedup N.eqb (map t_acct valid)) s1 in
    if leader && (batch_size p <=? pnbs s2) && negb (p_timed p) then generate s2 else (s2, None).

  (* ----------------------------------------------------------------------- processCommitTransactions *)

  Record cacc := mkC { c_upd : list (N * N); c_dirty : list N; c_hm : list (tx * slot); c_b : list slot }.

  Definition c_step (s : state) (acc : cacc) (h : tx) : cacc :=
    match alookup tx_eqb h (c_hm acc) with
    | None => acc
    | Some sl =>
        let a := fst sl in
        let new := snd sl + 1 in
        mkC (if (lookup0 a (c_upd acc) <? new) && (get_cn s a <? new) then aset N.eqb a new (c_upd acc) else c_upd acc)
            (sadd N.eqb a (c_dirty acc))
            (aremove tx_eqb h (c_hm acc))
            (srem slot_eqb sl (c_b acc))
    end.

  (** everything the five goroutines remove for one forwarded slot *)
  Definition drop_slot (s : state) (sl : slot) : state :=
    match item_at s sl with
    | None => set_index s (srem slot_eqb sl (index s))
    | Some t =>
        let s := set_items s (aremove slot_eqb sl (items s)) in
        let s := set_index s (srem slot_eqb sl (index s)) in
        let s := set_priority s (srem pkey_eqb (t_ts t, sl) (priority s)) in
        let s := set_arrival s (aremove slot_eqb sl (arrival s)) in
        let s := set_parking s (srem slot_eqb sl (parking s)) in
        if d_stale_entries cfg then s
        else
          let s := set_hashmap s (filter (fun e => negb (slot_eqb (snd e) sl)) (hashmap s)) in
          set_batched s (srem slot_eqb sl (batched s))
    end.

  (** list.forward(commitNonce) and the index clean-up for one dirty account, then (repaired
      behaviour only) raising a pending nonce that fell behind and promoting *)
  Definition forward_acct (s : state) (a : N) : state :=
    let c := get_cn s a in
    let gone := filter (fun sl => (fst sl =? a) && (snd sl <? c)) (index s) in
    let s1 := fold_left drop_slot gone s in
    if d_commit_pending cfg then s1
    else if get_pn s1 a <? c then promote_acct (set_pnonce s1 (aset N.eqb a c (pnonce s1))) a
    else s1.

  Definition commit_txs (s : state) (hs : list tx) : state :=
    let acc := fold_left (c_step s) hs (mkC [] [] (hashmap s) (batched s)) in
    let s1 := set_batched (set_hashmap s (c_hm acc)) (c_b acc) in
    let s2 := set_cnonce s1 (fold_left (fun cn e => aset N.eqb (fst e) (snd e) cn) (c_upd acc) (cnonce s1)) in
    let s3 := fold_left forward_acct (c_dirty acc) s2 in
    if len (priority s3) <? pnbs s3 then set_pnbs s3 (len (priority s3)) else s3.

  (* ----------------------------------------------------------------------- RemoveAliveTimeoutTxs *)

  Definition evictable (s : state) (sl : slot) : option tx :=
    match item_at s sl with
    | None => None
    | Some t =>
        if mem slot_eqb sl (batched s) then None
        else if mem pkey_eqb (t_ts t, sl) (priority s) then None
        else if mem slot_eqb sl (parking s) then Some t
        else None
    end.

  Definition evict_list (s : state) (now dur : N) : list tx :=
    flat_map (fun e : slot * N =>
                if snd e + dur <? now then match evictable s (fst e) with Some t => [t] | None => [] end else [])
             (arrival s).

  Definition remove_old (s : state) (now dur : N) : state * N :=
    let ev := evict_list s now dur in
    let slots := map slot_of ev in
    let s1 := set_hashmap s (fold_left (fun hm t => aremove tx_eqb t hm) ev (hashmap s)) in
    let idx_gone :=
      if d_xacct_index cfg
      then flat_map (fun a => map (fun t => (a, t_nonce t)) ev) (dedup N.eqb (map t_acct ev))
      else slots in
    let s2 := set_index s1 (fold_left (fun ix sl => srem slot_eqb sl ix) idx_gone (index s1)) in
    let s3 := set_items s2 (fold_left (fun it sl => aremove slot_eqb sl it) slots (items s2)) in
    let s4 := set_priority s3 (fold_left (fun pr t => srem pkey_eqb (t_ts t, slot_of t) pr) ev (priority s3)) in
    let s5 := set_parking s4 (fold_left (fun pk sl => srem slot_eqb sl pk) slots (parking s4)) in
    let s6 := set_arrival s5 (fold_left (fun ar sl => aremove slot_eqb sl ar) slots (arrival s5)) in
    let s7 := if d_stale_entries cfg then s6
              else set_hashmap s6 (filter (fun e => negb (mem slot_eqb (snd e) slots)) (hashmap s6)) in
    (s7, len ev).

  (* ----------------------------------------------------------------------- queries *)

  Definition get_tx (s : state) (h : tx) : option tx :=
    match alookup tx_eqb h (hashmap s) with
    | None => None
    | Some sl =>
        match item_at s sl with
        | None => None
        | Some t => if d_lookup_hash cfg then Some t else if tx_eqb t h then Some t else None
        end
    end.
  Definition has_pending (s : state) : bool := 0 <? pnbs s.
  Definition pool_full (s : state) : bool := pool_size p <=? len (hashmap s).

  (* ----------------------------------------------------------------------- operations and observations *)

  Inductive op :=
  | OProcess (leader local : bool) (now : N) (txs : list tx)
  | OGenerate
  | OCommit (hs : list tx)
  | ORemoveOld (now dur : N)
  | OSetSeq (n : N)
  | ORestart (height : N) (led : list (N * N))
  | ODrain (rounds : nat)         (* rounds x (GenerateBlock; CommitTransactions of that batch) *)
  | OSetLedger (a n : N).         (* the environment's ledger now reports nonce n for account a *)

  Record obs := mkObs {
    o_batches : list batch;
    o_pend : list N;               (* per account of the frame *)
    o_cmt : list N;
    o_has : bool;
    o_full : bool;
    o_get : list (option tx);      (* per transaction of the frame *)
    o_removed : N;
    o_dbg : list N                 (* nonBatch, |priority|, |parking|, |batched|, |hashes|, |arrivals|, seqNo *)
  }.

  Fixpoint drain (k : nat) (s : state) : state * list batch :=
    match k with
    | O => (s, [])
    | S k' =>
        match generate_block s with
        | (s1, None) => drain k' s1
        | (s1, Some b) => let '(s2, bs) := drain k' (commit_txs s1 (snd b)) in (s2, b :: bs)
        end
    end.

  Definition opt_list {A} (o : option A) : list A := match o with Some x => [x] | None => [] end.

  Definition apply_op (s : state) (o : op) : state * list batch * N :=
    match o with
    | OProcess leader _ now txs => let '(s', b) := process_txs s leader now txs in (s', opt_list b, 0)
    | OGenerate => let '(s', b) := generate_block s in (s', opt_list b, 0)
    | OCommit hs => (commit_txs s hs, [], 0)
    | ORemoveOld now dur => let '(s', n) := remove_old s now dur in (s', [], n)
    | OSetSeq n => (set_seqno s n, [], 0)
    | ORestart h led => (init_state h led, [], 0)
    | ODrain k => let '(s', bs) := drain k s in (s', bs, 0)
    | OSetLedger a n => (set_ledger s (aset N.eqb a n (ledger s)), [], 0)
    end.

  (** nonceCache.getCommitNonce fills the commit-nonce cache from the ledger oracle on first use
      and never refreshes it.  The driver queries every account of the frame after every step,
      so after each step the cache holds an entry for each of them. *)
  Definition touch (s : state) (a : N) : state :=
    match alookup N.eqb a (cnonce s) with
    | Some _ => s
    | None => set_cnonce s ((a, lookup0 a (ledger s)) :: cnonce s)
    end.

  (** the observation frame: the accounts and transactions the driver queries after every step *)
  Variable accts : list N.
  Variable univ : list tx.

  Definition observe (s : state) (bs : list batch) (removed : N) : obs :=
    mkObs bs (map (get_pn s) accts) (map (get_cn s) accts) (has_pending s) (pool_full s)
          (map (get_tx s) univ) removed
          [pnbs s; len (priority s); len (parking s); len (batched s); len (hashmap s); len (arrival s); seqno s].

  Definition step (s : state) (o : op) : state * obs :=
    let '(s', bs, r) := apply_op s o in
    let s'' := fold_left touch accts s' in (s'', observe s'' bs r).

  Fixpoint run (s : state) (ops : list op) : list (op * obs) :=
    match ops with
    | [] => []
    | o :: r => let '(s', ob) := step s o in (o, ob) :: run s' r
    end.

  Fixpoint run_state (s : state) (ops : list op) : state :=
    match ops with
    | [] => s
    | o :: r => run_state (fst (step s o)) r
    end.
End Model.

Definition empty_state : state := init_state 0 [].
