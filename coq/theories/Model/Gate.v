(** C16 - availability gating of interchain requests
    (internal/executor/contracts/interchain.go: checkSourceAvailability, checkTargetAvailability,
    getServiceByID; internal/executor/handle.go: the executor's service cache fed from
    Event_SERVICE events; pkg/proof: the proof stage that runs before the contract).

    Service records are looked up in the executor's in-memory cache first and in the ledger
    (service manager contract) only on a cache miss.  Definitions only. *)
From BX Require Import Base.Prelude.
From BXGen Require Import Gen_ObjFsm.
From Coq Require Import String.
Local Open Scope string_scope.

Definition mem_s (s : string) (l : list string) : bool := existsb (String.eqb s) l.
Definition memN (n : N) (l : list N) : bool := existsb (N.eqb n) l.

(** a service record as far as gating is concerned *)
Record svc := { sv_chain : N; sv_status : string; sv_black : list N (* sources it refuses *); sv_reg : bool (* listed among its chain's services *) }.

Definition svc_eqb (a b : svc) : bool :=
  (sv_chain a =? sv_chain b)%N && String.eqb (sv_status a) (sv_status b) && list_eqb N.eqb (sv_black a) (sv_black b) && Bool.eqb (sv_reg a) (sv_reg b).

Definition svc_avail (s : svc) : bool := mem_s (sv_status s) service_available.
Definition chain_avail (st : string) : bool := mem_s st appchain_available.

Definition smap := list (N * svc).
Definition sget (id : N) (m : smap) : option svc := alookup N.eqb id m.
Definition sset (id : N) (r : svc) (m : smap) : smap := aset N.eqb id r m.

(** getServiceByID: cache first, ledger on a miss.  [ck] is the key under which the cache holds the record of an
    id (the exact "chain:service" string in the code as it is: the identity); the stored records are keyed by the id *)
Definition view (ck : N -> N) (cache ledger : smap) (id : N) : option svc :=
  match sget (ck id) cache with
  | Some r => Some r
  | None => sget id ledger
  end.

(** outcome of a well-formed, correctly indexed interchain request between two local services *)
Inductive outcome :=
| OBegin          (* accepted, transaction status BEGIN: recorded for execution at the destination *)
| OBeginFail      (* accepted with status BEGIN_FAILURE: the source rolls back *)
| ORejSrc         (* rejected: source service not available *)
| OProof.         (* rejected before the contract: no verifiable proof (appchain unknown / no available rule / rule refuses) *)

Definition outcome_code (o : outcome) : N :=
  match o with OBegin => 0 | OBeginFail => 1 | ORejSrc => 2 | OProof => 3 end%N.

Definition src_ok (v : N -> option svc) (src : N) : bool :=
  match v src with Some r => svc_avail r | None => false end.

Definition dst_ok (v : N -> option svc) (src dst : N) : bool :=
  match v dst with
  | Some r => svc_avail r && negb (memN src (sv_black r))
  | None => false
  end.

Definition gate (v : N -> option svc) (src dst : N) : outcome :=
  if negb (src_ok v src) then ORejSrc
  else if dst_ok v src dst then OBegin else OBeginFail.

(** the property of the gate with respect to the *stored* records: what C16 demands *)
Definition gate_sound (ledger : smap) (src dst : N) (o : outcome) : bool :=
  match o with
  | OBegin => src_ok (fun i => sget i ledger) src && dst_ok (fun i => sget i ledger) src dst
  | OBeginFail => src_ok (fun i => sget i ledger) src && negb (dst_ok (fun i => sget i ledger) src dst)
  | ORejSrc => negb (src_ok (fun i => sget i ledger) src)
  | OProof => true
  end.

(** cache update at the end of a transaction: the Event_SERVICE events it posted, in order.
    [failed_too]: the events of a transaction that failed (and was reverted) are applied as well. *)
Definition apply_events (ck : N -> N) (evs : list (N * svc)) (cache : smap) : smap :=
  fold_left (fun c e => sset (ck (fst e)) (snd e) c) evs cache.

(** distinct ids have distinct cache keys *)
Definition key_inj (ck : N -> N) : Prop := forall i j, ck i = ck j -> i = j.
(** the stored records under their cache keys (a cache rebuilt from the ledger) *)
Definition rekey (ck : N -> N) (m : smap) : smap := map (fun e => (ck (fst e), snd e)) m.
(** ids that differ only in the case of their letters (in the histories: ids 10c+9 and 10c+8) under one key *)
Definition fold_key (i : N) : N := if (i mod 10 =? 9)%N then (i - 1)%N else i.
