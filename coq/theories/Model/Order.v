(** Model of the ordering service's delivery bookkeeping (C20).  Definitions only.

    (a) raft replica, [pkg/order/etcdraft/node.go, util.go]: [publishEntries], [entriesToApply],
        [reportState] / persisted applied index, [maybeTriggerSnapshot], the new-leader block
        ([SetBatchSeqNo(lastExec)], in-flight guard), restart ([NewNode] + [Start] + [run]).
        The raft log is an abstract shared append-only list [lg]; the entry at list position i
        has raft index i+1.  What etcd-raft hands to the node in one [Ready] is an op.
        The executor is the consumer of the commit channel: it takes events in FIFO order
        ([internal/app/feedhub.go]) and makes the height durable; [ReportState] comes back later,
        in any order (each report is its own goroutine).
    (b) solo node, [pkg/order/solo/node.go]: proposal height check, delivery, commit on report.

    Heights and indices are [N]; uint64 wrap-around is not represented here (it would need
    2^64 blocks); it is explicit in [Model/Ranges.v], where the property is about it. *)
From BX Require Import Base.Prelude.
Local Open Scope N_scope.

(** * Defect flags (DESIGN 3.3).  [true] = the faithful defective branch, [false] = repaired. *)
Record Defects := {
  d_restart_height_only : bool;
    (* restart rebuilds blockAppliedIndex as {chain height -> persisted applied index}; the index of
       the entry that produced the last executed block is not known, only the height check protects
       the replay.  Repaired: the index recorded with the executed block is used. *)
  d_snap_unexecuted : bool;
    (* maybeTriggerSnapshot snapshots at appliedIndex although blocks handed to the executor are
       not executed yet.  Repaired: no snapshot while lastExec is above the executed height. *)
  d_solo_commit10 : bool;
    (* solo calls CommitTransactions only for heights divisible by 10 *)
  d_snapin_lost : bool;
    (* a snapshot received from the leader is durable before its blocks are executed, and a restart
       does not fetch the missing blocks again.  Repaired: run() calls recoverFromSnapshot when the
       newest snapshot's height is above lastExec. *)
  d_report_early : bool
    (* the glue between executor and ordering: the executor announces a block (ExecutedEvent ->
       feedhub -> Order.ReportState) before the ledger has made it durable.  Not the case in the code
       as it is ([processExecuteEvent] posts the event after [PersistBlockData]); a flag so that the
       assumption "Report h only after Durable h" is explicit and its failure has a witness. *)
}.
Definition mkD (r s o i e : bool) : Defects :=
  {| d_restart_height_only := r; d_snap_unexecuted := s; d_solo_commit10 := o; d_snapin_lost := i; d_report_early := e |}.
Definition cfg_fixed : Defects := mkD false false false false false.
Definition only_restart : Defects := mkD true false false false false.
Definition only_snap : Defects := mkD false true false false false.
Definition only_solo10 : Defects := mkD false false true false false.
Definition only_snapin : Defects := mkD false false false true false.
Definition only_report_early : Defects := mkD false false false false true.

(** * The log *)
Definition blk := (N * list N)%type.            (* height, tx ids : what a CommitEvent carries *)
Inductive entry := EEmpty | EBatch (h : N) (txs : list N).
Definition rlog := list entry.

Definition entry_at (lg : rlog) (idx : N) : option entry :=
  if idx =? 0 then None else nth_error lg (N.to_nat (idx - 1)).

(** entries with raft indices lo, lo+1, ... (at most [cnt] of them, as far as the list goes) *)
Fixpoint seg (lg : rlog) (lo : N) (cnt : nat) : list (N * entry) :=
  match cnt with
  | O => []
  | S c => match entry_at lg lo with
           | Some e => (lo, e) :: seg lg (N.succ lo) c
           | None => []
           end
  end.

(** ** The canonical chain of a log: the height check applied from the initial height.
    [ch_step c e] is the height after entry [e] when the height before is [c]. *)
Definition ch_step (c : N) (e : entry) : N :=
  match e with
  | EBatch h _ => if h =? c + 1 then h else c
  | EEmpty => c
  end.
Definition ch_from (c : N) (l : rlog) : N := fold_left ch_step l c.
(** height reached by the canonical chain after the first [i] entries *)
Definition ch (init : N) (lg : rlog) (i : N) : N := ch_from init (firstn (N.to_nat i) lg).

(** the accepted entries, in log order: (index, block) *)
Fixpoint canon_from (c : N) (idx : N) (l : rlog) : list (N * blk) :=
  match l with
  | [] => []
  | EEmpty :: t => canon_from c (N.succ idx) t
  | EBatch h txs :: t =>
      if h =? c + 1 then (idx, (h, txs)) :: canon_from h (N.succ idx) t
      else canon_from c (N.succ idx) t
  end.
Definition canon (init : N) (lg : rlog) : list (N * blk) := canon_from init 1 lg.
Definition canon_blocks (init : N) (lg : rlog) : list blk := map snd (canon init lg).

(** every entry's height is at most one above the canonical height at its position:
    no entry "from the future" (such an entry is what a dropped proposal of an old leader
    followed by a later one leaves in the log) *)
Fixpoint nogap_from (c : N) (l : rlog) : Prop :=
  match l with
  | [] => True
  | e :: t => match e with EBatch h _ => h <= c + 1 | EEmpty => True end /\ nogap_from (ch_step c e) t
  end.
Fixpoint nogap_from_b (c : N) (l : rlog) : bool :=
  match l with
  | [] => true
  | e :: t => match e with EBatch h _ => h <=? c + 1 | EEmpty => true end && nogap_from_b (ch_step c e) t
  end.
Definition nogap (init : N) (lg : rlog) : Prop := nogap_from init lg.

(** * Raft replica *)
Record rcfg := { c_id : N; c_snap : N; c_init : N }.

(** volatile node state *)
Record rmem := {
  lastExec : N;            (* height of the last block handed to the executor *)
  applied : N;             (* appliedIndex *)
  snapIdx : N;             (* snapshotIndex *)
  bai : list (N * N);      (* blockAppliedIndex : height -> log index (a Go map: unique keys) *)
  justElected : bool;
  leader : N;              (* 0 = none *)
  seqNo : N                (* the pool's batchSeqNo *)
}.
(** durable state of the ordering node *)
Record rdisk := {
  persisted : N;           (* applied index written by reportState *)
  dsnap : N;               (* index of the newest snapshot *)
  dsnapH : N;              (* its data: lastExec when it was taken *)
  stored : N               (* last index in WAL / raft storage *)
}.
(** the executor side: durable chain height, volatile commit channel.  [chainIdx] is a ghost:
    the log index of the entry that produced block [chain] (0 for the initial height);
    queue elements carry the index of their entry as a ghost too. *)
Record rexec := { chain : N; chainIdx : N; queue : list (N * blk) }.
Record rsys := { mem : rmem; disk : rdisk; ex : rexec; avail : N (* log entries appended so far *) }.

Definition maxkey (m : list (N * N)) : N := fold_left (fun a kv => N.max a (fst kv)) m 0.
(** [getBlockAppliedIndex]: value at the highest key, 0 when it is missing *)
Definition bai_top (m : list (N * N)) : N :=
  match alookup N.eqb (maxkey m) m with Some v => v | None => 0 end.

Definition set_applied (m : rmem) (i : N) : rmem :=
  {| lastExec := lastExec m; applied := i; snapIdx := snapIdx m; bai := bai m;
     justElected := justElected m; leader := leader m; seqNo := seqNo m |}.

(** one iteration of the [publishEntries] loop *)
Definition publish1 (c : rcfg) (m : rmem) (ie : N * entry) : rmem * list (N * blk) :=
  let '(idx, e) := ie in
  match e with
  | EEmpty => (set_applied m idx, [])
  | EBatch h txs =>
      if idx <=? bai_top (bai m) then (set_applied m idx, [])
      else if negb (h =? lastExec m + 1) then (set_applied m idx, [])
      else ({| lastExec := h; applied := idx; snapIdx := snapIdx m; bai := aset N.eqb h idx (bai m);
               justElected := justElected m; leader := leader m;
               seqNo := if leader m =? c_id c then seqNo m else h |}, [(idx, (h, txs))])
  end.

Fixpoint publish (c : rcfg) (m : rmem) (es : list (N * entry)) : rmem * list (N * blk) :=
  match es with
  | [] => (m, [])
  | ie :: t => let '(m1, o1) := publish1 c m ie in
               let '(m2, o2) := publish c m1 t in (m2, o1 ++ o2)
  end.

(** [entriesToApply]: [first] is the index of the first committed entry handed over *)
Definition entries_to_apply (m : rmem) (first : N) (all : list (N * entry)) : list (N * entry) :=
  let k := applied m + 1 - first in
  if k <? N.of_nat (length all) then skipn (N.to_nat k) all else [].

Inductive rop :=
| OAppend                                   (* the shared log grows by one entry *)
| OReady (lo hi app : N) (lead : option N)  (* one Ready: CommittedEntries = lo..hi, storage filled up to app, SoftState *)
| OExec                                     (* the executor takes the next commit event and makes it durable *)
| OReport (h : N)                           (* ReportState(h) reaches the node loop *)
| OCrash (bs : list (N * blk))              (* process death + NewNode/Start on the same storage; [bs]: the blocks the
                                               repaired start-up fetches from peers (ghost index, block) *)
| OSnapIn (idx : N) (bs : list (N * blk))   (* a Ready with the leader's snapshot at index idx; [bs]: the blocks
                                               recoverFromSnapshot gets from peers and hands over *)
| OPropose (k : N)                          (* the pool hands k batches to the node (GenerateBlock / ProcessTransactions) *)
| ONop.

(** what a step shows: commit events (with ghost index), proposed heights *)
Record rout := { o_ev : list (N * blk); o_prop : list N }.
Definition no_out : rout := {| o_ev := []; o_prop := [] |}.

Definition leader_change (c : rcfg) (m : rmem) (lead : option N) : rmem :=
  match lead with
  | None => m
  | Some l =>
      if l =? leader m then m
      else {| lastExec := lastExec m; applied := applied m; snapIdx := snapIdx m; bai := bai m;
              justElected := if l =? c_id c then true else justElected m; leader := l; seqNo := seqNo m |}
  end.

Definition after_elected (m : rmem) (st : N) : rmem :=
  if justElected m then
    {| lastExec := lastExec m; applied := applied m; snapIdx := snapIdx m; bai := bai m;
       justElected := (applied m + 1 <? st); leader := leader m; seqNo := lastExec m |}
  else m.

Definition snap_guard (d : Defects) (m : rmem) (x : rexec) : bool :=
  if d_snap_unexecuted d then true else lastExec m <=? chain x.

Fixpoint seq_from (s : N) (k : nat) : list N :=
  match k with O => [] | S j => (s + 1) :: seq_from (s + 1) j end.

(** the batch at index [fst ib] continues the canonical chain (what an honest peer serves for its height) *)
Definition acc_b (init : N) (lg : rlog) (ib : N * blk) : bool :=
  let '(idx, (h, txs)) := ib in
  (1 <=? idx) && match entry_at lg idx with
                 | Some (EBatch h' txs') => (h' =? h) && list_eqb N.eqb txs' txs && (h =? ch init lg (idx - 1) + 1)
                 | _ => false
                 end.
Fixpoint contig_from_i (c : N) (evs : list (N * blk)) : bool :=
  match evs with [] => true | e :: t => (fst (snd e) =? c + 1) && contig_from_i (c + 1) t end.
(** peers serve the canonical blocks from..to, in order *)
Definition sync_ok (init : N) (lg : rlog) (from to : N) (bs : list (N * blk)) : bool :=
  forallb (acc_b init lg) bs && contig_from_i from bs && (from + N.of_nat (length bs) =? to).

Definition restart_mem (d : Defects) (dk : rdisk) (x : rexec) : rmem :=
  {| lastExec := chain x; applied := dsnap dk; snapIdx := dsnap dk;
     bai := [(chain x, if d_restart_height_only d then persisted dk else chainIdx x)];
     justElected := false; leader := 0; seqNo := chain x |}.

Definition init_sys (d : Defects) (c : rcfg) : rsys :=
  let x := {| chain := c_init c; chainIdx := 0; queue := [] |} in
  let dk := {| persisted := 0; dsnap := 0; dsnapH := 0; stored := 0 |} in
  {| mem := restart_mem d dk x; disk := dk; ex := x; avail := 0 |}.

(** The executor side has two events per block: the block is *handed over* (it enters [queue]: the
    executor starts working on the head of the queue) and it becomes *durable* ([OExec]: [chain] := its
    height).  [ReportState h] may reach the node only after block h is durable; with [d_report_early]
    also for the block the executor is working on (head of the queue). *)
Definition report_allowed (d : Defects) (x : rexec) (h : N) : bool :=
  (h <=? chain x)
  || (d_report_early d && match queue x with [] => false | _ => h =? chain x + 1 end).

(** [None] = the op is outside what the environment can do (etcd-raft never hands out a gap,
    nothing is committed before it is stored, only durable heights are reported) *)
Definition rstep (d : Defects) (c : rcfg) (lg : rlog) (s : rsys) (op : rop) : option (rsys * rout) :=
  match op with
  | ONop => Some (s, no_out)
  | OAppend =>
      if avail s <? N.of_nat (length lg)
      then Some ({| mem := mem s; disk := disk s; ex := ex s; avail := avail s + 1 |}, no_out)
      else None
  | OReady lo hi app lead =>
      if (1 <=? lo) && (lo <=? applied (mem s) + 1) && (hi <=? app) && (app <=? avail s)
         && (stored (disk s) <=? app) && (lo <=? hi + 1)
      then
        let m0 := leader_change c (mem s) lead in
        let all := seg lg lo (N.to_nat (hi + 1 - lo)) in
        let '(m1, evs) := publish c m0 (entries_to_apply m0 lo all) in
        let m2 := after_elected m1 app in
        let snap := (c_snap c <=? applied m2 - snapIdx m2) && snap_guard d m2 (ex s) in
        let m3 := if snap then {| lastExec := lastExec m2; applied := applied m2; snapIdx := applied m2; bai := bai m2;
                                  justElected := justElected m2; leader := leader m2; seqNo := seqNo m2 |} else m2 in
        let dk := {| persisted := persisted (disk s);
                     dsnap := if snap then applied m2 else dsnap (disk s);
                     dsnapH := if snap then lastExec m2 else dsnapH (disk s);
                     stored := app |} in
        Some ({| mem := m3; disk := dk;
                 ex := {| chain := chain (ex s); chainIdx := chainIdx (ex s); queue := queue (ex s) ++ evs |};
                 avail := avail s |},
              {| o_ev := evs; o_prop := [] |})
      else None
  | OExec =>
      match queue (ex s) with
      | [] => Some (s, no_out)
      | (i, (h, _)) :: q =>
          Some ({| mem := mem s; disk := disk s; ex := {| chain := h; chainIdx := i; queue := q |}; avail := avail s |}, no_out)
      end
  | OReport h =>
      if report_allowed d (ex s) h then
        match alookup N.eqb h (bai (mem s)) with
        | None => Some (s, no_out)
        | Some i =>
            let m := mem s in
            let m' := {| lastExec := lastExec m; applied := applied m; snapIdx := snapIdx m;
                         bai := if h =? 0 then bai m else aremove N.eqb (h - 1) (bai m);
                         justElected := justElected m; leader := leader m; seqNo := seqNo m |} in
            let dk := {| persisted := i; dsnap := dsnap (disk s); dsnapH := dsnapH (disk s); stored := stored (disk s) |} in
            Some ({| mem := m'; disk := dk; ex := ex s; avail := avail s |}, no_out)
        end
      else None
  | OCrash bs =>
      let resync := negb (d_snapin_lost d) && (chain (ex s) <? dsnapH (disk s)) in
      if (if resync then sync_ok (c_init c) lg (chain (ex s)) (dsnapH (disk s)) bs
          else match bs with [] => true | _ => false end)
      then
        let x := {| chain := chain (ex s); chainIdx := chainIdx (ex s); queue := bs |} in
        let m0 := restart_mem d (disk s) x in
        let m := {| lastExec := lastExec m0 + N.of_nat (length bs); applied := applied m0; snapIdx := snapIdx m0; bai := bai m0;
                    justElected := false; leader := 0; seqNo := seqNo m0 |} in
        Some ({| mem := m; disk := disk s; ex := x; avail := avail s |}, {| o_ev := bs; o_prop := [] |})
      else None
  | OSnapIn idx bs =>
      let m := mem s in
      if (applied m <? idx) && (idx <=? avail s) && (stored (disk s) <=? idx)
         && sync_ok (c_init c) lg (lastExec m) (ch (c_init c) lg idx) bs
         && negb (match bs with [] => chain (ex s) =? lastExec m | _ => false end)
      then
        let m1 := {| lastExec := lastExec m + N.of_nat (length bs); applied := idx; snapIdx := idx; bai := bai m;
                     justElected := justElected m; leader := leader m; seqNo := seqNo m |} in
        let m2 := after_elected m1 idx in
        let dk := {| persisted := persisted (disk s); dsnap := idx; dsnapH := lastExec m1; stored := idx |} in
        Some ({| mem := m2; disk := dk;
                 ex := {| chain := chain (ex s); chainIdx := chainIdx (ex s); queue := queue (ex s) ++ bs |};
                 avail := avail s |},
              {| o_ev := bs; o_prop := [] |})
      else None
  | OPropose k =>
      let m := mem s in
      if leader m =? c_id c then
        let m' := {| lastExec := lastExec m; applied := applied m; snapIdx := snapIdx m; bai := bai m;
                     justElected := justElected m; leader := leader m; seqNo := seqNo m + k |} in
        Some ({| mem := m'; disk := disk s; ex := ex s; avail := avail s |},
              {| o_ev := []; o_prop := seq_from (seqNo m) (N.to_nat k) |})
      else if k =? 0 then Some (s, no_out) else None
  end.

(** ** Traces.  An observation is what the driver prints after one op. *)
Record robs := {
  b_ev : list blk;          (* commit events read from Order.Commit() during the op *)
  b_prop : list N;          (* heights of the batches handed to raft during the op *)
  b_st : list N;            (* lastExec applied snapIdx persisted justElected leader seqNo stored *)
  b_bai : list (N * N)      (* blockAppliedIndex sorted by height *)
}.

Fixpoint ins_sorted (kv : N * N) (l : list (N * N)) : list (N * N) :=
  match l with
  | [] => [kv]
  | x :: t => if fst kv <=? fst x then kv :: l else x :: ins_sorted kv t
  end.
Definition sort_bai (l : list (N * N)) : list (N * N) := fold_right ins_sorted [] l.

Definition obs_of (s : rsys) (o : rout) : robs :=
  let m := mem s in
  {| b_ev := map snd (o_ev o); b_prop := o_prop o;
     b_st := [lastExec m; applied m; snapIdx m; persisted (disk s); if justElected m then 1 else 0;
              leader m; seqNo m; stored (disk s)];
     b_bai := sort_bai (bai m) |}.

Fixpoint rrun (d : Defects) (c : rcfg) (lg : rlog) (s : rsys) (ops : list rop) : option (list robs) :=
  match ops with
  | [] => Some []
  | op :: t => match rstep d c lg s op with
               | None => None
               | Some (s', o) => match rrun d c lg s' t with
                                 | Some tr => Some (obs_of s' o :: tr)
                                 | None => None
                                 end
               end
  end.

(** the state-only run (for theorems about reachable states) *)
Fixpoint rrun_state (d : Defects) (c : rcfg) (lg : rlog) (s : rsys) (ops : list rop) : option rsys :=
  match ops with
  | [] => Some s
  | op :: t => match rstep d c lg s op with
               | None => None
               | Some (s', _) => rrun_state d c lg s' t
               end
  end.

(** ** Trace predicates (what the theorems are about and what the judge evaluates on the
    implementation's trace).  Each has a [Prop] form and a boolean form. *)

Definition blk_eqb (a b : blk) : bool := (fst a =? fst b) && list_eqb N.eqb (snd a) (snd b).

(** heights c+1, c+2, ... *)
Fixpoint contig_from (c : N) (evs : list blk) : Prop :=
  match evs with [] => True | e :: t => fst e = c + 1 /\ contig_from (c + 1) t end.
Fixpoint contig_from_b (c : N) (evs : list blk) : bool :=
  match evs with [] => true | e :: t => (fst e =? c + 1) && contig_from_b (c + 1) t end.

(** shadow of the executor side, computed from the ops and the observed events alone *)
Record shadow := { sh_cur : N; sh_chain : N; sh_queue : list blk }.
Definition shadow_init (init : N) : shadow := {| sh_cur := init; sh_chain := init; sh_queue := [] |}.
Definition shadow_step (sh : shadow) (op : rop) (o : robs) : shadow :=
  match op with
  | OExec => match sh_queue sh with
             | [] => sh
             | b :: q => {| sh_cur := sh_cur sh; sh_chain := fst b; sh_queue := q |}
             end
  | OCrash _ => {| sh_cur := sh_chain sh + N.of_nat (length (b_ev o)); sh_chain := sh_chain sh; sh_queue := b_ev o |}
  | _ => {| sh_cur := sh_cur sh + N.of_nat (length (b_ev o)); sh_chain := sh_chain sh; sh_queue := sh_queue sh ++ b_ev o |}
  end.

(** C20_contiguous: in every incarnation the heights handed to the executor are e+1, e+2, ...
    where e is the executed height the incarnation started from *)
Fixpoint contiguous (sh : shadow) (ops : list rop) (tr : list robs) : Prop :=
  match ops, tr with
  | op :: ops', o :: tr' =>
      contig_from (match op with OCrash _ => sh_chain sh | _ => sh_cur sh end) (b_ev o)
      /\ contiguous (shadow_step sh op o) ops' tr'
  | _, _ => True
  end.
Fixpoint contiguous_b (sh : shadow) (ops : list rop) (tr : list robs) : bool :=
  match ops, tr with
  | op :: ops', o :: tr' =>
      contig_from_b (match op with OCrash _ => sh_chain sh | _ => sh_cur sh end) (b_ev o)
      && contiguous_b (shadow_step sh op o) ops' tr'
  | _, _ => true
  end.

(** the blocks the executor executed, in order *)
Fixpoint executed (sh : shadow) (ops : list rop) (tr : list robs) : list blk :=
  match ops, tr with
  | op :: ops', o :: tr' =>
      match op, sh_queue sh with
      | OExec, b :: _ => b :: executed (shadow_step sh op o) ops' tr'
      | _, _ => executed (shadow_step sh op o) ops' tr'
      end
  | _, _ => []
  end.

(** C20_replay_skipped: nothing at or below the executed height is ever handed over again *)
Fixpoint above_executed (sh : shadow) (ops : list rop) (tr : list robs) : Prop :=
  match ops, tr with
  | op :: ops', o :: tr' =>
      Forall (fun b => sh_chain sh < fst b) (b_ev o) /\ above_executed (shadow_step sh op o) ops' tr'
  | _, _ => True
  end.
Fixpoint above_executed_b (sh : shadow) (ops : list rop) (tr : list robs) : bool :=
  match ops, tr with
  | op :: ops', o :: tr' =>
      forallb (fun b => sh_chain sh <? fst b) (b_ev o) && above_executed_b (shadow_step sh op o) ops' tr'
  | _, _ => true
  end.

Definition all_events (tr : list robs) : list blk := flat_map b_ev tr.

(** C20_same_content / replay: every event is a block of the canonical chain of the log *)
Definition is_canon (init : N) (lg : rlog) (b : blk) : Prop := In b (canon_blocks init lg).
Definition is_canon_b (init : N) (lg : rlog) (b : blk) : bool := existsb (blk_eqb b) (canon_blocks init lg).
Definition canonical (init : N) (lg : rlog) (tr : list robs) : Prop := Forall (is_canon init lg) (all_events tr).
Definition canonical_b (init : N) (lg : rlog) (tr : list robs) : bool := forallb (is_canon_b init lg) (all_events tr).

Fixpoint is_prefix (a b : list blk) : Prop :=
  match a, b with
  | [], _ => True
  | x :: a', y :: b' => x = y /\ is_prefix a' b'
  | _ :: _, [] => False
  end.
Fixpoint is_prefix_b (a b : list blk) : bool :=
  match a, b with
  | [], _ => true
  | x :: a', y :: b' => blk_eqb x y && is_prefix_b a' b'
  | _ :: _, [] => false
  end.

(** C20_none_skipped: whenever the replica has applied the log up to index i, it has handed over
    (or found executed) every block of the canonical chain of the first i entries *)
Definition st_noskip (init : N) (lg : rlog) (o : robs) : Prop :=
  match b_st o with
  | [] => True                     (* no state taken at this step (real-raft mode groups several ops) *)
  | le :: ap :: _ => ch init lg ap <= le
  | _ => False
  end.
Definition st_noskip_b (init : N) (lg : rlog) (o : robs) : bool :=
  match b_st o with
  | [] => true
  | le :: ap :: _ => ch init lg ap <=? le
  | _ => false
  end.
Definition none_skipped (init : N) (lg : rlog) (tr : list robs) : Prop := Forall (st_noskip init lg) tr.
Definition none_skipped_b (init : N) (lg : rlog) (tr : list robs) : bool := forallb (st_noskip_b init lg) tr.

(** C20_tx_once: no transaction id occurs twice in a block or in two blocks of different height *)
Fixpoint mem_N (x : N) (l : list N) : bool := match l with [] => false | y :: t => (x =? y) || mem_N x t end.
Fixpoint nodup_b (l : list N) : bool := match l with [] => true | x :: t => negb (mem_N x t) && nodup_b t end.
Definition disjoint_b (a b : list N) : bool := forallb (fun x => negb (mem_N x b)) a.
Definition blk_compat (a b : blk) : Prop :=
  fst a = fst b \/ (forall x, In x (snd a) -> ~ In x (snd b)).
Definition blk_compat_b (a b : blk) : bool := (fst a =? fst b) || disjoint_b (snd a) (snd b).
Fixpoint tx_once_l (l : list blk) : Prop :=
  match l with [] => True | b :: t => NoDup (snd b) /\ Forall (blk_compat b) t /\ tx_once_l t end.
Fixpoint tx_once_lb (l : list blk) : bool :=
  match l with [] => true | b :: t => nodup_b (snd b) && forallb (blk_compat_b b) t && tx_once_lb t end.
Definition tx_once (tr : list robs) : Prop := tx_once_l (all_events tr).
Definition tx_once_b (tr : list robs) : bool := tx_once_lb (all_events tr).

(** log hypothesis under which tx_once is provable here: the batches in the log are pairwise
    tx-disjoint and duplicate-free (what one leader's pool guarantees: C18_no_double) *)
Fixpoint log_blocks (l : rlog) : list blk :=
  match l with [] => [] | EEmpty :: t => log_blocks t | EBatch h txs :: t => (h, txs) :: log_blocks t end.
Fixpoint log_tx_disjoint_l (l : list blk) : Prop :=
  match l with
  | [] => True
  | b :: t => NoDup (snd b) /\ Forall (fun b' => forall x, In x (snd b) -> ~ In x (snd b')) t /\ log_tx_disjoint_l t
  end.
Definition log_tx_disjoint (lg : rlog) : Prop := log_tx_disjoint_l (log_blocks lg).

(** C20_new_leader_seq on a trace: the Ready that makes the replica leader leaves batchSeqNo = lastExec.
    [pl] is the leader the replica knew before the step (0 at start and after a crash). *)
Definition st_leader (o : robs) : option N := nth_error (b_st o) 5.
Definition leader_seq_step (id pl : N) (op : rop) (o : robs) : Prop :=
  match op with
  | OReady _ _ _ (Some l) =>
      l = id -> l <> pl -> match b_st o with
                          | [] => True
                          | le :: _ => nth_error (b_st o) 6 = Some le
                          end
  | _ => True
  end.
Definition leader_seq_step_b (id pl : N) (op : rop) (o : robs) : bool :=
  match op with
  | OReady _ _ _ (Some l) =>
      negb (l =? id) || (l =? pl) || match b_st o with
                                     | [] => true
                                     | le :: _ => match nth_error (b_st o) 6 with Some x => x =? le | None => false end
                                     end
  | _ => true
  end.
Definition next_leader (pl : N) (op : rop) (o : robs) : N :=
  match op with
  | OCrash _ => 0
  | OReady _ _ _ (Some l) => l
  | _ => pl
  end.
Fixpoint leader_seq (id pl : N) (ops : list rop) (tr : list robs) : Prop :=
  match ops, tr with
  | op :: ops', o :: tr' => leader_seq_step id pl op o /\ leader_seq id (next_leader pl op o) ops' tr'
  | _, _ => True
  end.
Fixpoint leader_seq_b (id pl : N) (ops : list rop) (tr : list robs) : bool :=
  match ops, tr with
  | op :: ops', o :: tr' => leader_seq_step_b id pl op o && leader_seq_b id (next_leader pl op o) ops' tr'
  | _, _ => true
  end.

(** the glue assumption as a predicate on a trace: every ReportState(h) that reaches the node is for a
    height that is durable at that moment (the shadow's executed height) *)
Fixpoint reports_durable (sh : shadow) (ops : list rop) (tr : list robs) : Prop :=
  match ops, tr with
  | op :: ops', o :: tr' =>
      match op with OReport h => h <= sh_chain sh | _ => True end /\ reports_durable (shadow_step sh op o) ops' tr'
  | _, _ => True
  end.
Fixpoint reports_durable_b (sh : shadow) (ops : list rop) (tr : list robs) : bool :=
  match ops, tr with
  | op :: ops', o :: tr' =>
      match op with OReport h => h <=? sh_chain sh | _ => true end && reports_durable_b (shadow_step sh op o) ops' tr'
  | _, _ => true
  end.

(** the whole property on a raft trace, as one boolean (the order is the order of the verdict detail) *)
Definition raft_prop_b (init : N) (id : N) (lg : rlog) (ops : list rop) (tr : list robs) : N :=
  if negb (contiguous_b (shadow_init init) ops tr) then 1
  else if negb (canonical_b init lg tr) then 2
  else if negb (is_prefix_b (executed (shadow_init init) ops tr) (canon_blocks init lg)) then 3
  else if negb (none_skipped_b init lg tr) then 4
  else if negb (tx_once_b tr) then 5
  else if negb (above_executed_b (shadow_init init) ops tr) then 6
  else if negb (leader_seq_b id 0 ops tr) then 7
  else 0.
(** the glue assumption is evaluated before everything else: code 8 *)
Definition raft_prop_all_b (init : N) (id : N) (lg : rlog) (ops : list rop) (tr : list robs) : N :=
  if negb (reports_durable_b (shadow_init init) ops tr) then 8 else raft_prop_b init id lg ops tr.

(** ** Judge *)
(** [b] is the implementation's observation; an empty state vector means "events only" *)
Definition obs_eqb (a b : robs) : bool :=
  list_eqb blk_eqb (b_ev a) (b_ev b) && list_eqb N.eqb (b_prop a) (b_prop b)
  && match b_st b with
     | [] => true
     | _ => list_eqb N.eqb (b_st a) (b_st b) && list_eqb (pair_eqb N.eqb N.eqb) (b_bai a) (b_bai b)
     end.

(** the flag sets allowed by [d], smallest first: the first one whose run equals the implementation's
    trace says which listed defects are needed to explain it *)
Definition subsets (d : Defects) : list Defects :=
  let o := d_solo_commit10 d in
  let opts (b : bool) := if b then [false; true] else [false] in
  let all := flat_map (fun r => flat_map (fun sn => map (fun i => mkD r sn o i (d_report_early d)) (opts (d_snapin_lost d)))
                                         (opts (d_snap_unexecuted d))) (opts (d_restart_height_only d)) in
  (* fewest flags first *)
  let size (x : Defects) : N := (if d_restart_height_only x then 1 else 0) + (if d_snap_unexecuted x then 1 else 0)
                                + (if d_snapin_lost x then 1 else 0) in
  filter (fun x => size x =? 0) all ++ filter (fun x => size x =? 1) all
  ++ filter (fun x => size x =? 2) all ++ filter (fun x => size x =? 3) all.
Definition flag_bits (d : Defects) : N :=
  (if d_restart_height_only d then 1 else 0) + (if d_snap_unexecuted d then 2 else 0) + (if d_snapin_lost d then 4 else 0).

Definition raft_case := (Defects * rcfg * rlog * list rop * list robs)%type.

(** [None] = outside the model's domain, [Some None] = equal, [Some (Some i)] = first difference.
    The first observation is the state right after construction (no op). *)
Definition run_match (dd : Defects) (c : rcfg) (lg : rlog) (ops : list rop) (o0 : robs) (tr' : list robs)
  : option (option N) :=
  let s0 := init_sys dd c in
  if negb (obs_eqb (obs_of s0 no_out) o0) then Some (Some 0)
  else match rrun dd c lg s0 ops with
       | None => None
       | Some m => Some (first_diff obs_eqb m tr' 1)
       end.

(** verdicts: (0,0) ok; (2, p + 10*bits) property predicate number p false on the implementation's
    trace, bits = the defect flags of the smallest allowed flag set whose run equals that trace
    (9 = none does); (1,i) predicate true, model differs first at step i; (3,_) outside the domain *)
Definition judge_raft (cs : raft_case) : verdict :=
  let '(d, c, lg, ops, tr) := cs in
  match tr with
  | [] => V_domain 0
  | o0 :: tr' =>
      let p := raft_prop_all_b (c_init c) (c_id c) lg ops tr' in
      let res := map (fun dd => (dd, run_match dd c lg ops o0 tr')) (subsets d) in
      let matching := find (fun r => match snd r with Some None => true | _ => false end) res in
      if negb (p =? 0) then
        match matching with
        | Some (dd, _) => V_propfalse (p + 10 * flag_bits dd)
        | None => V_propfalse (p + 90)
        end
      else match matching with
           | Some _ => V_ok
           | None =>
               fold_left (fun (best : verdict) r =>
                            match snd r with
                            | Some (Some i) => match best with
                                               | (1, j) => if j <? i then V_mismatch i else best
                                               | _ => V_mismatch i
                                               end
                            | _ => best
                            end) res (V_domain 0)
           end
  end.

(** * Solo node *)
Record smem := {
  s_last : N;              (* lastExec *)
  s_dead : bool;           (* the proposal goroutine returned after a height mismatch *)
  s_stuck : bool;          (* the main loop blocks forever on proposeC *)
  s_seq : N;               (* the pool's batchSeqNo *)
  s_held : list N;         (* txs the pool still knows (txHashMap / batchedTxs) *)
  s_seen : list N          (* txs the pool has accepted since start (duplicates by hash are refused) *)
}.
Record ssys := { sm : smem; s_chain : N; s_queue : list blk; s_blocks : list blk (* executed *) }.

Inductive sop :=
| STx (id : N)                     (* a fresh-account transaction through Prepare; batch size 1 *)
| SInject (h : N) (txs : list N)     (* a batch put on the proposal channel directly *)
| SExec
| SReport (h : N)
| SCrash.

Record sobs := {
  so_ev : list blk;
  so_st : list N;     (* lastExec dead seqNo held *)
  so_r : N;           (* 0 ok, 2 not taken *)
  so_still : N        (* report: how many transactions of the reported block the pool still returns *)
}.

Definition s_propose (m : smem) (h : N) (txs : list N) : smem * list blk * N :=
  if s_dead m then (m, [], 2)
  else if h =? s_last m + 1 then
    ({| s_last := s_last m + 1; s_dead := false; s_stuck := s_stuck m; s_seq := s_seq m; s_held := s_held m; s_seen := s_seen m |},
     [(h, txs)], 0)
  else ({| s_last := s_last m; s_dead := true; s_stuck := s_stuck m; s_seq := s_seq m; s_held := s_held m; s_seen := s_seen m |}, [], 0).

Fixpoint remove_all (xs : list N) (l : list N) : list N :=
  match l with [] => [] | y :: t => if mem_N y xs then remove_all xs t else y :: remove_all xs t end.

Definition find_block (h : N) (bs : list blk) : list N :=
  match find (fun b => fst b =? h) bs with Some b => snd b | None => [] end.

Definition init_ssys (init : N) : ssys :=
  {| sm := {| s_last := init; s_dead := false; s_stuck := false; s_seq := init; s_held := []; s_seen := [] |};
     s_chain := init; s_queue := []; s_blocks := [] |}.

Definition count_held (xs held : list N) : N := N.of_nat (length (filter (fun x => mem_N x held) xs)).

Definition sstep (d : Defects) (s : ssys) (op : sop) : ssys * list blk * N :=
  let m := sm s in
  match op with
  | STx id =>
      if s_stuck m || mem_N id (s_seen m) then (s, [], 0)
      else
        let m1 := {| s_last := s_last m; s_dead := s_dead m; s_stuck := s_dead m; s_seq := s_seq m + 1;
                     s_held := s_held m ++ [id]; s_seen := id :: s_seen m |} in
        let '(m2, ev, _) := s_propose m1 (s_seq m + 1) [id] in
        ({| sm := m2; s_chain := s_chain s; s_queue := s_queue s ++ ev; s_blocks := s_blocks s |}, ev, 0)
  | SInject h txs =>
      let '(m2, ev, r) := s_propose m h txs in
      ({| sm := m2; s_chain := s_chain s; s_queue := s_queue s ++ ev; s_blocks := s_blocks s |}, ev, r)
  | SExec =>
      match s_queue s with
      | [] => (s, [], 0)
      | b :: q => ({| sm := m; s_chain := fst b; s_queue := q; s_blocks := b :: s_blocks s |}, [], 0)
      end
  | SReport h =>
      if s_stuck m then (s, [], 2)
      else if d_solo_commit10 d && negb (h mod 10 =? 0) then (s, [], 0)
      else
        ({| sm := {| s_last := s_last m; s_dead := s_dead m; s_stuck := s_stuck m; s_seq := s_seq m;
                     s_held := remove_all (find_block h (s_blocks s)) (s_held m); s_seen := s_seen m |};
            s_chain := s_chain s; s_queue := s_queue s; s_blocks := s_blocks s |}, [], 0)
  | SCrash =>
      ({| sm := {| s_last := s_chain s; s_dead := false; s_stuck := false; s_seq := s_chain s; s_held := []; s_seen := [] |};
          s_chain := s_chain s; s_queue := []; s_blocks := s_blocks s |}, [], 0)
  end.

Definition sobs_of (s : ssys) (op : option sop) (ev : list blk) (r : N) : sobs :=
  let m := sm s in
  {| so_ev := ev; so_st := [s_last m; if s_dead m then 1 else 0; s_seq m; N.of_nat (length (s_held m))]; so_r := r;
     so_still := match op with
                 | Some (SReport h) => if r =? 0 then count_held (find_block h (s_blocks s)) (s_held m) else 0
                 | _ => 0
                 end |}.

Fixpoint srun (d : Defects) (s : ssys) (ops : list sop) : list sobs :=
  match ops with
  | [] => []
  | op :: t => let '(s', ev, r) := sstep d s op in sobs_of s' (Some op) ev r :: srun d s' t
  end.

(** solo trace predicates *)
Definition sshadow_step (sh : shadow) (op : sop) (o : sobs) : shadow :=
  match op with
  | SExec => match sh_queue sh with
             | [] => sh
             | b :: q => {| sh_cur := sh_cur sh; sh_chain := fst b; sh_queue := q |}
             end
  | SCrash => {| sh_cur := sh_chain sh; sh_chain := sh_chain sh; sh_queue := [] |}
  | _ => {| sh_cur := sh_cur sh + N.of_nat (length (so_ev o)); sh_chain := sh_chain sh; sh_queue := sh_queue sh ++ so_ev o |}
  end.
Fixpoint solo_contiguous (sh : shadow) (ops : list sop) (tr : list sobs) : Prop :=
  match ops, tr with
  | op :: ops', o :: tr' =>
      contig_from (match op with SCrash => sh_chain sh | _ => sh_cur sh end) (so_ev o)
      /\ solo_contiguous (sshadow_step sh op o) ops' tr'
  | _, _ => True
  end.
Fixpoint solo_contiguous_b (sh : shadow) (ops : list sop) (tr : list sobs) : bool :=
  match ops, tr with
  | op :: ops', o :: tr' =>
      contig_from_b (match op with SCrash => sh_chain sh | _ => sh_cur sh end) (so_ev o)
      && solo_contiguous_b (sshadow_step sh op o) ops' tr'
  | _, _ => true
  end.

(** a report that the node took makes the pool forget the reported block's transactions *)
Definition solo_commits (ops : list sop) (tr : list sobs) : Prop :=
  Forall (fun o => so_still o = 0) tr.
Definition solo_commits_b (ops : list sop) (tr : list sobs) : bool :=
  forallb (fun o => so_still o =? 0) tr.

Definition sobs_eqb (a b : sobs) : bool :=
  list_eqb blk_eqb (so_ev a) (so_ev b) && list_eqb N.eqb (so_st a) (so_st b) && (so_r a =? so_r b)
  && (so_still a =? so_still b).

Definition solo_case := (Defects * N * list sop * list sobs)%type.
Definition judge_solo (cs : solo_case) : verdict :=
  let '(d, init, ops, tr) := cs in
  match tr with
  | [] => V_domain 0
  | o0 :: tr' =>
      if negb (solo_contiguous_b (shadow_init init) ops tr') then V_propfalse 1
      else if negb (tx_once_lb (flat_map so_ev tr')) then V_propfalse 5
      else if negb (solo_commits_b ops tr') then V_propfalse 6
      else
        let try1 (dd : Defects) :=
          first_diff sobs_eqb (sobs_of (init_ssys init) None [] 0 :: srun dd (init_ssys init) ops) tr 0 in
        match try1 d with
        | None => V_ok
        | Some i => if d_solo_commit10 d
                    then match try1 (mkD (d_restart_height_only d) (d_snap_unexecuted d) false (d_snapin_lost d) (d_report_early d)) with
                         | None => V_ok
                         | Some j => V_mismatch (N.max i j)
                         end
                    else V_mismatch i
        end
  end.
