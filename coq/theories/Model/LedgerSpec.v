(** Reference specification of the state ledger: finite maps + snapshot stack + committed
    history, the property predicates evaluated on traces, and the correspondence judge.

    The specification knows nothing about caches, account objects, origin values, journals or
    undo logs: a read returns the last written value, a revert restores the map saved by the
    snapshot, a rollback restores the map recorded at that commit.  Values are normalised
    ([nil] = empty = absent), exactly as [bytes.Equal] identifies them in the code.
    Definitions only. *)
From BX Require Import Base.Prelude Model.JsonAcct Model.Merkle Model.StateLedger.
Local Open Scope N_scope.

(** * specification state *)
Record sacct := mkSA { sa_nonce : N; sa_bal : Z; sa_code : bytes; sa_ch : val }.
Definition sa0 : sacct := mkSA 0 0 [] None.
Definition sacct_eqb (x y : sacct) : bool :=
  (sa_nonce x =? sa_nonce y) && (sa_bal x =? sa_bal y)%Z && bytes_eqb (sa_code x) (sa_code y) &&
  veqb (sa_ch x) (sa_ch y).

Record smap := mkSM { sm_acct : list (N * sacct); sm_st : list ((N * bytes) * bytes) }.
Definition sm0 : smap := mkSM [] [].
Definition sm_acct_get (m : smap) (a : N) : sacct :=
  match aget a (sm_acct m) with Some x => x | None => sa0 end.
Definition sm_st_get (m : smap) (a : N) (k : bytes) : bytes :=
  match sget (a, k) (sm_st m) with Some b => b | None => [] end.
Definition sm_acct_set (m : smap) (a : N) (x : sacct) : smap := mkSM (aput a x (sm_acct m)) (sm_st m).
Definition sm_st_set (m : smap) (a : N) (k : bytes) (b : bytes) : smap :=
  mkSM (sm_acct m) (sput (a, k) b (sm_st m)).

(** one recorded flush: previous root, canonical change set, accounts whose record was written,
    observed root *)
Record chgset := mkCS { cs_acct : list (N * sacct); cs_st : list ((N * bytes) * bytes) }.
Record flushrec := mkFR { fr_prev : bytes; fr_chg : chgset; fr_touched : list N; fr_root : bytes }.

Record spec := mkSpec {
  sp_cur : smap;                           (* what reads must return now *)
  sp_fl : smap;                            (* state as of the last flush (block start) *)
  sp_pend : bool;                          (* flushed, not yet committed *)
  sp_hist : list (N * (smap * bytes));     (* height -> committed state and its root *)
  sp_min : N; sp_max : N;                  (* retained window *)
  sp_snaps : list (N * (smap * bool));     (* id -> (saved map, tainted by a non-journaled write) *)
  sp_next : N;
  sp_prev : bytes;                         (* root the next flush chains from (as observed) *)
  sp_touched : list N;
  sp_flushes : list flushrec               (* newest first *)
}.
Definition spec0 : spec := mkSpec sm0 sm0 false [] 0 0 [] 0 zero32 [] [].

Definition sp_set_cur (s : spec) (c : smap) : spec :=
  mkSpec c (sp_fl s) (sp_pend s) (sp_hist s) (sp_min s) (sp_max s) (sp_snaps s) (sp_next s) (sp_prev s)
         (sp_touched s) (sp_flushes s).
Definition sp_set_snaps (s : spec) (x : list (N * (smap * bool))) (nx : N) : spec :=
  mkSpec (sp_cur s) (sp_fl s) (sp_pend s) (sp_hist s) (sp_min s) (sp_max s) x nx (sp_prev s)
         (sp_touched s) (sp_flushes s).
Definition sp_touch (s : spec) (a : N) : spec :=
  mkSpec (sp_cur s) (sp_fl s) (sp_pend s) (sp_hist s) (sp_min s) (sp_max s) (sp_snaps s) (sp_next s) (sp_prev s)
         (a :: sp_touched s) (sp_flushes s).
(** a snapshot no later revert may be claimed for: a non-journaled write happened after it, or the
    in-block state it refers to was dropped (the implementation keeps the revision id valid) *)
Definition taint (l : list (N * (smap * bool))) : list (N * (smap * bool)) :=
  map (fun x : N * (smap * bool) => (fst x, (fst (snd x), true))) l.

(** drop the in-block writes (Clear): back to the state of the last flush; snapshots die *)
Definition sp_clear (s : spec) : spec :=
  mkSpec (sp_fl s) (sp_fl s) (sp_pend s) (sp_hist s) (sp_min s) (sp_max s) (taint (sp_snaps s)) (sp_next s) (sp_prev s)
         [] (sp_flushes s).

(** * expected observables *)
Inductive sx := XZ (z : Z) | XN (n : N) | XB (b : bytes) | XC (b : bytes).
Inductive sexp := EAny | ES (x : sx) | EL (l : list bytes) | ERes (r : N) | EDump (l : list sx).

Definition nonempty (b : bytes) : bool := negb (bytes_eqb b []).
(** [strict]: additionally the existence flag of GetState must say "the value is non-empty",
    the existence flag of a query "some value is live", and a query lists no empty value *)
Definition sx_match (strict : bool) (x : sx) (o : sout) : bool :=
  match x, o with
  | XZ z, SZ z' => (z =? z')%Z
  | XN n, SN n' => n =? n'
  | XB b, SVal v => bytes_eqb b (nb v)
  | XB b, SGet ex v => bytes_eqb b (nb v) && (negb strict || Bool.eqb ex (nonempty b))
  (* committed value in the EVM's convention: an absent value may read as nil or as the zero hash *)
  | XC b, SVal v => if nonempty b then bytes_eqb b (nb v) else (bytes_eqb (nb v) [] || bytes_eqb (nb v) zero32)
  | _, _ => false
  end.
Fixpoint dump_match (strict : bool) (l : list sx) (l' : list sout) : bool :=
  match l, l' with
  | [], [] => true
  | x :: t, y :: t' => sx_match strict x y && dump_match strict t t'
  | _, _ => false
  end.
Definition sexp_match (strict : bool) (x : sexp) (o : out) : bool :=
  match x, o with
  | EAny, _ => true
  | ES s, OS o' => sx_match strict s o'
  | EL l, OQuery ex vs =>
      if strict then list_eqb bytes_eqb l (map nb vs) && Bool.eqb ex (negb (Nat.eqb (List.length l) 0))
      else list_eqb bytes_eqb l (filter nonempty (map nb vs))
  | ERes r, ORes r' => r =? r'
  | EDump l, ODump l' => dump_match strict l l'
  | _, _ => false
  end.

(** * canonical change set between the block-start map and the current map *)
Fixpoint dedup_adj {A} (eqb : A -> A -> bool) (l : list A) : list A :=
  match l with
  | x :: (y :: _) as t => if eqb x y then dedup_adj eqb t else x :: dedup_adj eqb t
  | _ => l
  end.
Definition sk_leb (x y : N * bytes) : bool :=
  if fst x =? fst y then bytes_leb (snd x) (snd y) else fst x <? fst y.

Definition change_set (fl cur : smap) : chgset :=
  let accts := dedup_adj N.eqb (isort n_leb (map fst (sm_acct cur) ++ map fst (sm_acct fl))) in
  let keys := dedup_adj sk_eqb (isort sk_leb (map fst (sm_st cur) ++ map fst (sm_st fl))) in
  mkCS (flat_map (fun a => if sacct_eqb (sm_acct_get cur a) (sm_acct_get fl a) then []
                           else [(a, sm_acct_get cur a)]) accts)
       (flat_map (fun ak : N * bytes =>
                    if bytes_eqb (sm_st_get cur (fst ak) (snd ak)) (sm_st_get fl (fst ak) (snd ak)) then []
                    else [(ak, sm_st_get cur (fst ak) (snd ak))]) keys).

Definition chgset_eqb (x y : chgset) : bool :=
  list_eqb (fun p q : N * sacct => (fst p =? fst q) && sacct_eqb (snd p) (snd q)) (cs_acct x) (cs_acct y) &&
  list_eqb (fun p q : (N * bytes) * bytes => sk_eqb (fst p) (fst q) && bytes_eqb (snd p) (snd q)) (cs_st x) (cs_st y).

(** * specification step; [obs] is the observed output (only a flush root is taken from it) *)
Definition live_values (m : smap) (a : N) (p : bytes) : list bytes :=
  isort bytes_leb
    (flat_map (fun kv : (N * bytes) * bytes =>
                 if (fst (fst kv) =? a) && is_prefix p (snd (fst kv)) && nonempty (snd kv) then [snd kv] else [])
              (sm_st m)).

Definition spec_dump (m : smap) (accts : list N) (ks : list bytes) : list sx :=
  flat_map (fun a => let x := sm_acct_get m a in
                     [XZ (sa_bal x); XN (sa_nonce x); XB (sa_code x)] ++ map (fun k => XB (sm_st_get m a k)) ks)
           accts.

Definition hist_get (s : spec) (h : N) : option (smap * bytes) :=
  if h =? 0 then Some (sm0, zero32) else alookup N.eqb h (sp_hist s).

Definition spec_step (e : env) (s : spec) (o : op) (obs : out) : spec * sexp :=
  let cur := sp_cur s in
  match o with
  | GetBal a => (s, ES (XZ (sa_bal (sm_acct_get cur a))))
  | GetNonce a => (s, ES (XN (sa_nonce (sm_acct_get cur a))))
  | GetCode a => (s, ES (XB (sa_code (sm_acct_get cur a))))
  | GetSt a k => (s, ES (XB (sm_st_get cur a k)))
  | GetCommitted a k => (s, ES (XC (sm_st_get (sp_fl s) a k)))     (* the value as of the block start *)
  | Query a p => (s, EL (live_values cur a p))
  | SetBal a z =>
      let x := sm_acct_get cur a in
      (sp_touch (sp_set_cur s (sm_acct_set cur a (mkSA (sa_nonce x) z (sa_code x) (sa_ch x)))) a, EAny)
  | AddBal a z =>
      if (z =? 0)%Z then (s, EAny)
      else let x := sm_acct_get cur a in
           (sp_touch (sp_set_cur s (sm_acct_set cur a (mkSA (sa_nonce x) (sa_bal x + z)%Z (sa_code x) (sa_ch x)))) a, EAny)
  | SetNonce a n =>
      let x := sm_acct_get cur a in
      (sp_touch (sp_set_cur s (sm_acct_set cur a (mkSA n (sa_bal x) (sa_code x) (sa_ch x)))) a, EAny)
  | SetCode a c =>
      let x := sm_acct_get cur a in
      (sp_touch (sp_set_cur s (sm_acct_set cur a (mkSA (sa_nonce x) (sa_bal x) (nb c) (Some (e_kec e (nb c)))))) a, EAny)
  | SetSt a k v => (sp_set_cur s (sm_st_set cur a k (nb v)), EAny)
  | AddSt a k v =>
      let s1 := sp_set_cur s (sm_st_set cur a k (nb v)) in
      (sp_set_snaps s1 (taint (sp_snaps s1)) (sp_next s1), EAny)
  | Snap => (sp_set_snaps s ((sp_next s, (cur, false)) :: sp_snaps s) (sp_next s + 1), ES (XN (sp_next s)))
  | Revert id =>
      match alookup N.eqb id (sp_snaps s) with
      | None => (s, ERes R_panic)
      | Some (saved, _) =>
          (sp_set_snaps (sp_set_cur s saved) (filter (fun x : N * (smap * bool) => fst x <? id) (sp_snaps s)) (sp_next s),
           ERes R_ok)
      end
  | Finalise => (sp_set_snaps s [] 0, EAny)
  | Clear => (sp_clear s, EAny)
  | Flush =>
      let root := match obs with OFlush r _ => r | _ => [] end in
      let fr := mkFR (sp_prev s) (change_set (sp_fl s) cur) (dedup_adj N.eqb (isort n_leb (sp_touched s))) root in
      (mkSpec cur cur true (sp_hist s) (sp_min s) (sp_max s) (taint (sp_snaps s)) (sp_next s) root []
              (fr :: sp_flushes s), EAny)
  | Commit h =>
      if sp_pend s then
        let min1 := if sp_min s =? 0 then h else sp_min s in
        let min2 := if (10 <? h) && (min1 <? h - 10) then h - 10 else min1 in
        (mkSpec cur (sp_fl s) false (aset N.eqb h (sp_fl s, sp_prev s) (sp_hist s)) min2 h (sp_snaps s)
                (sp_next s) (sp_prev s) (sp_touched s) (sp_flushes s), ERes R_ok)
      else (s, ERes R_nojournal)
  | Rollback h =>
      if sp_max s <? h then (s, ERes R_higher)
      else if (h <? sp_min s) && negb ((sp_min s =? 1) && (h =? 0)) then (s, ERes R_toomuch)
      else if sp_max s =? h then (sp_clear s, ERes R_ok)       (* uncommitted writes are discarded *)
      else match hist_get s h with
           | Some (m, root) =>
               (mkSpec m m (sp_pend s) (filter (fun x : N * (smap * bytes) => fst x <=? h) (sp_hist s))
                       (if h =? 0 then 0 else sp_min s) h (taint (sp_snaps s)) (sp_next s) root [] (sp_flushes s),
                ERes R_ok)
           | None => (s, EAny)
           end
  | Version => (s, ES (XN (sp_max s)))
  | Reopen =>
      let s1 := sp_clear s in (sp_set_snaps s1 [] 0, ERes R_ok)
  | Evict _ _ _ => (s, EAny)
  | DbDump => (s, EAny)
  | Dump accts ks => (sp_clear s, EDump (spec_dump cur accts ks))
  end.

(** * domains (decidable, evaluated along the specification run)

    [wf_op_b] gates the predicate evaluated on traces: past the first op outside it the
    specification makes no claim.  [wf_thm_b] is the (smaller) domain of the refinement theorem. *)
Definition read_only (o : op) : bool :=
  match o with
  | GetBal _ | GetNonce _ | GetCode _ | GetSt _ _ | GetCommitted _ _ | Query _ _ | Version | DbDump => true
  | _ => false
  end.

(** what may happen between a flush and its commit (the executor runs ahead of persistence):
    the commit of the next height, reads, and the next block's writes / snapshots; not a second
    flush, a rollback, a reopen or an eviction *)
Definition pending_ok (s : spec) (o : op) : bool :=
  match o with
  | Commit h => h =? sp_max s + 1
  | Flush | Rollback _ | Reopen | Evict _ _ _ => false
  | _ => true
  end.

Definition wf_op_b (s : spec) (o : op) : bool :=
  (if sp_pend s then pending_ok s o else true) &&
  match o with
  | Revert id => match alookup N.eqb id (sp_snaps s) with Some (_, t) => negb t | None => true end
  (* LRU evictions happen while a flush fills the cache, never inside a transaction *)
  | Evict _ _ _ => forallb (fun x : N * (smap * bool) => snd (snd x)) (sp_snaps s)     (* no live snapshot *)
  | Rollback h =>
      (* inside the window the target must be a height recorded by a commit *)
      if (sp_max s <? h) || ((h <? sp_min s) && negb ((sp_min s =? 1) && (h =? 0))) || (sp_max s =? h) then true
      else match hist_get s h with Some _ => true | None => false end
  | _ => true
  end.

(** ops inside the refinement theorem: all of them, since GetCommittedState (the value as of the
    block start) and SetCode(nil) (code := empty) were repaired *)
Definition thm_op (o : op) : bool := true.
Definition wf_thm_b (s : spec) (o : op) : bool :=
  wf_op_b s o && thm_op o && (if sp_pend s then match o with Commit _ => true | _ => false end else true).

(** * P_b, part 1: the trace agrees with the specification.
    Result: None = agrees on the whole prefix inside the domain [gate]; Some i = first disagreement. *)
Fixpoint spec_agree_g (gate : spec -> op -> bool) (strict : bool) (e : env) (s : spec)
         (ops : list op) (outs : list out) (i : N) : option N * spec :=
  match ops, outs with
  | o :: t, x :: t' =>
      if negb (gate s o) then (None, s)
      else let '(s1, ex) := spec_step e s o x in
           if sexp_match strict ex x then spec_agree_g gate strict e s1 t t' (i + 1) else (Some i, s1)
  | _, _ => (None, s)
  end.
Definition spec_agree := spec_agree_g wf_op_b.

(** the Prop form of the same predicate, for the theorems *)
Fixpoint spec_agree_P (gate : spec -> op -> bool) (strict : bool) (e : env) (s : spec)
         (ops : list op) (outs : list out) : Prop :=
  match ops, outs with
  | o :: t, x :: t' =>
      gate s o = true ->
      sexp_match strict (snd (spec_step e s o x)) x = true /\
      spec_agree_P gate strict e (fst (spec_step e s o x)) t t'
  | _, _ => True
  end.

(** * P_b, part 2: the root is an injective function of (previous root, change set) *)
Definition fr_key_eqb (x y : flushrec) : bool :=
  bytes_eqb (fr_prev x) (fr_prev y) && chgset_eqb (fr_chg x) (fr_chg y).
Definition fr_full_eqb (x y : flushrec) : bool :=
  fr_key_eqb x y && list_eqb N.eqb (fr_touched x) (fr_touched y).

(** what the state hash actually sees of a change set: per account the concatenation
    k1 v1 k2 v2 ... (no length prefixes) *)
Definition st_concat (l : list ((N * bytes) * bytes)) : list (N * bytes) :=
  isort (fun x y : N * bytes => fst x <=? fst y)
        (fold_left (fun acc (kv : (N * bytes) * bytes) =>
                      let a := fst (fst kv) in
                      aput a ((match aget a acc with Some b => b | None => [] end) ++ snd (fst kv) ++ snd kv) acc)
                   l []).
(** an account whose record changed is hashed anyway: for it, state changes with an empty
    concatenation (the key "" deleted) are indistinguishable from no state change *)
Definition st_sig (c : chgset) : list (N * bytes) :=
  filter (fun ab : N * bytes => nonempty (snd ab) || negb (existsb (N.eqb (fst ab)) (map fst (cs_acct c))))
         (st_concat (cs_st c)).
Definition fr_concat_eqb (x y : flushrec) : bool :=
  bytes_eqb (fr_prev x) (fr_prev y) &&
  list_eqb (fun p q : N * sacct => (fst p =? fst q) && sacct_eqb (snd p) (snd q)) (cs_acct (fr_chg x)) (cs_acct (fr_chg y)) &&
  list_eqb (fun p q : N * bytes => (fst p =? fst q) && bytes_eqb (snd p) (snd q)) (st_sig (fr_chg x)) (st_sig (fr_chg y)) &&
  list_eqb N.eqb (fr_touched x) (fr_touched y).

(** an account that received a record write (possibly reverted) although its record did not change:
    the implementation may or may not hold a dirty copy of it, and the root depends on that
    (open finding C10-root-noop-account-write) *)
Definition noop_touched (f : flushrec) : bool :=
  existsb (fun a => negb (existsb (N.eqb a) (map fst (cs_acct (fr_chg f))))) (fr_touched f).

(** 0 = fine;
    1 = same (prev, changes), no account written without changing, but different roots;
    2 = different (prev, changes) but equal roots;
    3 = same (prev, changes), some account written without changing, different roots;
    4 = different change sets with the same key/value concatenation per account, equal roots *)
Definition fr_pair_check (x y : flushrec) : N :=
  let same_root := bytes_eqb (fr_root x) (fr_root y) in
  if fr_key_eqb x y then
    (if same_root then 0 else if noop_touched x || noop_touched y then 3 else 1)
  else if same_root then (if fr_concat_eqb x y then 4 else 2) else 0.

(** over all pairs: the most severe kind (1 and 2 are not explained by a listed finding) *)
Definition worse (r1 r2 : N) : N := if r1 =? 0 then r2 else if r2 =? 0 then r1 else N.min r1 r2.
Fixpoint fr_check_one (x : flushrec) (l : list flushrec) : N :=
  match l with
  | [] => 0
  | y :: t => worse (fr_pair_check x y) (fr_check_one x t)
  end.
Fixpoint roots_check (l : list flushrec) : N :=
  match l with
  | [] => 0
  | x :: t => worse (fr_check_one x t) (roots_check t)
  end.

(** * judge *)
Record hcase := mkHC { hc_ops : list op; hc_outs : list out }.

Definition run_outs (e : env) (c : cfg) (ops : list op) : st * list out := run e c st0 ops.

Fixpoint first_some {A} (l : list (option A)) (i : N) : option (N * A) :=
  match l with
  | [] => None
  | Some x :: _ => Some (i, x)
  | None :: t => first_some t (i + 1)
  end.

(** does the model under configuration [c] reproduce the observed trace?  None = yes *)
Definition model_diff (e : env) (c : cfg) (h : hcase) : option N * bool :=
  let '(m, outs) := run_outs e c (hc_ops h) in
  (first_diff out_eqb outs (hc_outs h) 0, s_bad m).

(** mode: bit 0 = compare reads with the specification, bit 1 = check the roots,
    bit 2 = also the strict reading (existence flags, empty values in queries),
    bit 3 = stored code hash = Keccak of the stored code in every raw dump ((2, 700000 + ...)),
    bit 4 = exact presence of storage values ((2, 300000 + ...)).
    Verdict detail: history index * 10000 + step for (1,_) and (2,_) from the specification;
    (2, 500000 + history index * 10000 + step) when only the strict reading fails;
    (2, 900000 + r) for a root check failure of kind r (see [fr_pair_check]). *)
(** P_b, exact presence: the same predicate on an encoding of the trace in which a present value b
    is written 1 :: b and an absent one is empty, so that "present and empty" and "absent" differ.
    Only used on histories built for it (the implementation identifies the two when an empty
    value is written to an absent key or a present-empty key is deleted: open finding). *)
Definition enc_val (v : val) : val := match v with Some b => Some (1 :: b) | None => None end.
Definition enc_op (o : op) : op :=
  match o with
  | SetSt a k v => SetSt a k (enc_val v)
  | AddSt a k v => AddSt a k (enc_val v)
  | o' => o'
  end.
Definition enc_sout (x : sout) : sout :=
  match x with
  | SGet ex v => SGet ex (if ex then Some (1 :: nb v) else None)
  | x' => x'
  end.
Definition enc_out (x : out) : out :=
  match x with
  | OS s => OS (enc_sout s)
  | OQuery ex l => OQuery ex (map enc_val l)
  | ODump l => ODump (map enc_sout l)
  | x' => x'
  end.

(** P_b, part 3: in every raw dump of the store, an account's code hash is the Keccak of the code
    stored for it (of the empty code when none is stored).  Some i = first dump that violates it. *)
Definition db_code_consistent (e : env) (d : dbview) : bool :=
  forallb (fun row : N * acct * bytes =>
             match ac_ch (snd (fst row)) with
             | None => true
             | Some h => bytes_eqb h (e_kec e (match alookup N.eqb (fst (fst row)) (v_code d) with Some c => c | None => [] end))
             end) (v_acct d).
Fixpoint dumps_consistent (e : env) (outs : list out) (i : N) : option N :=
  match outs with
  | [] => None
  | ODb d :: t => if db_code_consistent e d then dumps_consistent e t (i + 1) else Some i
  | _ :: t => dumps_consistent e t (i + 1)
  end.
(** number of leading steps inside the predicate's domain (no claim is made past it) *)
Fixpoint wf_prefix (e : env) (s : spec) (ops : list op) (outs : list out) : nat :=
  match ops, outs with
  | o :: t, x :: t' => if wf_op_b s o then S (wf_prefix e (fst (spec_step e s o x)) t t') else O
  | _, _ => O
  end.

Definition pb_verdict (e : env) (mode : N) (g : list hcase) : verdict :=
  let runs := map (fun h => spec_agree false e spec0 (hc_ops h) (hc_outs h) 0) g in
  let agree := if N.testbit mode 0 then first_some (map fst runs) 0 else None in
  let flushes := flat_map (fun r : option N * spec => sp_flushes (snd r)) runs in
  let rc := if N.testbit mode 1 then roots_check flushes else 0 in
  let dumps := if N.testbit mode 3
               then first_some (map (fun h => dumps_consistent e (firstn (wf_prefix e spec0 (hc_ops h) (hc_outs h)) (hc_outs h)) 0) g) 0
               else None in
  let strict := if N.testbit mode 2
                then first_some (map (fun h => fst (spec_agree true e spec0 (hc_ops h) (hc_outs h) 0)) g) 0 else None in
  let exact := if N.testbit mode 4
               then first_some (map (fun h => fst (spec_agree false e spec0 (map enc_op (hc_ops h)) (map enc_out (hc_outs h)) 0)) g) 0
               else None in
  (* most severe first: failures no listed finding can explain before those one may explain *)
  match agree with
  | Some (hi, i) => V_propfalse (hi * 10000 + i)
  | None =>
      match exact with
      | Some (hi, i) => V_propfalse (300000 + hi * 10000 + i)
      | None =>
      match dumps with
      | Some (hi, i) => V_propfalse (700000 + hi * 10000 + i)
      | None =>
          if (rc =? 1) || (rc =? 2) then V_propfalse (900000 + rc)
          else match strict with
               | Some (hi, i) => V_propfalse (500000 + hi * 10000 + i)
               | None => if rc =? 0 then V_ok else V_propfalse (900000 + rc)
               end
      end
      end
  end.

(** correspondence under one configuration: (0,_) reproduced, (1,i) differs, (3,_) left the domain *)
Definition corr_one (e : env) (c : cfg) (g : list hcase) : verdict :=
  let ds := map (model_diff e c) g in
  match first_some (map fst ds) 0 with
  | Some (hi, i) => V_mismatch (hi * 10000 + i)
  | None => V_ok
  end.

(** first allowed configuration that reproduces the group (searched lazily): (verdict, index) *)
Fixpoint corr_search (e : env) (cfgs : list cfg) (g : list hcase) (i : N) (first : option verdict)
  : verdict * N :=
  match cfgs with
  | [] => (match first with Some v => v | None => V_domain 3 end, 99)
  | c :: t =>
      let v := corr_one e c g in
      if fst v =? 0 then (v, i)
      else corr_search e t g (i + 1) (match first with Some f => Some f | None => Some v end)
  end.

(** three pairs per case: the property predicate on the implementation's traces (evaluated first,
    without the model), the correspondence verdict, (index of the matching configuration, 0) *)
Definition judge_group (e : env) (cfgs : list cfg) (mode : N) (g : list hcase) : list verdict :=
  if negb (forallb (fun h => forallb op_in_domain (hc_ops h)) g)
  then [pb_verdict e mode g; V_domain 1; (99, 0)]
  else let '(v, i) := corr_search e cfgs g 0 None in [pb_verdict e mode g; v; (i, 0)].

(** all sub-configurations of a configuration (the subset lattice of DESIGN 3.3) *)
Definition cfg_subsets (c : cfg) : list cfg :=
  let opt (b : bool) := if b then [true; false] else [false] in
  flat_map (fun a => flat_map (fun b => flat_map (fun c' => flat_map (fun d => flat_map (fun e' => flat_map (fun f =>
    flat_map (fun g => map (fun h => mkCfg a b c' d e' f g h) (opt (d_setcode_nil c))) (opt (d_getcommitted c)))
    (opt (d_rb_head_dirty c))) (opt (d_orphan_changer c))) (opt (d_addstate_origin c)))
    (opt (d_query_cache c))) (opt (d_query_nil c))) (opt (d_query_dupkey c)).

(** the open (not repaired) defects of the tree the checks run against *)
Definition cfg_current : cfg := cfg_fixed.

(** * the full ledger (state ledger + chain ledger behind [ledger.Ledger])

    The chain half is observed as a list of numbers: head height, persisted head height, number of
    blocks in the blockfile, head hash, persisted head hash, then the block hash per height 1..16
    (0 = no such block; hashes interned per history).  Claim evaluated on implementation traces
    (the state half of the same trace is judged by [judge_group] as usual): a refused rollback and a
    failed commit leave the chain half untouched; an accepted Rollback(t) leaves memory, store and
    blockfile at height t with the blocks up to t as they were and none above; an accepted Commit(h)
    leaves them at height h with the blocks below h as they were; every other operation (state reads
    and writes, flush, reopen) does not move the chain half.  Result: first offending step. *)
Definition chain_heights_at (c : list N) (h : N) : bool :=
  match c with a :: b :: n :: _ => (a =? h) && (b =? h) && (n =? h) | _ => false end.
Fixpoint chain_cut_ok (h j : N) (above : bool) (c p : list N) : bool :=
  match c, p with
  | x :: c', y :: p' =>
      (if j <=? h then x =? y else if above then x =? 0 else true) && chain_cut_ok h (j + 1) above c' p'
  | [], [] => true
  | _, _ => false
  end.
Fixpoint full_frame_g (ops : list op) (outs : list out) (chs : list (list N)) (prev : list N) (i : N) : option N :=
  match ops, outs, chs with
  | o :: t, x :: t', c :: t'' =>
      let same := list_eqb N.eqb c prev in
      let ok := match o, x with
                | Rollback h, ORes r =>
                    if r =? R_ok then chain_heights_at c h && chain_cut_ok h 1 true (skipn 5 c) (skipn 5 prev) else same
                | Commit h, ORes r =>
                    if r =? R_ok then chain_heights_at c h && chain_cut_ok (h - 1) 1 false (skipn 5 c) (skipn 5 prev) else same
                | _, _ => same
                end in
      if ok then full_frame_g t t' t'' c (i + 1) else Some i
  | _, _, _ => None
  end.

