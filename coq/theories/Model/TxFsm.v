(** The cross-chain transaction status machine, instantiated with the table regenerated from
    transaction_manager.go on every run ([BXGen.Gen_TxFsm]).  Definitions only. *)
From BX Require Import Base.Prelude Base.Fsm.
From BXGen Require Import Gen_TxFsm.
From Coq Require Import String.
Local Open Scope string_scope.

(** numeric status <-> FSM state name (pb.TransactionStatus_name / _value) *)
Definition status_name (n : N) : string :=
  match find (fun p : string * N => N.eqb (snd p) n) tx_status_values with
  | Some p => fst p
  | None => ""
  end.
Definition status_value (s : string) : N :=
  match find (fun p : string * N => String.eqb (fst p) s) tx_status_values with
  | Some p => snd p
  | None => 0%N          (* Go: map lookup of a missing key yields 0 *)
  end.

Definition event_of_receipt (r : N) : string :=
  match alookup N.eqb r receipt2event with Some e => e | None => "" end.
Definition event_of_txstatus (r : N) : string :=
  match alookup N.eqb r txstatus2event with Some e => e | None => "" end.

(** [setFSM(&status, event)]: None = error (status unchanged), Some s' = new status *)
Definition set_fsm (status : N) (ev : string) : option N :=
  match fsm_fire tx_fsm_events (status_name status) ev with
  | Some d => Some (status_value d)
  | None => None
  end.

Definition ST_BEGIN := 0%N.
Definition ST_BEGIN_FAILURE := 1%N.
Definition ST_BEGIN_ROLLBACK := 2%N.
Definition ST_SUCCESS := 3%N.
Definition ST_FAILURE := 4%N.
Definition ST_ROLLBACK := 5%N.
Definition is_final (s : N) : bool := (s =? ST_SUCCESS)%N || (s =? ST_FAILURE)%N || (s =? ST_ROLLBACK)%N.

(** the transitions the protocol (property C04) allows, as (src, dst) on status names *)
Definition allowed_edges : list (string * string) :=
  [("init", "BEGIN"); ("init", "BEGIN_FAILURE"); ("BEGIN", "BEGIN_FAILURE");
   ("BEGIN", "SUCCESS"); ("BEGIN", "FAILURE"); ("BEGIN", "BEGIN_ROLLBACK");
   ("BEGIN", "ROLLBACK");
   ("BEGIN_FAILURE", "FAILURE"); ("BEGIN_ROLLBACK", "ROLLBACK")].
(** which event may cause which edge *)
Definition allowed_triples : list (string * string * string) :=
  [("init", "begin", "BEGIN"); ("init", "begin_failure", "BEGIN_FAILURE");
   ("BEGIN", "begin_failure", "BEGIN_FAILURE");
   ("BEGIN", "success", "SUCCESS"); ("BEGIN", "failure", "FAILURE");
   ("BEGIN", "timeout", "BEGIN_ROLLBACK");
   ("BEGIN", "dst_failure", "FAILURE"); ("BEGIN", "dst_rollback", "ROLLBACK");
   ("BEGIN_FAILURE", "failure", "FAILURE");
   ("BEGIN_ROLLBACK", "rollback", "ROLLBACK"); ("BEGIN_ROLLBACK", "failure", "ROLLBACK")].

Definition final_names : list string := ["SUCCESS"; "FAILURE"; "ROLLBACK"].
