(** Executable model of the simple state ledger of bitxhub
    (internal/ledger/{account,account_cache,state_accessor,state_changer,simple_ledger,block_journal}.go).

    The model follows the Go code statement by statement, defects included; the defect flags of
    [cfg] select between the behaviour of the pinned tree (flag on) and the repaired behaviour
    (flag off).  Go's [nil] byte slice is [None], a non-nil (possibly empty) slice is [Some _];
    [bytes.Equal] identifies [nil] and empty ([veqb]).  Definitions only. *)
From BX Require Import Base.Prelude Model.JsonAcct Model.Merkle.
Local Open Scope N_scope.

(** * values, keys, finite maps *)
Definition val := option bytes.
Definition nb (v : val) : bytes := match v with Some b => b | None => [] end.
Definition veqb (a b : val) : bool := bytes_eqb (nb a) (nb b).          (* bytes.Equal *)
Definition val_eqb : val -> val -> bool := option_eqb bytes_eqb.         (* exact, nil <> empty *)
Definition is_nil (v : val) : bool := match v with None => true | Some _ => false end.

Definition aget {V} (a : N) (l : list (N * V)) : option V := alookup N.eqb a l.
Definition aput {V} (a : N) (v : V) (l : list (N * V)) : list (N * V) := aset N.eqb a v l.
Definition adel {V} (a : N) (l : list (N * V)) : list (N * V) := aremove N.eqb a l.
Definition kget {V} (k : bytes) (l : list (bytes * V)) : option V := alookup bytes_eqb k l.
Definition kput {V} (k : bytes) (v : V) (l : list (bytes * V)) : list (bytes * V) := aset bytes_eqb k v l.
Definition kdel {V} (k : bytes) (l : list (bytes * V)) : list (bytes * V) := aremove bytes_eqb k l.
Definition sk_eqb (x y : N * bytes) : bool := N.eqb (fst x) (fst y) && bytes_eqb (snd x) (snd y).
Definition sget {V} (k : N * bytes) (l : list ((N * bytes) * V)) : option V := alookup sk_eqb k l.
Definition sput {V} (k : N * bytes) (v : V) (l : list ((N * bytes) * V)) := aset sk_eqb k v l.
Definition sdel {V} (k : N * bytes) (l : list ((N * bytes) * V)) := aremove sk_eqb k l.

(** byte-wise lexicographic order: Go string comparison, [sort.Strings], [bytes.Compare] *)
Fixpoint bytes_ltb (a b : bytes) : bool :=
  match a, b with
  | [], [] => false
  | [], _ :: _ => true
  | _ :: _, [] => false
  | x :: a', y :: b' => if x <? y then true else if y <? x then false else bytes_ltb a' b'
  end.
Definition bytes_leb (a b : bytes) : bool := negb (bytes_ltb b a).

Fixpoint is_prefix (p k : bytes) : bool :=
  match p, k with
  | [], _ => true
  | _ :: _, [] => false
  | x :: p', y :: k' => (x =? y) && is_prefix p' k'
  end.

Section Sort.
  Context {A : Type} (leb : A -> A -> bool).
  Fixpoint insert (x : A) (l : list A) : list A :=
    match l with
    | [] => [x]
    | y :: t => if leb x y then x :: l else y :: insert x t
    end.
  Fixpoint isort (l : list A) : list A :=
    match l with
    | [] => []
    | x :: t => insert x (isort t)
    end.
End Sort.

(** * defect flags (DESIGN 3.3) *)
Record cfg := mkCfg {
  d_query_dupkey : bool;     (* Query keys db entries by addr++key but dirty entries by key *)
  d_query_nil : bool;        (* Query returns the nil value of deleted keys *)
  d_query_cache : bool;      (* Query skips the account cache (flushed, not yet committed values) *)
  d_addstate_origin : bool;  (* AddState does not load the origin value *)
  d_orphan_changer : bool;   (* Finalise replaces the changer; older account objects keep the old one *)
  d_rb_head_dirty : bool;    (* RollbackState(current height) keeps the uncommitted in-memory accounts *)
  d_getcommitted : bool;     (* GetCommittedState: nil tests inverted, zero hash for every "empty" account *)
  d_setcode_nil : bool       (* SetCode(nil) leaves dirtyCode nil, which Code() reads as "not loaded" *)
}.
Definition cfg_fixed : cfg := mkCfg false false false false false false false false.
Definition cfg_pinned : cfg := mkCfg true true true true true true true true.     (* the tree as pinned *)

(** * environment: address encodings and hash functions *)
Record env := mkEnv {
  e_raw : N -> bytes;        (* 20 raw address bytes: state keys, root preimage *)
  e_str : N -> bytes;        (* EIP-55 string: order of accounts in the root preimage *)
  e_kec : bytes -> bytes;    (* Keccak-256 of contract code *)
  e_H : bytes -> bytes       (* SHA-256 *)
}.

(** * state *)
Record acct := mkAcct { ac_nonce : N; ac_bal : Z; ac_ch : val }.
Definition acct_eqb (x y : acct) : bool :=
  (ac_nonce x =? ac_nonce y) && (ac_bal x =? ac_bal y)%Z && val_eqb (ac_ch x) (ac_ch y).

Record obj := mkObj {
  o_orig : option acct; o_dirty : option acct;
  o_ost : list (bytes * val); o_dst : list (bytes * val);
  o_ocode : val; o_dcode : val;
  o_gen : N                                  (* which changer this object appends to *)
}.

Record jentry := mkJE {
  je_addr : N; je_achg : bool; je_pacct : option acct;
  je_pst : list (bytes * val); je_cchg : bool; je_pcode : val }.
Record journal := mkJ { j_entries : list jentry; j_root : bytes }.

Record db := mkDb {
  d_acct : list (N * acct); d_code : list (N * bytes); d_st : list ((N * bytes) * bytes);
  d_jnl : list (N * journal); d_min : N; d_max : N }.
Definition db0 : db := mkDb [] [] [] [] 0 0.

Record cache := mkCache {
  c_acct : list (N * acct); c_st : list (N * list (bytes * val)); c_code : list (N * val) }.
Definition cache0 : cache := mkCache [] [] [].

Inductive change :=
| ChCreate (a : N)
| ChBal (a : N) (prev : Z)
| ChNonce (a : N) (prev : N)
| ChState (a : N) (k : bytes) (prev : val)
| ChCode (a : N) (prev : val).

Record st := mkSt {
  s_db : db; s_cache : cache; s_objs : list (N * obj);
  s_chg : list change;            (* the ledger's current changer, newest first *)
  s_gen : N;                      (* identity of the current changer *)
  s_revs : list (N * nat);        (* valid revisions, newest first: (id, changer length) *)
  s_next : N;
  s_pend : option (bytes * journal * list (N * obj));   (* last FlushDirtyData result *)
  s_prev : bytes;                 (* prevJnlHash *)
  s_min : N; s_max : N;
  s_bad : bool                    (* left the modelled domain (see revert_change, reopen) *)
}.
Definition st0 : st := mkSt db0 cache0 [] [] 0 [] 0 None zero32 0 0 false.

Definition set_db (m : st) (x : db) : st :=
  mkSt x (s_cache m) (s_objs m) (s_chg m) (s_gen m) (s_revs m) (s_next m) (s_pend m) (s_prev m) (s_min m) (s_max m) (s_bad m).
Definition set_cache (m : st) (x : cache) : st :=
  mkSt (s_db m) x (s_objs m) (s_chg m) (s_gen m) (s_revs m) (s_next m) (s_pend m) (s_prev m) (s_min m) (s_max m) (s_bad m).
Definition set_objs (m : st) (x : list (N * obj)) : st :=
  mkSt (s_db m) (s_cache m) x (s_chg m) (s_gen m) (s_revs m) (s_next m) (s_pend m) (s_prev m) (s_min m) (s_max m) (s_bad m).
Definition set_chg (m : st) (x : list change) : st :=
  mkSt (s_db m) (s_cache m) (s_objs m) x (s_gen m) (s_revs m) (s_next m) (s_pend m) (s_prev m) (s_min m) (s_max m) (s_bad m).
Definition set_bad (m : st) : st :=
  mkSt (s_db m) (s_cache m) (s_objs m) (s_chg m) (s_gen m) (s_revs m) (s_next m) (s_pend m) (s_prev m) (s_min m) (s_max m) true.

Definition set_dst (o : obj) (x : list (bytes * val)) : obj :=
  mkObj (o_orig o) (o_dirty o) (o_ost o) x (o_ocode o) (o_dcode o) (o_gen o).
Definition set_ost (o : obj) (x : list (bytes * val)) : obj :=
  mkObj (o_orig o) (o_dirty o) x (o_dst o) (o_ocode o) (o_dcode o) (o_gen o).
Definition set_dirty (o : obj) (x : option acct) : obj :=
  mkObj (o_orig o) x (o_ost o) (o_dst o) (o_ocode o) (o_dcode o) (o_gen o).
Definition set_codes (o : obj) (oc dc : val) : obj :=
  mkObj (o_orig o) (o_dirty o) (o_ost o) (o_dst o) oc dc (o_gen o).

Definition put_obj (m : st) (a : N) (o : obj) : st := set_objs m (aput a o (s_objs m)).

(** * account objects: GetAccount / GetOrCreateAccount *)
Definition db_code (m : st) (a : N) : val := aget a (d_code (s_db m)).
Definition cached_code (m : st) (a : N) : val :=
  match aget a (c_code (s_cache m)) with
  | Some v => v
  | None => db_code m a
  end.
Definition ch_nonempty (ch : val) : bool := negb (veqb ch None).      (* !bytes.Equal(ch, nil) *)

(** the object GetAccount builds for an account found in the cache or the db *)
Definition load_obj (m : st) (a : N) : option obj :=
  match aget a (c_acct (s_cache m)) with
  | Some ia =>
      let code := if ch_nonempty (ac_ch ia) then cached_code m a else None in
      Some (mkObj (Some ia) None [] [] code code (s_gen m))
  | None =>
      match aget a (d_acct (s_db m)) with
      | Some ia =>
          let code := if ch_nonempty (ac_ch ia) then db_code m a else None in
          Some (mkObj (Some ia) None [] [] code code (s_gen m))
      | None => None
      end
  end.
Definition new_obj (m : st) : obj := mkObj None None [] [] None None (s_gen m).

Definition get_obj (m : st) (a : N) : st * obj :=
  match aget a (s_objs m) with
  | Some o => (m, o)
  | None =>
      match load_obj m a with
      | Some o => (put_obj m a o, o)
      | None => let o := new_obj m in
                (set_chg (put_obj m a o) (ChCreate a :: s_chg m), o)
      end
  end.

(** object's changer: appends by an object created under an older changer are lost *)
Definition chg_append (c : cfg) (m : st) (o : obj) (x : change) : st :=
  if d_orphan_changer c && negb (o_gen o =? s_gen m) then m else set_chg m (x :: s_chg m).

(** * per-object getters *)
Definition copy_or_new (o : option acct) : acct :=
  match o with Some x => x | None => mkAcct 0 0 None end.
Definition cur_acct (o : obj) : option acct :=
  match o_dirty o with Some d => Some d | None => o_orig o end.
Definition obj_bal (o : obj) : Z := match cur_acct o with Some x => ac_bal x | None => 0%Z end.
Definition obj_nonce (o : obj) : N := match cur_acct o with Some x => ac_nonce x | None => 0 end.
Definition obj_ch (o : obj) : val := match cur_acct o with Some x => ac_ch x | None => None end.

(** SimpleAccount.Code: lazily loads and mutates the object *)
Definition obj_code (m : st) (a : N) (o : obj) : obj * val :=
  match o_dcode o with
  | Some c => (o, Some c)
  | None =>
      match o_ocode o with
      | Some c => (o, Some c)
      | None =>
          if negb (ch_nonempty (obj_ch o)) then (o, None)
          else let code := cached_code m a in (set_codes o code code, code)
      end
  end.

Definition cached_state (m : st) (a : N) (k : bytes) : val :=
  match aget a (c_st (s_cache m)) with
  | Some cm => match kget k cm with
               | Some v => v
               | None => sget (a, k) (d_st (s_db m))
               end
  | None => sget (a, k) (d_st (s_db m))
  end.

(** SimpleAccount.GetState: (object with origin loaded, value) *)
Definition obj_get_state (m : st) (a : N) (o : obj) (k : bytes) : obj * val :=
  match kget k (o_dst o) with
  | Some v => (o, v)
  | None =>
      match kget k (o_ost o) with
      | Some v => (o, v)
      | None => let v := cached_state m a k in (set_ost o (kput k v (o_ost o)), v)
      end
  end.

(** * operations and observables *)
Inductive op :=
| GetBal (a : N) | GetNonce (a : N) | GetCode (a : N) | GetSt (a : N) (k : bytes)
| GetCommitted (a : N) (k : bytes)
| Query (a : N) (p : bytes)
| SetBal (a : N) (z : Z) | AddBal (a : N) (z : Z) | SetNonce (a : N) (n : N) | SetCode (a : N) (c : val)
| SetSt (a : N) (k : bytes) (v : val) | AddSt (a : N) (k : bytes) (v : val)
| Snap | Revert (id : N) | Finalise | Clear | Flush | Commit (h : N) | Rollback (h : N)
| Version | Reopen | Evict (a : N) (layer : N) (k : bytes) | DbDump
| Dump (accts : list N) (keys : list bytes).

(** simple getter outputs (also the elements of a dump) *)
Inductive sout := SZ (z : Z) | SN (n : N) | SVal (v : val) | SGet (e : bool) (v : val).

Record dbview := mkDbv {
  v_acct : list (N * acct * bytes);          (* index, record, stored JSON bytes *)
  v_code : list (N * bytes);
  v_st : list (N * bytes * bytes);
  v_jnl : list (N * list jentry * bytes);
  v_min : N; v_max : N; v_mmin : N; v_mmax : N; v_prev : bytes }.

(** result codes: 0 ok, 1 higher, 2 too much, 3 no journal, 4 panic, 5 other error,
    6 the call never returns (deadlock on the changer's lock) *)
Inductive out :=
| OS (s : sout) | ONone | OQuery (e : bool) (l : list val) | OFlush (root : bytes) (dirty : list N)
| ORes (r : N) | ODump (l : list sout) | ODb (d : dbview).

Definition R_ok := 0. Definition R_higher := 1. Definition R_toomuch := 2.
Definition R_nojournal := 3. Definition R_panic := 4. Definition R_err := 5.
Definition R_hang := 6.

(** ** reads *)
Definition do_getbal (m : st) (a : N) : st * sout := let '(m1, o) := get_obj m a in (m1, SZ (obj_bal o)).
Definition do_getnonce (m : st) (a : N) : st * sout := let '(m1, o) := get_obj m a in (m1, SN (obj_nonce o)).
Definition do_getcode (m : st) (a : N) : st * sout :=
  let '(m1, o) := get_obj m a in
  let '(o1, c) := obj_code m1 a o in (put_obj m1 a o1, SVal c).
Definition do_getst (m : st) (a : N) (k : bytes) : st * sout :=
  let '(m1, o) := get_obj m a in
  let '(o1, v) := obj_get_state m1 a o k in (put_obj m1 a o1, SGet (negb (is_nil v)) v).

(** SimpleAccount.GetCommittedState (repaired): the origin value (loaded on first use), the zero
    hash when there is none *)
Definition obj_get_origin (m : st) (a : N) (o : obj) (k : bytes) : obj * val :=
  match kget k (o_ost o) with
  | Some v => (o, v)
  | None => let v := cached_state m a k in (set_ost o (kput k v (o_ost o)), v)
  end.
Definition committed_out (v : val) : val := if is_nil v then Some zero32 else v.

(** SimpleLedger.GetCommittedState; with [d_getcommitted] as it was coded: the zero hash for an
    empty account and for any non-nil committed value (the interface holding the loaded origin is
    never nil), else nil *)
Definition do_getcommitted (c : cfg) (m : st) (a : N) (k : bytes) : st * sout :=
  let '(m1, o) := get_obj m a in
  if negb (d_getcommitted c) then
    let '(o1, v) := obj_get_origin m1 a o k in (put_obj m1 a o1, SVal (committed_out v))
  else
  (* IsEmpty short-circuits: Code() (which may lazily load) runs only for balance = nonce = 0 *)
  let zero := (obj_bal o =? 0)%Z && (obj_nonce o =? 0) in
  let '(o1, code) := if zero then obj_code m1 a o else (o, None) in
  if zero && is_nil code then (put_obj m1 a o1, SVal (Some zero32))
  else match kget k (o_ost o1) with
       | Some _ => (put_obj m1 a o1, SVal (Some zero32))
       | None => let v := cached_state m1 a k in
                 (put_obj m1 a (set_ost o1 (kput k v (o_ost o1))), SVal (if is_nil v then None else Some zero32))
       end.

(** ** writes *)
Definition do_setbal (c : cfg) (m : st) (a : N) (z : Z) : st :=
  let '(m1, o) := get_obj m a in
  let m2 := chg_append c m1 o (ChBal a (obj_bal o)) in
  let d := copy_or_new (cur_acct o) in
  put_obj m2 a (set_dirty o (Some (mkAcct (ac_nonce d) z (ac_ch d)))).
(** SimpleLedger.AddBalance: GetOrCreateAccount, nothing for a zero amount, else
    SetBalance(GetBalance() + amount) on a fresh big.Int *)
Definition do_addbal (c : cfg) (m : st) (a : N) (z : Z) : st :=
  let '(m1, o) := get_obj m a in
  if (z =? 0)%Z then m1 else do_setbal c m1 a (obj_bal o + z)%Z.
Definition do_setnonce (c : cfg) (m : st) (a : N) (n : N) : st :=
  let '(m1, o) := get_obj m a in
  let m2 := chg_append c m1 o (ChNonce a (obj_nonce o)) in
  let d := copy_or_new (cur_acct o) in
  put_obj m2 a (set_dirty o (Some (mkAcct n (ac_bal d) (ac_ch d)))).
Definition obj_set_code (e : env) (o : obj) (code : val) : obj :=
  let d := copy_or_new (cur_acct o) in
  set_codes (set_dirty o (Some (mkAcct (ac_nonce d) (ac_bal d) (Some (e_kec e (nb code)))))) (o_ocode o) code.
Definition do_setcode (e : env) (c : cfg) (m : st) (a : N) (code : val) : st :=
  let '(m1, o) := get_obj m a in
  let '(o1, prev) := obj_code m1 a o in
  let m2 := chg_append c m1 o1 (ChCode a prev) in
  (* repaired: an explicitly set nil code is kept as the empty, non-nil code *)
  put_obj m2 a (obj_set_code e o1 (if d_setcode_nil c then code else Some (nb code))).
Definition do_setst (c : cfg) (m : st) (a : N) (k : bytes) (v : val) : st :=
  let '(m1, o) := get_obj m a in
  let '(o1, prev) := obj_get_state m1 a o k in
  let m2 := chg_append c m1 o1 (ChState a k prev) in
  put_obj m2 a (set_dst o1 (kput k v (o_dst o1))).
Definition do_addst (c : cfg) (m : st) (a : N) (k : bytes) (v : val) : st :=
  let '(m1, o) := get_obj m a in
  let o1 := if d_addstate_origin c then o else fst (obj_get_state m1 a o k) in
  put_obj m1 a (set_dst o1 (kput k v (o_dst o1))).

(** ** Query *)
Definition val_leb (x y : val) : bool :=
  if bytes_eqb (nb x) (nb y) then (is_nil x || negb (is_nil y)) else bytes_ltb (nb x) (nb y).

Definition do_query (e : env) (c : cfg) (m : st) (a : N) (p : bytes) : st * out :=
  let '(m1, o) := get_obj m a in
  let dbkey (k : bytes) := if d_query_dupkey c then e_raw e a ++ k else k in
  let from_db :=
    flat_map (fun kv : (N * bytes) * bytes =>
                let '((a', k), v) := kv in
                if (a' =? a) && is_prefix p k then [(dbkey k, Some v)] else []) (d_st (s_db m1)) in
  let from_cache :=
    if d_query_cache c then []
    else match aget a (c_st (s_cache m1)) with
         | Some cm => filter (fun kv : bytes * val => is_prefix p (fst kv)) cm
         | None => []
         end in
  let from_dirty := filter (fun kv : bytes * val => is_prefix p (fst kv)) (o_dst o) in
  (* Go map assignment: later stores (dirty after cache after db) overwrite earlier ones *)
  let merged := fold_right (fun (kv : bytes * val) acc => kput (fst kv) (snd kv) acc) []
                           (from_dirty ++ from_cache ++ from_db) in
  let vals := map snd merged in
  let vals := if d_query_nil c then vals else filter (fun v => negb (is_nil v)) vals in
  let sorted := isort val_leb vals in
  (m1, OQuery (negb (Nat.eqb (List.length sorted) 0)) sorted).

(** ** undo log *)
(** the object a revert works on; GetOrCreateAccount would append to the changer while the
    changer's lock is held (the Go code deadlocks): outside the modelled domain *)
Definition get_obj_revert (m : st) (a : N) : st * obj :=
  match aget a (s_objs m) with
  | Some o => (m, o)
  | None => match load_obj m a with
            | Some o => (put_obj m a o, o)
            | None => let o := new_obj m in (set_bad (put_obj m a o), o)
            end
  end.

Definition revert_change (e : env) (m : st) (x : change) : st :=
  match x with
  | ChCreate a =>
      let m1 := set_objs m (adel a (s_objs m)) in
      set_cache m1 (mkCache (adel a (c_acct (s_cache m1))) (c_st (s_cache m1)) (c_code (s_cache m1)))
  | ChBal a p =>
      let '(m1, o) := get_obj_revert m a in
      let d := copy_or_new (cur_acct o) in
      put_obj m1 a (set_dirty o (Some (mkAcct (ac_nonce d) p (ac_ch d))))
  | ChNonce a p =>
      let '(m1, o) := get_obj_revert m a in
      let d := copy_or_new (cur_acct o) in
      put_obj m1 a (set_dirty o (Some (mkAcct p (ac_bal d) (ac_ch d))))
  | ChState a k p =>
      let '(m1, o) := get_obj_revert m a in
      put_obj m1 a (set_dst o (kput k p (o_dst o)))
  | ChCode a p =>
      let '(m1, o) := get_obj_revert m a in
      put_obj m1 a (obj_set_code e o p)
  end.

Fixpoint revert_n (e : env) (n : nat) (m : st) : st :=
  match n with
  | O => m
  | S k => match s_chg m with
           | [] => m
           | x :: t => revert_n e k (revert_change e (set_chg m t) x)
           end
  end.

Definition set_revs (m : st) (r : list (N * nat)) (nx : N) : st :=
  mkSt (s_db m) (s_cache m) (s_objs m) (s_chg m) (s_gen m) r nx (s_pend m) (s_prev m) (s_min m) (s_max m) (s_bad m).

Definition do_snap (m : st) : st * out :=
  (set_revs m ((s_next m, List.length (s_chg m)) :: s_revs m) (s_next m + 1), OS (SN (s_next m))).

Definition do_revert (e : env) (m : st) (id : N) : st * out :=
  match alookup N.eqb id (s_revs m) with
  | None => (m, ORes R_panic)
  | Some len =>
      let m1 := revert_n e (List.length (s_chg m) - len) m in
      (set_revs m1 (filter (fun r : N * nat => fst r <? id) (s_revs m1)) (s_next m1),
       ORes (if s_bad m1 && negb (s_bad m) then R_hang else R_ok))
  end.

Definition do_finalise (m : st) : st :=
  let m1 := match s_chg m with
            | [] => m
            | _ => mkSt (s_db m) (s_cache m) (s_objs m) [] (s_gen m + 1) (s_revs m) (s_next m)
                        (s_pend m) (s_prev m) (s_min m) (s_max m) (s_bad m)
            end in
  set_revs m1 [] 0.

(** ** FlushDirtyData *)
Definition acct_changed (o0 o1 : option acct) : bool :=
  match o1 with
  | None => false
  | Some d =>
      match o0 with
      | Some x => negb ((ac_nonce x =? ac_nonce d) && (ac_bal x =? ac_bal d)%Z && veqb (ac_ch x) (ac_ch d))
      | None => true
      end
  end.

Definition orig_of (o : obj) (k : bytes) : val :=
  match kget k (o_ost o) with Some v => v | None => None end.

(** the dirty entries whose value differs from the origin (absent origin = nil) *)
Definition changed_entries (o : obj) : list (bytes * val) :=
  filter (fun kv : bytes * val => negb (veqb (orig_of o (fst kv)) (snd kv))) (o_dst o).

Definition kv_leb (x y : bytes * val) : bool := bytes_leb (fst x) (fst y).

Definition state_hash (e : env) (o : obj) : bytes :=
  e_H e (flat_map (fun kv : bytes * val => fst kv ++ nb (snd kv)) (isort kv_leb (changed_entries o))).

(** getJournalIfModified: (object after the lazy origin-code load, entry if modified) *)
Definition journal_of (m : st) (a : N) (o : obj) : obj * option jentry :=
  let oc := match o_ocode o, o_orig o with
            | None, Some x => if is_nil (ac_ch x) then None else db_code m a
            | oc, _ => oc
            end in
  let o1 := set_codes o oc (o_dcode o) in
  let achg := acct_changed (o_orig o) (o_dirty o) in
  let cchg := negb (veqb oc (o_dcode o)) in
  let pst := map (fun kv : bytes * val => (fst kv, orig_of o (fst kv))) (changed_entries o) in
  let en := mkJE a achg (if achg then o_orig o else None) pst cchg (if cchg then oc else None) in
  (o1, if achg || cchg || negb (Nat.eqb (List.length pst) 0) then Some en else None).

Definition dirty_data (e : env) (a : N) (o : obj) : bytes :=
  e_raw e a ++
  match o_dirty o with
  | Some d => json_acct (ac_nonce d) (ac_bal d) (ac_ch d)
  | None => []
  end ++ state_hash e o.

Definition cache_add (ch : cache) (a : N) (o : obj) : cache :=
  let ca := match o_dirty o with Some d => aput a d (c_acct ch) | None => c_acct ch end in
  let cs :=
    match aget a (c_st ch) with
    | Some cm => aput a (fold_right (fun (kv : bytes * val) acc => kput (fst kv) (snd kv) acc) cm (o_dst o)) (c_st ch)
    | None => match o_dst o with
              | [] => c_st ch
              | _ => aput a (fold_right (fun (kv : bytes * val) acc => kput (fst kv) (snd kv) acc) [] (o_dst o)) (c_st ch)
              end
    end in
  let cc :=
    if negb (veqb (o_ocode o) (o_dcode o)) then
      match o_dirty o with
      | Some d =>
          match o_orig o with
          | Some x => if negb (veqb (ac_ch d) (ac_ch x)) then aput a (o_dcode o) (c_code ch) else c_code ch
          | None => aput a (o_dcode o) (c_code ch)
          end
      | None => c_code ch
      end
    else c_code ch in
  mkCache ca cs cc.

Definition je_leb (x y : jentry) : bool := je_addr x <=? je_addr y.
Definition ao_leb_str (e : env) (x y : N * obj) : bool := bytes_leb (e_str e (fst x)) (e_str e (fst y)).
Definition n_leb (x y : N) : bool := x <=? y.

Definition do_flush (e : env) (m : st) : st * out :=
  let js := map (fun ao : N * obj => (fst ao, journal_of m (fst ao) (snd ao))) (s_objs m) in
  let dirty := flat_map (fun x : N * (obj * option jentry) =>
                           match snd (snd x) with Some _ => [(fst x, fst (snd x))] | None => [] end) js in
  let entries := flat_map (fun x : N * (obj * option jentry) =>
                             match snd (snd x) with Some en => [en] | None => [] end) js in
  let data := flat_map (fun ao : N * obj => dirty_data e (fst ao) (snd ao)) (isort (ao_leb_str e) dirty) in
  let root := e_H e (data ++ s_prev m) in
  let jn := mkJ entries root in
  let ch := fold_right (fun (ao : N * obj) c => cache_add c (fst ao) (snd ao)) (s_cache m) dirty in
  (mkSt (s_db m) ch [] (s_chg m) (s_gen m) (s_revs m) (s_next m) (Some (root, jn, dirty)) root
        (s_min m) (s_max m) (s_bad m),
   OFlush root (isort n_leb (map fst dirty))).

(** ** Commit *)
Definition commit_obj (d : db) (a : N) (o : obj) : db :=
  let da := if acct_changed (o_orig o) (o_dirty o)
            then match o_dirty o with Some x => aput a x (d_acct d) | None => d_acct d end
            else d_acct d in
  let dc :=
    if negb (veqb (o_ocode o) (o_dcode o)) then
      match o_dcode o with
      | Some c => aput a c (d_code d)
      | None =>
          match o_dirty o, o_orig o with
          | Some x, Some y =>
              if negb (veqb (ac_ch y) (ac_ch x)) && veqb (ac_ch x) None then adel a (d_code d) else d_code d
          | _, _ => d_code d
          end
      end
    else d_code d in
  let ds := fold_right (fun (kv : bytes * val) acc =>
                          match snd kv with
                          | Some b => sput (a, fst kv) b acc
                          | None => sdel (a, fst kv) acc
                          end) (d_st d) (changed_entries o) in
  mkDb da dc ds (d_jnl d) (d_min d) (d_max d).

Fixpoint del_range (fuel : nat) (i : N) (l : list (N * journal)) : list (N * journal) :=
  match fuel with
  | O => l
  | S k => del_range k (i + 1) (adel i l)
  end.

Definition do_commit (m : st) (h : N) : st * out :=
  match s_pend m with
  | None => (m, ORes R_nojournal)
  | Some (_, jn, dirty) =>
      let d1 := fold_right (fun (ao : N * obj) d => commit_obj d (fst ao) (snd ao)) (s_db m) dirty in
      let min1 := if s_min m =? 0 then h else s_min m in
      let dmin1 := if s_min m =? 0 then h else d_min d1 in
      let d2 := mkDb (d_acct d1) (d_code d1) (d_st d1) (aput h jn (d_jnl d1)) dmin1 h in
      (* removeJournalsBeforeBlock(h - 10) *)
      let t := h - 10 in
      let '(d3, min3) :=
        if (10 <? h) && (min1 <? t)
        then (mkDb (d_acct d2) (d_code d2) (d_st d2) (del_range (N.to_nat (t - min1)) min1 (d_jnl d2)) t (d_max d2), t)
        else (d2, min1) in
      (mkSt d3 (s_cache m) (s_objs m) (s_chg m) (s_gen m) (s_revs m) (s_next m) None (s_prev m) min3 h (s_bad m),
       ORes R_ok)
  end.

(** ** RollbackState *)
Definition revert_entry (d : db) (en : jentry) : db :=
  let a := je_addr en in
  let da := if je_achg en
            then match je_pacct en with Some x => aput a x (d_acct d) | None => adel a (d_acct d) end
            else d_acct d in
  let ds := fold_right (fun (kv : bytes * val) acc =>
                          match snd kv with
                          | Some b => sput (a, fst kv) b acc
                          | None => sdel (a, fst kv) acc
                          end) (d_st d) (je_pst en) in
  let dc := if je_cchg en
            then match je_pcode en with Some c => aput a c (d_code d) | None => adel a (d_code d) end
            else d_code d in
  mkDb da dc ds (d_jnl d) (d_min d) (d_max d).

(** the loop [for i := max; i > height; i--]; None = a journal was missing *)
Fixpoint rollback_loop (fuel : nat) (i h : N) (d : db) : db * bool :=
  match fuel with
  | O => (d, true)
  | S k =>
      if i <=? h then (d, true)
      else match aget i (d_jnl d) with
           | None => (d, false)
           | Some jn =>
               let d1 := fold_right (fun en d' => revert_entry d' en) d (j_entries jn) in
               let d2 := mkDb (d_acct d1) (d_code d1) (d_st d1) (adel i (d_jnl d1)) (d_min d1) (i - 1) in
               rollback_loop k (i - 1) h d2
           end
  end.

Definition do_rollback (c : cfg) (m : st) (h : N) : st * out :=
  if s_max m <? h then (m, ORes R_higher)
  else if (h <? s_min m) && negb ((s_min m =? 1) && (h =? 0)) then (m, ORes R_toomuch)
  else if s_max m =? h then ((if d_rb_head_dirty c then m else set_objs m []), ORes R_ok)
  else
    let '(d1, ok) := rollback_loop (N.to_nat (s_max m - h)) (s_max m) h (s_db m) in
    let m1 := mkSt d1 cache0 [] (s_chg m) (s_gen m) (s_revs m) (s_next m) (s_pend m) (s_prev m)
                   (s_min m) (s_max m) (s_bad m) in
    if negb ok then (m1, ORes R_nojournal)
    else if h =? 0
    then (mkSt d1 cache0 [] (s_chg m) (s_gen m) (s_revs m) (s_next m) (s_pend m) zero32 0 0 (s_bad m), ORes R_ok)
    else match aget h (d_jnl d1) with
         | Some jn => (mkSt d1 cache0 [] (s_chg m) (s_gen m) (s_revs m) (s_next m) (s_pend m) (j_root jn)
                            (s_min m) h (s_bad m), ORes R_ok)
         | None => (m1, ORes R_panic)
         end.

(** ** reopen: all memory dropped, NewSimpleLedger on the same store *)
Definition do_reopen (m : st) : st * out :=
  let d := s_db m in
  let base := mkSt d cache0 [] [] 0 [] 0 None zero32 (d_min d) (d_max d) (s_bad m) in
  if d_max d =? 0 then (base, ORes R_ok)
  else match aget (d_max d) (d_jnl d) with
       | Some jn => (mkSt d cache0 [] [] 0 [] 0 None (j_root jn) (d_min d) (d_max d) (s_bad m), ORes R_ok)
       | None => (set_bad base, ORes R_err)
       end.

(** ** cache eviction (what an LRU eviction does to one entry) *)
Definition do_evict (m : st) (a layer : N) (k : bytes) : st :=
  let c := s_cache m in
  set_cache m
    (if layer =? 0 then mkCache (adel a (c_acct c)) (c_st c) (c_code c)
     else if layer =? 1 then mkCache (c_acct c) (adel a (c_st c)) (c_code c)
     else if layer =? 2 then
       match aget a (c_st c) with
       | Some cm => mkCache (c_acct c) (aput a (kdel k cm) (c_st c)) (c_code c)
       | None => c
       end
     else if layer =? 3 then mkCache (c_acct c) (c_st c) (adel a (c_code c))
     else c).

(** ** dumps *)
Definition dump_acct (m : st) (a : N) (ks : list bytes) : st * list sout :=
  let '(m1, b) := do_getbal m a in
  let '(m2, n) := do_getnonce m1 a in
  let '(m3, c) := do_getcode m2 a in
  fold_left (fun (acc : st * list sout) k =>
               let '(m', s) := do_getst (fst acc) a k in (m', snd acc ++ [s])) ks (m3, [b; n; c]).

Definition do_dump (m : st) (accts : list N) (ks : list bytes) : st * out :=
  let '(m1, l) := fold_left (fun (acc : st * list sout) a =>
                               let '(m', l') := dump_acct (fst acc) a ks in (m', snd acc ++ l'))
                            accts (m, []) in
  (set_objs m1 [], ODump l).

Definition acct_row_leb (x y : N * acct * bytes) : bool := fst (fst x) <=? fst (fst y).
Definition code_row_leb (x y : N * bytes) : bool := fst x <=? fst y.
Definition st_row_leb (x y : N * bytes * bytes) : bool :=
  let '(a1, k1, _) := x in let '(a2, k2, _) := y in
  if a1 =? a2 then bytes_leb k1 k2 else a1 <? a2.
Definition jnl_row_leb (x y : N * list jentry * bytes) : bool := fst (fst x) <=? fst (fst y).

Definition do_dbdump (m : st) : dbview :=
  let d := s_db m in
  mkDbv (isort acct_row_leb (map (fun p : N * acct =>
                                    (fst p, snd p, json_acct (ac_nonce (snd p)) (ac_bal (snd p)) (ac_ch (snd p))))
                                 (d_acct d)))
        (isort code_row_leb (d_code d))
        (isort st_row_leb (map (fun p : (N * bytes) * bytes => (fst (fst p), snd (fst p), snd p)) (d_st d)))
        (isort jnl_row_leb
           (map (fun p : N * journal =>
                   (fst p,
                    isort je_leb (map (fun en => mkJE (je_addr en) (je_achg en) (je_pacct en) (isort kv_leb (je_pst en))
                                                      (je_cchg en) (je_pcode en)) (j_entries (snd p))),
                    j_root (snd p))) (d_jnl d)))
        (d_min d) (d_max d) (s_min m) (s_max m) (s_prev m).

(** * one step *)
Definition step (e : env) (c : cfg) (m : st) (o : op) : st * out :=
  match o with
  | GetBal a => let '(m1, s) := do_getbal m a in (m1, OS s)
  | GetNonce a => let '(m1, s) := do_getnonce m a in (m1, OS s)
  | GetCode a => let '(m1, s) := do_getcode m a in (m1, OS s)
  | GetSt a k => let '(m1, s) := do_getst m a k in (m1, OS s)
  | GetCommitted a k => let '(m1, s) := do_getcommitted c m a k in (m1, OS s)
  | Query a p => do_query e c m a p
  | SetBal a z => (do_setbal c m a z, ONone)
  | AddBal a z => (do_addbal c m a z, ONone)
  | SetNonce a n => (do_setnonce c m a n, ONone)
  | SetCode a code => (do_setcode e c m a code, ONone)
  | SetSt a k v => (do_setst c m a k v, ONone)
  | AddSt a k v => (do_addst c m a k v, ONone)
  | Snap => do_snap m
  | Revert id => do_revert e m id
  | Finalise => (do_finalise m, ONone)
  | Clear => (set_objs m [], ONone)
  | Flush => do_flush e m
  | Commit h => do_commit m h
  | Rollback h => do_rollback c m h
  | Version => (m, OS (SN (s_max m)))
  | Reopen => do_reopen m
  | Evict a layer k => (do_evict m a layer k, ONone)
  | DbDump => (m, ODb (do_dbdump m))
  | Dump accts ks => do_dump m accts ks
  end.

Fixpoint run (e : env) (c : cfg) (m : st) (ops : list op) : st * list out :=
  match ops with
  | [] => (m, [])
  | o :: t => let '(m1, x) := step e c m o in
              let '(m2, xs) := run e c m1 t in (m2, x :: xs)
  end.

(** * equality of observables (exact: nil and empty are distinguished) *)
Definition sout_eqb (x y : sout) : bool :=
  match x, y with
  | SZ a, SZ b => (a =? b)%Z
  | SN a, SN b => a =? b
  | SVal a, SVal b => val_eqb a b
  | SGet e1 a, SGet e2 b => Bool.eqb e1 e2 && val_eqb a b
  | _, _ => false
  end.
Definition oacct_eqb : option acct -> option acct -> bool := option_eqb acct_eqb.
Definition kv_eqb (x y : bytes * val) : bool := bytes_eqb (fst x) (fst y) && val_eqb (snd x) (snd y).
Definition jentry_eqb (x y : jentry) : bool :=
  (je_addr x =? je_addr y) && Bool.eqb (je_achg x) (je_achg y) && oacct_eqb (je_pacct x) (je_pacct y) &&
  list_eqb kv_eqb (je_pst x) (je_pst y) && Bool.eqb (je_cchg x) (je_cchg y) && val_eqb (je_pcode x) (je_pcode y).
Definition dbview_eqb (x y : dbview) : bool :=
  list_eqb (fun p q : N * acct * bytes =>
              (fst (fst p) =? fst (fst q)) && acct_eqb (snd (fst p)) (snd (fst q)) && bytes_eqb (snd p) (snd q))
           (v_acct x) (v_acct y) &&
  list_eqb (fun p q : N * bytes => (fst p =? fst q) && bytes_eqb (snd p) (snd q)) (v_code x) (v_code y) &&
  list_eqb (fun p q : N * bytes * bytes =>
              (fst (fst p) =? fst (fst q)) && bytes_eqb (snd (fst p)) (snd (fst q)) && bytes_eqb (snd p) (snd q))
           (v_st x) (v_st y) &&
  list_eqb (fun p q : N * list jentry * bytes =>
              (fst (fst p) =? fst (fst q)) && list_eqb jentry_eqb (snd (fst p)) (snd (fst q)) &&
              bytes_eqb (snd p) (snd q)) (v_jnl x) (v_jnl y) &&
  (v_min x =? v_min y) && (v_max x =? v_max y) && (v_mmin x =? v_mmin y) && (v_mmax x =? v_mmax y) &&
  bytes_eqb (v_prev x) (v_prev y).
Definition out_eqb (x y : out) : bool :=
  match x, y with
  | OS a, OS b => sout_eqb a b
  | ONone, ONone => true
  | OQuery e1 l1, OQuery e2 l2 => Bool.eqb e1 e2 && list_eqb val_eqb l1 l2
  | OFlush r1 d1, OFlush r2 d2 => bytes_eqb r1 r2 && list_eqb N.eqb d1 d2
  | ORes a, ORes b => a =? b
  | ODump l1, ODump l2 => list_eqb sout_eqb l1 l2
  | ODb a, ODb b => dbview_eqb a b
  | _, _ => false
  end.

(** keys the journal's JSON encoding round-trips exactly (Go coerces invalid UTF-8 in map keys
    to U+FFFD): the modelled domain is 7-bit keys *)
Definition key_ok (k : bytes) : bool := forallb (fun b => b <? 128) k.
Definition op_in_domain (o : op) : bool :=
  match o with
  | SetSt _ k _ | AddSt _ k _ => key_ok k
  | _ => true
  end.
