(** Model of [internal/executor/contracts/transaction_manager.go] on top of the status table
    regenerated from that file ([Model/TxFsm.v]).  Definitions only.

    State keys of the contract:  tx-<id> (TransactionRecord), global-tx-<gid> (TransactionInfo),
    <child id> -> gid, timeout-<h> (comma-joined id list).  A timeout list is kept as the token
    list [strings.Split(value, ",")] so that the empty string, a leading comma and the
    difference between "key absent" and "key present with value \"\"" are all represented. *)
From BX Require Import Base.Prelude Base.Fsm Model.TxFsm.
From Coq Require Import String.
Local Open Scope N_scope.

(** * identifiers *)
Definition svc := N.                                  (* service number of the world table *)
Definition txid := (svc * svc * N)%type.              (* from, to, index *)
Definition gid := (svc * N * N)%type.                 (* from, group tag, declared count *)

Definition txid_eqb (a b : txid) : bool :=
  let '(a1, a2, a3) := a in let '(b1, b2, b3) := b in (a1 =? b1) && (a2 =? b2) && (a3 =? b3).
Definition gid_eqb (a b : gid) : bool :=
  let '(a1, a2, a3) := a in let '(b1, b2, b3) := b in (a1 =? b1) && (a2 =? b2) && (a3 =? b3).

Inductive tok := TEmpty | TTx (i : txid) | TGid (g : gid).
Definition tok_eqb (a b : tok) : bool :=
  match a, b with
  | TEmpty, TEmpty => true
  | TTx i, TTx j => txid_eqb i j
  | TGid g, TGid k => gid_eqb g k
  | _, _ => false
  end.

(** finite maps as functions with point update *)
Definition upd {K V} (eqb : K -> K -> bool) (f : K -> V) (k : K) (v : V) : K -> V :=
  fun x => if eqb x k then v else f x.

(** * defect flags (DESIGN 3.3): [true] = the behaviour of the unchanged code *)
Record Defects := {
  d_timeout_keeps_failed : bool;  (* handle.go setTimeoutList: a FAILURE receipt leaves the id in its timeout list *)
  d_interbxh_zero_record : bool;  (* BeginInterBitXHub runs the fsm on a zero record instead of the stored one *)
  d_multitx_dst_first : bool;     (* addToMultiTxNotifyMap files every dst-notified child under the chain of ibtpIDs[0] *)
  d_unordered : bool;             (* Ordered=false services: index check skipped, "batch_ibtp", no timeout bookkeeping *)
  d_tl_empty_head : bool;         (* TransactionManager.addToTimeoutList appends ",gid" to an existing empty value *)
  d_delete_interchain : bool;     (* public DeleteInterchain removes a service's counters for any caller *)
  d_late_child : bool;            (* BeginMultiTXs accepts a new child of a group whose global state is final *)
  d_fail_ndst_lost : bool;        (* Report: on a failure receipt the children are overwritten with BEGIN_FAILURE before
                                     the SUCCESS ones are collected, so NotifyDstIBTPIDs is always empty *)
  d_interhub_timeout : bool;      (* setTimeoutList registers H+T for a request to a remote BitXHub although the
                                     transaction manager recorded "no timeout" for it (source-hub role) *)
  d_receipt_group_skip : bool;    (* setTimeoutList skips every IBTP with a Group field, receipts included *)
  d_fail_after_success : bool     (* Report: a FAILURE receipt on a BEGIN group is taken without looking at the reporting
                                     child's own status, also when that child already reported SUCCESS *)
}.
Definition cfg_fixed : Defects := Build_Defects false false false false false false false false false false false.
Definition cfg_faithful : Defects := Build_Defects true true true true true true true true true true true.

(** * records *)
Record ginfo := {
  g_state : N;
  g_height : N;
  g_children : list (txid * N);      (* ChildTxInfo (a Go map; kept in insertion order) *)
  g_count : N
}.

Record txm := {
  tm_rec : txid -> option (N * N);   (* tx-<id>: (timeout height, status) *)
  tm_glob : gid -> option ginfo;     (* global-tx-<gid> *)
  tm_child : txid -> option gid;     (* <child id> -> gid *)
  tm_tl : N -> option (list tok)     (* timeout-<h>: Split(value, ",") *)
}.
Definition txm_init : txm :=
  Build_txm (fun _ => None) (fun _ => None) (fun _ => None) (fun _ => None).

Definition set_rec (t : txm) (i : txid) (r : N * N) : txm :=
  Build_txm (upd txid_eqb (tm_rec t) i (Some r)) (tm_glob t) (tm_child t) (tm_tl t).
Definition set_glob (t : txm) (g : gid) (gi : ginfo) : txm :=
  Build_txm (tm_rec t) (upd gid_eqb (tm_glob t) g (Some gi)) (tm_child t) (tm_tl t).
Definition set_child (t : txm) (i : txid) (g : gid) : txm :=
  Build_txm (tm_rec t) (tm_glob t) (upd txid_eqb (tm_child t) i (Some g)) (tm_tl t).
Definition set_tl (t : txm) (h : N) (l : list tok) : txm :=
  Build_txm (tm_rec t) (tm_glob t) (tm_child t) (upd N.eqb (tm_tl t) h (Some l)).

(** * timeout lists at the string level *)
(** [strings.Join] of no tokens is "", whose Split is the single empty token *)
Definition tl_norm (l : list tok) : list tok := match l with [] => [TEmpty] | _ => l end.
Definition tl_is_empty_str (l : list tok) : bool :=
  match l with [TEmpty] => true | _ => false end.

Fixpoint count_tok (x : tok) (l : list tok) : nat :=
  match l with
  | [] => O
  | y :: t => if tok_eqb x y then S (count_tok x t) else count_tok x t
  end.
Fixpoint remove_first (x : tok) (l : list tok) : list tok :=
  match l with
  | [] => []
  | y :: t => if tok_eqb x y then t else y :: remove_first x t
  end.
(** [removeFromStr] / [removeFromTimeoutList]: the Go loop deletes in place while ranging over
    the original slice; with at most one occurrence it removes that occurrence, with more it
    may panic (slice bounds) — outside the modelled domain ([None]) *)
Definition tl_remove (x : tok) (l : list tok) : option (list tok) :=
  if (count_tok x l <=? 1)%nat then Some (tl_norm (remove_first x l)) else None.

(** [writeToStr(str, ids)] of handle.go: str = "" gives ids, else str + "," + ids *)
Definition tl_write (cur : option (list tok)) (ids : list tok) : list tok :=
  match cur with
  | None => ids
  | Some l => if tl_is_empty_str l then ids else l ++ ids
  end.

(** [TransactionManager.addToTimeoutList]: key absent gives id, else value + "," + id —
    also when the value is the empty string (flag [d_tl_empty_head]) *)
Definition tm_add_timeout (cfg : Defects) (t : txm) (h : N) (x : tok) : txm :=
  match tm_tl t h with
  | None => set_tl t h [x]
  | Some l => if tl_is_empty_str l && negb (d_tl_empty_head cfg) then set_tl t h [x]
              else set_tl t h (l ++ [x])
  end.

(** [TransactionManager.removeFromTimeoutList] *)
Definition tm_remove_timeout (t : txm) (h : N) (x : tok) : option txm :=
  match tm_tl t h with
  | None => Some t
  | Some l => match tl_remove x l with Some l' => Some (set_tl t h l') | None => None end
  end.

(** * status changes reported to the interchain contract (pb.StatusChange) *)
Record change := {
  c_prev : option N;            (* None = -1 *)
  c_cur : N;
  c_nsrc : list txid;           (* NotifySrcIBTPIDs *)
  c_ndst : list txid;           (* NotifyDstIBTPIDs *)
  c_child : list txid;          (* ChildIBTPIDs *)
  c_failchild : bool            (* IsFailChildIBTP *)
}.
Definition change_simple (p : option N) (c : N) : change := Build_change p c [] [] [] false.

(** error classes of the transaction manager as seen in a receipt (see Model/IbtpExec.v) *)
Definition E_STATE := 9.
Definition E_NOTX := 10.
Definition E_CHILD_EXISTS := 11.
Definition E_NOGLOBAL := 12.
Definition E_TM_INTERNAL := 13.
Definition E_DOMAIN := 1000.      (* outside the modelled domain *)

Inductive tmres := TmOk (t : txm) (c : change) | TmErr (e : N).

(** record height chosen by Begin / BeginMultiTXs / BeginInterBitXHub (T already a uint64) *)
Definition timeout_height (cur T : N) : N :=
  if (T =? 0) || (MAXU64 - cur <=? T) then MAXU64 else wrap64 (cur + T).

(** [Begin]: no existence check, the record is overwritten *)
Definition tm_begin (t : txm) (cur : N) (i : txid) (T : N) (failed : bool) : tmres :=
  let st := if failed then ST_BEGIN_FAILURE else ST_BEGIN in
  TmOk (set_rec t i (timeout_height cur T, st)) (change_simple None st).

(** [BeginInterBitXHub]; [ev] is [txStatus2EventM[proof.TxStatus]] *)
Definition tm_begin_interbxh (cfg : Defects) (t : txm) (cur : N) (i : txid) (T : N) (txstatus : N)
           (failed : bool) : tmres :=
  match tm_rec t i with
  | Some (hh, st0) =>
      let base := if d_interbxh_zero_record cfg then (0, 0) else (hh, st0) in
      match set_fsm (snd base) (event_of_txstatus txstatus) with
      | Some st' => TmOk (set_rec t i (fst base, st')) (change_simple (Some (snd base)) st')
      | None => TmErr E_STATE
      end
  | None =>
      let st := if failed then ST_BEGIN_FAILURE else ST_BEGIN in
      TmOk (set_rec t i (timeout_height cur T, st)) (change_simple None st)
  end.

Fixpoint child_lookup (i : txid) (l : list (txid * N)) : option N :=
  match l with
  | [] => None
  | (j, s) :: r => if txid_eqb i j then Some s else child_lookup i r
  end.
Fixpoint child_set (i : txid) (s : N) (l : list (txid * N)) : list (txid * N) :=
  match l with
  | [] => [(i, s)]
  | (j, s0) :: r => if txid_eqb i j then (j, s) :: r else (j, s0) :: child_set i s r
  end.
Definition children_all (s : N) (l : list (txid * N)) : list (txid * N) :=
  map (fun p => (fst p, s)) l.

(** [BeginMultiTXs]; [sorted] = [sort.Strings] on ids (supplied by the caller, who knows their textual form) *)
Definition tm_begin_multi (cfg : Defects) (sorted : list txid -> list txid) (t : txm) (cur : N) (g : gid) (i : txid) (T : N)
           (failed : bool) (count : N) : option tmres :=
  match tm_glob t g with
  | None =>
      let hh := timeout_height cur T in
      let st := if failed then ST_BEGIN_FAILURE else ST_BEGIN in
      let gi := Build_ginfo st hh [(i, st)] count in
      let t1 := if failed then t else tm_add_timeout cfg t hh (TGid g) in
      let t2 := set_child (set_glob t1 g gi) i g in
      Some (TmOk t2 (Build_change None st [] [] [i] false))
  | Some gi =>
      match child_lookup i (g_children gi) with
      | Some _ => Some (TmErr E_CHILD_EXISTS)
      | None =>
          if negb (g_state gi =? ST_BEGIN) then
            if is_final (g_state gi) && negb (d_late_child cfg) then Some (TmErr E_STATE)
            else
              let kids := child_set i (g_state gi) (g_children gi) in
              let gi' := Build_ginfo (g_state gi) (g_height gi) kids (g_count gi) in
              Some (TmOk (set_child (set_glob t g gi') i g)
                         (Build_change None (g_state gi) [] [] (sorted (map fst kids)) false))
          else if failed then
            let nsrc := sorted (map fst (g_children gi)) in
            let ndst := sorted (map fst (filter (fun p => snd p =? ST_SUCCESS) (g_children gi))) in
            let kids := child_set i ST_BEGIN_FAILURE (children_all ST_BEGIN_FAILURE (g_children gi)) in
            let gi' := Build_ginfo ST_BEGIN_FAILURE (g_height gi) kids (g_count gi) in
            match tm_remove_timeout t (g_height gi) (TGid g) with
            | Some t1 =>
                Some (TmOk (set_child (set_glob t1 g gi') i g)
                           (Build_change None ST_BEGIN_FAILURE nsrc ndst (sorted (map fst kids)) false))
            | None => None
            end
          else
            let kids := child_set i ST_BEGIN (g_children gi) in
            let gi' := Build_ginfo (g_state gi) (g_height gi) kids (g_count gi) in
            Some (TmOk (set_child (set_glob t g gi') i g)
                       (Build_change None ST_BEGIN [] [] (sorted (map fst kids)) false))
      end
  end.

(** [isMultiTxFinished] *)
Definition multi_finished (st : N) (kids : list (txid * N)) (count : N) : bool :=
  forallb (fun p => snd p =? st) kids && (N.of_nat (List.length kids) =? count).

(** [changeMultiTxStatus]: Some (info', remove gid from its timeout list?) or None = error *)
Definition change_multi (cfg : Defects) (gi : ginfo) (i : txid) (r : N) : option (ginfo * bool) :=
  if (g_state gi =? ST_BEGIN) && (r =? 2) then
    (* the reporting child's own status goes through the state machine first (a missing map key reads as 0 = BEGIN) *)
    let own := match child_lookup i (g_children gi) with Some st => st | None => ST_BEGIN end in
    match (if d_fail_after_success cfg then Some ST_FAILURE else set_fsm own (event_of_receipt r)) with
    | None => None
    | Some _ =>
        let kids := child_set i ST_FAILURE (children_all ST_BEGIN_FAILURE (g_children gi)) in
        Some (Build_ginfo ST_BEGIN_FAILURE (g_height gi) kids (g_count gi), true)
    end
  else
    match child_lookup i (g_children gi) with
    | None => None
    | Some st =>
        match set_fsm st (event_of_receipt r) with
        | None => None
        | Some st' =>
            let kids := child_set i st' (g_children gi) in
            if multi_finished st' kids (g_count gi) then
              match set_fsm (g_state gi) (event_of_receipt r) with
              | None => None
              | Some gs' => Some (Build_ginfo gs' (g_height gi) kids (g_count gi), true)
              end
            else Some (Build_ginfo (g_state gi) (g_height gi) kids (g_count gi), false)
        end
    end.

(** [Report]; [sorted] sorts ChildIBTPIDs the way [sort.Strings] does (supplied by the caller,
    who knows the textual form of the ids) *)
Definition tm_report (cfg : Defects) (sorted : list txid -> list txid) (t : txm) (i : txid) (r : N) : option tmres :=
  match tm_rec t i with
  | Some (hh, st) =>
      match set_fsm st (event_of_receipt r) with
      | Some st' => Some (TmOk (set_rec t i (hh, st')) (change_simple (Some st) st'))
      | None => Some (TmErr E_STATE)
      end
  | None =>
      match tm_child t i with
      | None => Some (TmErr E_NOTX)
      | Some g =>
          match tm_glob t g with
          | None => Some (TmErr E_NOGLOBAL)
          | Some gi =>
              match child_lookup i (g_children gi) with
              | None => Some (TmErr E_TM_INTERNAL)
              | Some _ =>
                  match change_multi cfg gi i r with
                  | None => Some (TmErr E_STATE)
                  | Some (gi', rm) =>
                      let prev := g_state gi in
                      let cur := g_state gi' in
                      let others := filter (fun p => negb (txid_eqb (fst p) i)) (g_children gi') in
                      let tofail := (prev =? ST_BEGIN) && (cur =? ST_BEGIN_FAILURE) in
                      let seen := if d_fail_ndst_lost cfg then others
                                  else filter (fun p => negb (txid_eqb (fst p) i)) (g_children gi) in
                      let ndst := if tofail
                                  then map fst (filter (fun p => snd p =? ST_SUCCESS) seen) else [] in
                      let ch := Build_change (Some prev) cur (sorted (map fst others)) (sorted ndst)
                                             (sorted (map fst (g_children gi')))
                                             (tofail && negb (match others with [] => true | _ => false end)) in
                      let t1 := if rm then tm_remove_timeout t (g_height gi) (TGid g) else Some t in
                      match t1 with
                      | Some t1 => Some (TmOk (set_glob t1 g gi') ch)
                      | None => None
                      end
                  end
              end
          end
      end
  end.

(** [GetStatus] of an ibtp id or of a global id *)
Definition tm_status_tx (t : txm) (i : txid) : option N :=
  match tm_rec t i with
  | Some (_, st) => Some st
  | None =>
      match tm_child t i with
      | Some g => match tm_glob t g with Some gi => Some (g_state gi) | None => None end
      | None => None
      end
  end.
Definition tm_status_gid (t : txm) (g : gid) : option N :=
  match tm_glob t g with Some gi => Some (g_state gi) | None => None end.
