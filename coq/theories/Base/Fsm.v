(** Semantics of github.com/looplab/fsm v0.2.0 as used by the contracts:
    [NewFSM] builds a map keyed by (event, src); later entries overwrite earlier ones;
    [Event] fails for an unknown event, for an event not allowed in the current state, and
    for a transition whose destination equals the current state (NoTransitionError is
    returned and every caller treats a non-nil error as failure). *)
From BX Require Import Base.Prelude.
From Coq Require Import String.
Local Open Scope string_scope.

Definition fsm_events := list (string * list string * string).
Definition fsm_key := (string * string)%type.            (* (event, src) *)
Definition fsm_key_eqb (a b : fsm_key) : bool :=
  String.eqb (fst a) (fst b) && String.eqb (snd a) (snd b).

Definition fsm_table (evs : fsm_events) : list (fsm_key * string) :=
  flat_map (fun e : string * list string * string =>
              let '(name, srcs, dst) := e in map (fun s => ((name, s), dst)) srcs) evs.

Definition fsm_lookup (evs : fsm_events) (ev cur : string) : option string :=
  alookup_last fsm_key_eqb (ev, cur) (fsm_table evs).

(** result of [fsm.Event]: [Some dst] = state changed to dst, [None] = error *)
Definition fsm_fire (evs : fsm_events) (cur ev : string) : option string :=
  match fsm_lookup evs ev cur with
  | Some dst => if String.eqb dst cur then None else Some dst
  | None => None
  end.

(** all (src, event, dst) triples on which [fsm_fire] can succeed *)
Definition fsm_edges (evs : fsm_events) : list (string * string * string) :=
  flat_map (fun kv : fsm_key * string =>
              let '((ev, src), _) := kv in
              match fsm_fire evs src ev with
              | Some dst => [(src, ev, dst)]
              | None => []
              end) (fsm_table evs).

Definition edge_eqb (a b : string * string * string) : bool :=
  let '(a1, a2, a3) := a in let '(b1, b2, b3) := b in
  String.eqb a1 b1 && String.eqb a2 b2 && String.eqb a3 b3.

Lemma fsm_key_eqb_eq a b : fsm_key_eqb a b = true <-> a = b.
Proof.
  destruct a as [a1 a2], b as [b1 b2]. unfold fsm_key_eqb. simpl.
  rewrite andb_true_iff, !String.eqb_eq. split; [intros [-> ->]; reflexivity | intro H; inversion H; auto].
Qed.

Lemma alookup_last_in {V} k (l : list (fsm_key * V)) v :
  alookup_last fsm_key_eqb k l = Some v -> In (k, v) l.
Proof.
  induction l as [|[k' v'] t IH]; simpl; [discriminate|].
  destruct (alookup_last fsm_key_eqb k t) eqn:E.
  - intro H. inversion H; subst. right. apply IH. reflexivity.
  - destruct (fsm_key_eqb k k') eqn:Ek; [|discriminate].
    intro H. inversion H; subst. apply fsm_key_eqb_eq in Ek. subst. left. reflexivity.
Qed.

(** soundness of the finite enumeration: every successful firing is one of [fsm_edges] *)
Lemma fsm_fire_in_edges evs cur ev dst :
  fsm_fire evs cur ev = Some dst -> In (cur, ev, dst) (fsm_edges evs).
Proof.
  intro H. unfold fsm_edges. apply in_flat_map.
  pose proof H as H0. unfold fsm_fire in H.
  destruct (fsm_lookup evs ev cur) as [d|] eqn:E; [|discriminate].
  exists ((ev, cur), d). split.
  - apply alookup_last_in. exact E.
  - simpl. rewrite H0. left. reflexivity.
Qed.
