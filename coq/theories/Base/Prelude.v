(** Shared definitions: uint64 wrap-around, small list helpers, association lists.
    Stdlib only; every definition computes under [vm_compute]. *)
From Coq Require Export List NArith ZArith Bool Lia.
From Coq Require Import ZifyBool ZifyN ZifyNat.
Export ListNotations.

Definition W64 : N := 18446744073709551616%N.
Definition MAXU64 : N := 18446744073709551615%N.
Definition wrap64 (x : N) : N := (x mod W64)%N.

Lemma wrap64_small x : (x < W64)%N -> wrap64 x = x.
Proof. intro H. unfold wrap64. apply N.mod_small; exact H. Qed.

Lemma wrap64_lt x : (wrap64 x < W64)%N.
Proof. unfold wrap64. apply N.mod_lt. unfold W64. lia. Qed.

(** association lists with a decidable key equality given as a boolean *)
Section Assoc.
  Context {K V : Type} (keqb : K -> K -> bool).
  Fixpoint alookup (k : K) (l : list (K * V)) : option V :=
    match l with
    | [] => None
    | (k', v) :: t => if keqb k k' then Some v else alookup k t
    end.
  (** last binding wins: the semantics of repeated Go map assignment *)
  Fixpoint alookup_last (k : K) (l : list (K * V)) : option V :=
    match l with
    | [] => None
    | (k', v) :: t =>
        match alookup_last k t with
        | Some v' => Some v'
        | None => if keqb k k' then Some v else None
        end
    end.
  Fixpoint aremove (k : K) (l : list (K * V)) : list (K * V) :=
    match l with
    | [] => []
    | (k', v) :: t => if keqb k k' then aremove k t else (k', v) :: aremove k t
    end.
  Definition aset (k : K) (v : V) (l : list (K * V)) : list (K * V) :=
    (k, v) :: aremove k l.
End Assoc.

Definition list_eqb {A} (eqb : A -> A -> bool) : list A -> list A -> bool :=
  fix go l1 l2 :=
    match l1, l2 with
    | [], [] => true
    | x :: t1, y :: t2 => eqb x y && go t1 t2
    | _, _ => false
    end.

Lemma list_eqb_spec {A} (eqb : A -> A -> bool) :
  (forall x y, eqb x y = true <-> x = y) ->
  forall l1 l2, list_eqb eqb l1 l2 = true <-> l1 = l2.
Proof.
  intros He l1. induction l1 as [|x t IH]; intros [|y t2]; simpl; split; intro H;
    try reflexivity; try discriminate.
  - apply andb_true_iff in H. destruct H as [H1 H2].
    apply He in H1. apply IH in H2. subst. reflexivity.
  - inversion H; subst. apply andb_true_iff. split; [apply He; reflexivity | apply IH; reflexivity].
Qed.

Definition option_eqb {A} (eqb : A -> A -> bool) (a b : option A) : bool :=
  match a, b with
  | Some x, Some y => eqb x y
  | None, None => true
  | _, _ => false
  end.

Definition pair_eqb {A B} (ea : A -> A -> bool) (eb : B -> B -> bool) (p q : A * B) : bool :=
  ea (fst p) (fst q) && eb (snd p) (snd q).

(** index of the first position where two lists differ (for mismatch reports) *)
Fixpoint first_diff {A} (eqb : A -> A -> bool) (l1 l2 : list A) (i : N) : option N :=
  match l1, l2 with
  | [], [] => None
  | x :: t1, y :: t2 => if eqb x y then first_diff eqb t1 t2 (N.succ i) else Some i
  | _, _ => Some i
  end.

(** Judge verdicts, printed as pairs of numbers so the harness can parse them:
    (0,_) model = implementation and property predicate true
    (1,i) model and implementation differ first at step i
    (2,i) traces agree but the property predicate is false on the implementation trace (i = detail)
    (3,i) model ran out of fuel / rejected the case as outside its domain *)
Definition verdict := (N * N)%type.
Definition V_ok : verdict := (0, 0)%N.
Definition V_mismatch (i : N) : verdict := (1, i)%N.
Definition V_propfalse (i : N) : verdict := (2, i)%N.
Definition V_domain (i : N) : verdict := (3, i)%N.
