(** Executable SHA-256 (FIPS 180-4) over Coq's primitive 63-bit integers.

    Only the correspondence runs (model root compared byte-exactly with the Go ledger's
    [sha256.Sum256]) use this instance.  Every root theorem is stated over an abstract hash
    function and never mentions [Uint63]; [Print Assumptions] of this file lists the kernel
    primitives of [PrimInt63] (primitives, not axioms).

    Bytes are [N] (0..255) at the interface, [int] inside.  The same algorithm written over [N]
    is about 200 times slower under [vm_compute]. *)
From Coq Require Import List NArith ZArith Uint63.
Import ListNotations.
Local Open Scope uint63_scope.

Definition m32 : int := 0xFFFFFFFF.
Definition add32 (a b : int) : int := (a + b) land m32.
Definition rotr (x : int) (n : int) : int := ((x >> n) lor (x << (32 - n))) land m32.
Definition shr (x : int) (n : int) : int := x >> n.

Definition Ch (x y z : int) := (x land y) lxor ((x lxor m32) land z).
Definition Maj (x y z : int) := (x land y) lxor (x land z) lxor (y land z).
Definition S0 x := rotr x 2 lxor rotr x 13 lxor rotr x 22.
Definition S1 x := rotr x 6 lxor rotr x 11 lxor rotr x 25.
Definition s0 x := rotr x 7 lxor rotr x 18 lxor shr x 3.
Definition s1 x := rotr x 17 lxor rotr x 19 lxor shr x 10.

Definition K256 : list int :=
 [0x428a2f98; 0x71374491; 0xb5c0fbcf; 0xe9b5dba5; 0x3956c25b; 0x59f111f1; 0x923f82a4; 0xab1c5ed5;
  0xd807aa98; 0x12835b01; 0x243185be; 0x550c7dc3; 0x72be5d74; 0x80deb1fe; 0x9bdc06a7; 0xc19bf174;
  0xe49b69c1; 0xefbe4786; 0x0fc19dc6; 0x240ca1cc; 0x2de92c6f; 0x4a7484aa; 0x5cb0a9dc; 0x76f988da;
  0x983e5152; 0xa831c66d; 0xb00327c8; 0xbf597fc7; 0xc6e00bf3; 0xd5a79147; 0x06ca6351; 0x14292967;
  0x27b70a85; 0x2e1b2138; 0x4d2c6dfc; 0x53380d13; 0x650a7354; 0x766a0abb; 0x81c2c92e; 0x92722c85;
  0xa2bfe8a1; 0xa81a664b; 0xc24b8b70; 0xc76c51a3; 0xd192e819; 0xd6990624; 0xf40e3585; 0x106aa070;
  0x19a4c116; 0x1e376c08; 0x2748774c; 0x34b0bcb5; 0x391c0cb3; 0x4ed8aa4a; 0x5b9cca4f; 0x682e6ff3;
  0x748f82ee; 0x78a5636f; 0x84c87814; 0x8cc70208; 0x90befffa; 0xa4506ceb; 0xbef9a3f7; 0xc67178f2].

Definition H0 : list int :=
 [0x6a09e667; 0xbb67ae85; 0x3c6ef372; 0xa54ff53a; 0x510e527f; 0x9b05688c; 0x1f83d9ab; 0x5be0cd19].

(** message schedule: a sliding window of the last 16 words *)
Definition next_w (win : list int) : int :=
  match win with
  | [w0; w1; _; _; _; _; _; _; _; w9; _; _; _; _; w14; _] =>
      add32 (add32 (s1 w14) w9) (add32 (s0 w1) w0)
  | _ => 0
  end.

Fixpoint schedule (n : nat) (win : list int) (acc : list int) : list int :=
  match n with
  | O => rev acc
  | S k => let w := next_w win in schedule k (tl win ++ [w]) (w :: acc)
  end.

Definition expand (w16 : list int) : list int := w16 ++ schedule 48 w16 [].

Definition st8 := (int * int * int * int * int * int * int * int)%type.

Definition round (s : st8) (kw : int * int) : st8 :=
  let '(a, b, c, d, e, f, g, h) := s in
  let '(k, w) := kw in
  let t1 := add32 (add32 (add32 h (S1 e)) (add32 (Ch e f g) k)) w in
  let t2 := add32 (S0 a) (Maj a b c) in
  (add32 t1 t2, a, b, c, add32 d t1, e, f, g).

Definition compress (hs : st8) (w16 : list int) : st8 :=
  let '(a, b, c, d, e, f, g, h) := fold_left round (combine K256 (expand w16)) hs in
  let '(a0, b0, c0, d0, e0, f0, g0, h0) := hs in
  (add32 a a0, add32 b b0, add32 c c0, add32 d d0, add32 e e0, add32 f f0, add32 g g0, add32 h h0).

(** big-endian words from bytes *)
Fixpoint words (bs : list int) : list int :=
  match bs with
  | b0 :: b1 :: b2 :: b3 :: t => ((b0 << 24) lor (b1 << 16) lor (b2 << 8) lor b3) :: words t
  | _ => []
  end.

(** split a list of words into blocks of 16 (fuel = number of blocks) *)
Fixpoint blocks (fuel : nat) (ws : list int) : list (list int) :=
  match fuel with
  | O => []
  | S k => match ws with
           | [] => []
           | _ => firstn 16 ws :: blocks k (skipn 16 ws)
           end
  end.

Definition be_bytes8 (n : int) : list int :=
  [(n >> 56) land 255; (n >> 48) land 255; (n >> 40) land 255; (n >> 32) land 255;
   (n >> 24) land 255; (n >> 16) land 255; (n >> 8) land 255; n land 255].

Definition be_bytes4 (n : int) : list int :=
  [(n >> 24) land 255; (n >> 16) land 255; (n >> 8) land 255; n land 255].

Definition pad (msg : list int) : list int :=
  let len := List.length msg in
  let r := Nat.modulo (len + 1) 64 in
  let z := if Nat.leb r 56 then (56 - r)%nat else (120 - r)%nat in
  msg ++ [128] ++ repeat 0 z ++ be_bytes8 (Uint63.of_Z (Z.of_nat len * 8)).

Definition sha256_int (msg : list int) : list int :=
  let p := pad msg in
  let ws := words p in
  let bl := blocks (S (Nat.div (List.length p) 64)) ws in
  let '(a, b, c, d, e, f, g, h) :=
    fold_left compress bl
      (0x6a09e667, 0xbb67ae85, 0x3c6ef372, 0xa54ff53a, 0x510e527f, 0x9b05688c, 0x1f83d9ab, 0x5be0cd19) in
  be_bytes4 a ++ be_bytes4 b ++ be_bytes4 c ++ be_bytes4 d ++
  be_bytes4 e ++ be_bytes4 f ++ be_bytes4 g ++ be_bytes4 h.

Definition int_of_N (n : N) : int := Uint63.of_Z (Z.of_N n).
Definition N_of_int (i : int) : N := Z.to_N (Uint63.to_Z i).

(** the instance used by the judge: bytes as [N] *)
Definition sha256 (msg : list N) : list N := map N_of_int (sha256_int (map int_of_N msg)).

(** ------------------------------------------------------------------ validation ---- *)
Local Open Scope N_scope.

(** hex helper for the test vectors (two hex digits per byte, given as a big number) *)
Fixpoint N_to_bytes_be (n : nat) (x : N) (acc : list N) : list N :=
  match n with
  | O => acc
  | S k => N_to_bytes_be k (x / 256) (x mod 256 :: acc)
  end.
Definition hex32 (x : N) : list N := N_to_bytes_be 32 x [].

(** NIST FIPS 180-4 / CAVP vectors *)
Example sha256_empty :
  sha256 [] = hex32 0xe3b0c44298fc1c149afbf4c8996fb92427ae41e4649b934ca495991b7852b855.
Proof. vm_compute. reflexivity. Qed.

Example sha256_abc :
  sha256 [97; 98; 99] = hex32 0xba7816bf8f01cfea414140de5dae2223b00361a396177a9cb410ff61f20015ad.
Proof. vm_compute. reflexivity. Qed.

(** "abcdbcdecdefdefgefghfghighijhijkijkljklmklmnlmnomnopnopq" (56 bytes: two blocks) *)
Definition msg56 : list N :=
  [97;98;99;100; 98;99;100;101; 99;100;101;102; 100;101;102;103; 101;102;103;104; 102;103;104;105;
   103;104;105;106; 104;105;106;107; 105;106;107;108; 106;107;108;109; 107;108;109;110;
   108;109;110;111; 109;110;111;112; 110;111;112;113].
Example sha256_two_blocks :
  sha256 msg56 = hex32 0x248d6a61d20638b8e5c026930c3e6039a33ce45964ff2167f6ecedd419db06c1.
Proof. vm_compute. reflexivity. Qed.

(** 112-byte message "abcdefghbcdefghi...nopqrstu" *)
Definition msg112 : list N :=
  flat_map (fun i => map (fun j => 97 + i + j) [0;1;2;3;4;5;6;7]) [0;1;2;3;4;5;6;7;8;9;10;11;12;13].
Example sha256_112 :
  sha256 msg112 = hex32 0xcf5b16a778af8380036ce59e7b0492370b249b11e8f07a51afac45037afee9d1.
Proof. vm_compute. reflexivity. Qed.

(** one million 'a' is too slow for a quick build; 1000 'a' (boundary-crossing padding) instead,
    value cross-checked with Go's crypto/sha256 by the ledger driver's self-test *)
Example sha256_1000a :
  sha256 (repeat 97 1000) = hex32 0x41edece42d63e8d9bf515a9ba6932e1c20cbc9f5a5d134645adb5db1b9737ea3.
Proof. vm_compute. reflexivity. Qed.

(** lengths 55, 56, 63, 64 exercise every padding branch *)
Example sha256_len55 :
  sha256 (repeat 97 55) = hex32 0x9f4390f8d30c2dd92ec9f095b65e2b9ae9b0a925a5258e241c9f1e910f734318.
Proof. vm_compute. reflexivity. Qed.
Example sha256_len56 :
  sha256 (repeat 97 56) = hex32 0xb35439a4ac6f0948b6d6f9e3c6af0f5f590ce20f1bde7090ef7970686ec6738a.
Proof. vm_compute. reflexivity. Qed.
Example sha256_len64 :
  sha256 (repeat 97 64) = hex32 0xffe054fe7ae0cb6dc65c3af9b61d5209f439851db43d0ba5997337df154668eb.
Proof. vm_compute. reflexivity. Qed.

Example sha256_length : List.length (sha256 [1; 2; 3]) = 32%nat.
Proof. vm_compute. reflexivity. Qed.
