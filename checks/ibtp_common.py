"""Shared machinery of the IBTP protocol checks C02 C04 C05 C06: worlds, history generators,
driver invocation, Gallina case writer, in-Coq judge call, shrinking."""
import copy
import json
import os

import vlib
from vlib import glist, gbool

MAXU = 2 ** 64 - 1
START_H = 3          # height of the first history block (1 genesis, 2 seeding)

# ---------------------------------------------------------------------------------------------
# worlds: [hub, chain, ordered, avail, registered, blacklist]

W_BASIC = dict(svcs=[[0, 1, 1, 1, 1, []], [0, 2, 1, 1, 1, []], [0, 3, 1, 1, 1, []], [0, 1, 1, 1, 1, []]], hubs=[])
W_MIXED = dict(svcs=[[0, 1, 1, 1, 1, []],      # 1 A ordered
                     [0, 2, 1, 1, 1, []],      # 2 B ordered
                     [0, 3, 1, 1, 1, []],      # 3 C ordered
                     [0, 2, 0, 1, 1, []],      # 4 B unordered
                     [0, 3, 1, 0, 1, []],      # 5 C frozen (unavailable)
                     [0, 2, 1, 1, 1, [1]],     # 6 B blacklists service 1
                     [0, 1, 0, 1, 1, []],      # 7 A unordered source
                     [0, 3, 1, 1, 0, []],      # 8 C not registered
                     [0, 5, 1, 1, 1, []]],     # 9 on an unregistered appchain
               hubs=[])
W_ORDERED3 = dict(svcs=[[0, 1, 1, 1, 1, []], [0, 2, 1, 1, 1, []], [0, 3, 1, 1, 1, []], [0, 2, 1, 1, 1, []],
                        [0, 3, 1, 0, 1, []], [0, 2, 1, 1, 1, [1]]], hubs=[])
W_HUB = dict(svcs=[[0, 1, 1, 1, 1, []], [0, 2, 1, 1, 1, []], [1, 1, 1, 1, 1, []], [2, 1, 1, 1, 1, []], [0, 3, 1, 1, 1, []]],
             hubs=[[1, 1], [2, 0]])
WORLDS = dict(basic=W_BASIC, mixed=W_MIXED, ordered3=W_ORDERED3, hub=W_HUB)


def svc_ok_for_proof(world, k):
    """the proof pool accepts a proof only when the verifying side's appchain is registered on this hub"""
    if k < 1 or k > len(world["svcs"]):
        return False
    s = world["svcs"][k - 1]
    return s[0] == 0 and s[1] <= 4


def eff_proof_ok(world, op):
    if op[0] == 1:
        return bool(op[7]) and svc_ok_for_proof(world, op[1])
    if op[0] == 2:
        return bool(op[5]) and svc_ok_for_proof(world, op[2])
    if op[0] == 5:
        return bool(op[5]) and svc_ok_for_proof(world, op[1])
    return True


# ---------------------------------------------------------------------------------------------
# history = dict(audit, svcs, hubs, blocks=[ [op..] | 0 ])

def finish_history(h):
    """derive the query lists from the operations"""
    ids, gids, hs = [], [], [MAXU]
    height = START_H - 1
    for b in h["blocks"]:
        if b == 0:
            continue
        height += 1
        for op in b:
            # a Group with no keys hashes to the same global id whatever the tag: one canonical tag
            if op[0] == 1 and op[5] != 0 and op[6] == 0:
                op[5] = 1
            if op[0] == 2 and len(op) == 8 and op[6] != 0 and op[7] == 0:
                op[6] = 1
            if op[0] in (1, 2, 5, 6):
                i = (op[1], op[2], op[3])
                if i not in ids:
                    ids.append(i)
            if op[0] == 1:
                if op[5] != 0:
                    g = (op[1], op[5], op[6])
                    if g not in gids:
                        gids.append(g)
                T = op[4]
                if 0 < T < 1000 and height + T not in hs:
                    hs.append(height + T)
            if op[0] == 4 and op[1] in (4, 6, 7, 8):
                i = (op[2], op[3], op[4])
                if i not in ids:
                    ids.append(i)
    h["qids"] = [[a, b, str(c)] for a, b, c in ids[:40]]
    h["qgids"] = [[a, b, c] for a, b, c in gids[:10]]
    h["qhs"] = [str(x) for x in sorted(hs)[:24]]
    return h


def mk_history(world, blocks, audit=0):
    return finish_history(dict(audit=audit, svcs=copy.deepcopy(world["svcs"]), hubs=copy.deepcopy(world["hubs"]), blocks=blocks))


def driver_line(h):
    # integers are written exactly by json.dumps and decoded with UseNumber on the Go side
    return h


def n_blocks(h):
    return sum(1 for b in h["blocks"] if b != 0)


# ---------------------------------------------------------------------------------------------
# Gallina writers

def g_tok(t):
    if t[0] == 1:
        return "TTx (%d, %d, %s)" % (t[1], t[2], t[3])
    if t[0] == 2:
        return "TGid (%d, %s, %d)" % (t[1], t[2], t[3])
    return "TEmpty"


def g_optN(x):
    return "None" if x < 0 else "(Some %d)" % x


def g_world(h):
    svcs = glist(h["svcs"], lambda s: "Build_svc_info %d %d %s %s %s %s" % (s[0], s[1], gbool(s[2]), gbool(s[3]), gbool(s[4]), glist(s[5])))
    hubs = glist(h["hubs"], lambda p: "(%d, %s)" % (p[0], gbool(p[1])))
    return "(Build_world %s %s %s)" % (svcs, hubs, gbool(h["audit"]))


def g_query(h):
    return "(Build_query %s %s %s %d)" % (
        glist(h["qids"], lambda i: "(%d, %d, %s)" % (i[0], i[1], i[2])),
        glist(h["qgids"], lambda g: "(%d, %d, %d)" % (g[0], g[1], g[2])),
        glist(h["qhs"]), len(h["svcs"]))


def g_op(h, op):
    k = op[0]
    pk = gbool(eff_proof_ok(h, op))
    if k == 1:
        grp = "None" if op[5] == 0 else "(Some (%d, %d))" % (op[5], op[6])
        return "OIbtp (Build_ibtp %d %d %d 0 (%d)%%Z %s 0) %s" % (op[1], op[2], op[3], op[4], grp, pk)
    if k == 2:
        grp = "None" if len(op) < 8 or op[6] == 0 else "(Some (%d, %d))" % (op[6], op[7])
        return "OIbtp (Build_ibtp %d %d %d %d 0%%Z %s 0) %s" % (op[1], op[2], op[3], op[4], grp, pk)
    if k == 3:
        return "OTransfer"
    if k == 4:
        return "OCall %d %d %d %d %d" % (op[1], op[2], op[3], op[4], op[5])
    if k == 5:
        return "OIbtp (Build_ibtp %d %d %d 0 0%%Z None %d) %s" % (op[1], op[2], op[3], op[4], pk)
    if k == 6:
        if not svc_ok_for_proof(h, op[1]):      # the proof pool rejects it before the contract is reached
            return "OIbtp (Build_ibtp %d %d %d 0 (%d)%%Z None 0) false" % (op[1], op[2], op[3], op[4])
        return "OCall 9 %d %d %d 0" % (op[1], op[2], op[3])
    raise ValueError(op)


def g_items(h):
    return glist(h["blocks"], lambda b: "IRestart" if b == 0 else "IBlock " + glist(b, lambda op: g_op(h, op)))


def g_bobs(o):
    rc = glist(o["rc"], lambda r: "(%d, %d, %d)" % tuple(r))
    cnt = glist(o["cnt"], lambda p: "(%d, %s)" % (p[0], glist(p[1], lambda r: "(%d, %d, %d)" % tuple(r))))
    to = glist(o["to"], lambda p: "(%d, %s)" % (p[0], glist(p[1], g_tok)))
    mt = glist(o["mt"], lambda p: "(%d, %s)" % (p[0], glist(p[1], g_tok)))
    st = glist(o["st"], g_optN)
    ix = glist(o["ix"], lambda p: "(%s, %s)" % (g_optN(0 if p[0] == -2 else p[0]), g_optN(0 if p[1] == -2 else p[1])))

    def g_ch(c):
        if c[0] == 0:
            return "None"
        kids = glist(c[4], lambda k: "((%d, %d, %s), %d)" % (k[1], k[2], k[3], k[4]) if k[0] == 1 else "((0, 0, 0), 99)")
        return "(Some (%d, %s, %d, %s))" % (c[1] if c[0] == 1 else 99, c[2], c[3], kids)

    ch = glist(o["ch"], g_ch)

    def g_ic(c):
        if c[0] == 0:
            return "None"
        return "(Some %s)" % glist(c[1], lambda r: "(%d, (%s, %s, %s, %s))" % (r[0], r[1], r[2], r[3], r[4]))

    ic = glist(o["ic"], g_ic)
    tl = glist(o["tl"], lambda t: "None" if t[0] == 0 else "(Some %s)" % glist(t[1], g_tok))
    return "(Build_bobs %s %s %s %s %s %s %s %s %s %s)" % (rc, cnt, to, mt, gbool(o["tr"]), st, ix, ch, ic, tl)


def g_case(h, impl_blocks):
    return "(Build_icase %s %s %s %s)" % (g_world(h), g_query(h), g_items(h), glist(impl_blocks, g_bobs))


FLAGS = ["d_timeout_keeps_failed", "d_interbxh_zero_record", "d_multitx_dst_first", "d_unordered",
         "d_tl_empty_head", "d_delete_interchain", "d_late_child", "d_fail_ndst_lost", "d_interhub_timeout", "d_receipt_group_skip",
         "d_fail_after_success"]


def g_cfg(flags):
    return "(Build_Defects %s)" % " ".join(gbool(f in flags) for f in FLAGS)


HEADER = ("From BX Require Import Base.Prelude Model.TxFsm Model.TxMgr Model.Interchain Model.IbtpExec Model.IbtpJudge.\n"
          "Local Open Scope N_scope.\n")


def run_impl(exe, hs, timeout=900):
    """-> list of (err, blocks) per history (None when the driver died)"""
    rc, outs, e = vlib.run_driver(exe, "ibtp", [driver_line(h) for h in hs], timeout=timeout)
    res = []
    for i, h in enumerate(hs):
        if i < len(outs):
            res.append((outs[i].get("err", ""), outs[i].get("blocks", []), outs[i].get("mut", [])))
        else:
            res.append(None)
    return rc, res, e


# ---------------------------------------------------------------------------------------------
# generators

class Tracker:
    """optimistic bookkeeping of what the relay chain should expect next, used only to aim the
    generator at interesting indices (never as an oracle)"""

    def __init__(self, world):
        self.world = world
        self.req = {}     # (f,t) -> highest request index believed accepted
        self.rcp = {}     # (f,t) -> highest receipt index believed finalised
        self.open = []    # [f,t,idx,height,T,group]
        self.height = START_H - 1

    def pairs(self, rng, n):
        k = len(self.world["svcs"])
        return [(rng.randrange(1, k + 1), rng.randrange(1, k + 1)) for _ in range(n)]


def pick_index(rng, expected):
    r = rng.random()
    if r < 0.62:
        return expected
    if r < 0.72:
        return max(expected - 1, 0)
    if r < 0.82:
        return expected + 1
    if r < 0.87:
        return 0
    if r < 0.92:
        return MAXU
    return rng.choice([1, 2, 3, expected + 7, 2 ** 63, 2 ** 63 - 1])


def pick_T(rng):
    r = rng.random()
    if r < 0.15:
        return 0
    if r < 0.30:
        return 1
    if r < 0.80:
        return rng.randrange(2, 6)
    if r < 0.88:
        return rng.choice([2 ** 63 - 1, 2 ** 62, 10 ** 6])
    return rng.choice([-1, -2 ** 63, -5])


def gen_mixed(rng, world, nblocks=8, pairs=None, p_group=0.15, p_call=0.12, p_restart=0.1, audit=None, max_ops=4):
    tr = Tracker(world)
    k = len(world["svcs"])
    if pairs is None:
        pairs = []
        while len(pairs) < rng.randrange(2, 5):
            p = (rng.randrange(1, k + 1), rng.randrange(1, k + 1))
            if p not in pairs:
                pairs.append(p)
    blocks = []
    groups = {}
    for _ in range(nblocks):
        if rng.random() < p_restart:
            blocks.append(0)
        ops = []
        for _ in range(rng.choice([0, 1, 1, 2, 2, 3, max_ops])):
            r = rng.random()
            f, t = rng.choice(pairs)
            if rng.random() < 0.04:
                t = rng.randrange(0, k + 2)
            if r < 0.45:
                exp = tr.req.get((f, t), 0) + 1
                idx = pick_index(rng, exp)
                g, cnt = 0, 0
                if rng.random() < p_group:
                    g = rng.randrange(1, 4)
                    cnt = groups.setdefault((f, g), rng.randrange(1, 4))
                    if rng.random() < 0.1:
                        cnt = rng.randrange(1, 5)
                ops.append([1, f, t, idx, pick_T(rng), g, cnt, 0 if rng.random() < 0.04 else 1])
                if idx == exp:
                    tr.req[(f, t)] = exp
            elif r < 0.85:
                exp = tr.rcp.get((f, t), 0) + 1
                idx = pick_index(rng, exp)
                kind = rng.choice([1, 1, 1, 2, 2, 3, 3, 4] if rng.random() < 0.5 else [1, 2, 3])
                ops.append([2, f, t, idx, kind, 0 if rng.random() < 0.04 else 1])
                if idx == exp and idx <= tr.req.get((f, t), 0) and kind != 4:
                    tr.rcp[(f, t)] = exp
            elif r < 0.85 + p_call:
                m = rng.choice([1, 2, 3, 4, 5, 6, 7, 8, 1, 3, 4])
                a = rng.choice([f, t, rng.randrange(0, k + 2)])
                if m in (4, 6, 7, 8):
                    ops.append([4, m, f, t, pick_index(rng, tr.req.get((f, t), 0)), rng.choice([0, 1, 2, 3])])
                elif m == 5:
                    ops.append([4, m, f, t, 1, 0])
                else:
                    ops.append([4, m, a, 0, 0, 0])
            else:
                ops.append([3])
        blocks.append(ops)
    if audit is None:
        audit = 1 if rng.random() < 0.3 else 0
    return mk_history(world, blocks, audit=audit)


W_GROUP = dict(svcs=[[0, 1, 1, 1, 1, []],      # 1 source on A
                     [0, 2, 1, 1, 1, []],      # 2 B
                     [0, 3, 1, 1, 1, []],      # 3 C
                     [0, 2, 1, 1, 1, []],      # 4 B (second service on B)
                     [0, 3, 1, 0, 1, []],      # 5 C frozen: begin fails
                     [0, 1, 1, 1, 1, []],      # 6 A (destination on the source's own chain)
                     [0, 4, 1, 1, 1, []]],     # 7 D
               hubs=[])
WORLDS["group"] = W_GROUP


def pack_blocks(rng, events, p_new_block=0.5, p_empty=0.15, p_restart=0.08):
    """events: list of ops or the marker 'wait' (an empty block); returns blocks"""
    blocks, cur = [], []
    for e in events:
        if e == "wait":
            blocks.append(cur)
            cur = []
            blocks.append([])
            continue
        if e == "cut":
            blocks.append(cur)
            cur = []
            continue
        cur.append(e)
        if rng.random() < p_new_block:
            blocks.append(cur)
            cur = []
            if rng.random() < p_empty:
                blocks.append([])
            if rng.random() < p_restart:
                blocks.append(0)
    if cur:
        blocks.append(cur)
    return blocks


def gen_group(rng, world=None, audit=None):
    """one or two one-to-many groups from service 1 with every kind of child fate"""
    world = world or W_GROUP
    src = 1
    dests_all = [2, 3, 4, 6, 7]
    nxt = {}
    events = []
    ngroups = rng.choice([1, 1, 1, 2])
    for gi in range(1, ngroups + 1):
        declared = rng.randrange(1, 6)
        nkids = max(1, declared + rng.choice([0, 0, 0, 0, -1, 1]))
        nkids = min(nkids, 5)
        dests = rng.sample(dests_all, min(nkids, len(dests_all)))
        if rng.random() < 0.15 and nkids >= 2:
            dests[rng.randrange(len(dests))] = 5            # a child whose destination is unavailable: fails at begin
        if rng.random() < 0.07 and nkids >= 2:
            dests[-1] = dests[0]                            # two children on the same pair
        T = rng.choice([0, 1, 2, 2, 3, 3, 4, 6, -1, 2 ** 63 - 1])
        kids = []
        for d in dests:
            idx = nxt.get(d, 0) + 1
            nxt[d] = idx
            kids.append((d, idx))
        # fate of the group
        fate = rng.choice(["success", "success", "fail", "fail", "timeout", "mixed", "mixed"])
        ev = []
        begins = [[1, src, d, idx, T, gi, declared, 1] for d, idx in kids]
        order = list(range(len(kids)))
        rng.shuffle(order)
        fail_pos = rng.randrange(len(kids))
        reports = []
        for j, k in enumerate(order):
            d, idx = kids[k]
            if fate == "success":
                kind = 1
            elif fate == "fail":
                kind = 2 if j == fail_pos else rng.choice([1, 1, 2])
            elif fate == "timeout":
                kind = rng.choice([1, 3, 2]) if rng.random() < 0.4 else None
            else:
                kind = rng.choice([1, 1, 2, 3, None])
            if kind is not None:
                reports.append([2, src, d, idx, kind, 1])
        # interleave: each report after its begin, otherwise random
        seq = [("b", i) for i in range(len(begins))]
        for r in reports:
            bi = next(i for i, b in enumerate(begins) if b[2] == r[2] and b[3] == r[3])
            pos_b = seq.index(("b", bi))
            pos = rng.randrange(pos_b + 1, len(seq) + 1)
            seq.insert(pos, ("r", r))
        for kind, x in seq:
            ev.append(begins[x] if kind == "b" else x)
            if rng.random() < 0.12:
                ev.append("wait")
        # follow-ups: second reports (rollback / failure after the group failed or timed out), duplicates, late, unknown
        for d, idx in kids:
            if rng.random() < 0.6:
                ev.append([2, src, d, idx, rng.choice([2, 3, 1, 2, 3]), 1])
            if rng.random() < 0.1:
                ev.append("wait")
        if rng.random() < 0.3:
            ev.append([2, src, rng.choice(dests_all), rng.randrange(1, 4), rng.choice([1, 2, 3]), 1])   # unknown / late
        if rng.random() < 0.2:
            ev.append(begins[rng.randrange(len(begins))])                                            # duplicate begin
        if rng.random() < 0.15:
            d = rng.choice(dests_all)
            idx = nxt.get(d, 0) + 1
            nxt[d] = idx
            ev.append([1, src, d, idx, T, gi, declared, 1])                                          # late child
        for _ in range(rng.choice([0, 1, 2, 4])):
            ev.append("wait")
        events += ev
    # a single (non-group) transaction mixed in, sharing timeout heights
    if rng.random() < 0.5:
        d = rng.choice([2, 3])
        idx = nxt.get(d, 0) + 1
        pos = rng.randrange(0, len(events) + 1)
        events.insert(pos, [1, src, d, idx, rng.choice([1, 2, 3]), 0, 0, 1])
        if rng.random() < 0.6:
            events.insert(rng.randrange(pos + 1, len(events) + 1), [2, src, d, idx, rng.choice([1, 2, 3]), 1])
    blocks = pack_blocks(rng, events)
    blocks += [[] for _ in range(rng.choice([0, 1, 2, 3]))]
    if audit is None:
        audit = 1 if rng.random() < 0.2 else 0
    return mk_history(world, blocks, audit=audit)


def gen_timeout(rng, world=None, audit=None):
    """single transactions with T in {0,1,small,huge}, receipts before / at / after H+T, shared timeout heights,
    begin-failed requests, restarts in between"""
    world = world or W_GROUP
    src = rng.choice([1, 1, 6])
    nxt = {}
    # timeline: height -> ops
    horizon = rng.randrange(6, 14)
    tl = {h: [] for h in range(START_H, START_H + horizon)}
    for _ in range(rng.randrange(1, 6)):
        d = rng.choice([2, 3, 4, 7, 5, 2, 3])
        H = rng.randrange(START_H, START_H + horizon - 2)
        T = rng.choice([0, 1, 1, 2, 2, 3, 4, 5, -1, -2 ** 63, 2 ** 63 - 1, 10 ** 9])
        key = (src, d)
        tl[H].append(("req", src, d, T))
        if rng.random() < 0.75:
            when = rng.choice(["before", "at", "after", "same", "at"])
            Teff = T if 0 < T < 100 else 3
            if when == "before":
                R = rng.randrange(H, H + Teff) if Teff > 0 else H
            elif when == "at":
                R = H + Teff
            elif when == "same":
                R = H
            else:
                R = H + Teff + rng.randrange(1, 3)
            if R in tl:
                tl[R].append(("rcp", src, d, rng.choice([1, 1, 2, 2, 3]), H))
            if rng.random() < 0.3:
                R2 = R + rng.randrange(0, 3)
                if R2 in tl:
                    tl[R2].append(("rcp", src, d, rng.choice([1, 2, 3]), H))
    # assign indices in timeline order per pair; receipts refer to the request of their pair made at height H
    blocks = []
    issued = {}
    for h in sorted(tl):
        ops = []
        evs = tl[h]
        # requests first or receipts first, randomly
        if rng.random() < 0.5:
            evs = sorted(evs, key=lambda e: e[0] != "req")
        for e in evs:
            if e[0] == "req":
                _, s, d, T = e
                idx = nxt.get((s, d), 0) + 1
                nxt[(s, d)] = idx
                issued.setdefault((s, d, h), []).append(idx)
                if rng.random() < 0.06:
                    ops.append([1, s, d, idx, T, 1, 0, 1])     # Group present but without keys (a one-child group of declared size 0)
                else:
                    ops.append([1, s, d, idx, T, 0, 0, 1])
            else:
                _, s, d, kind, H = e
                lst = issued.get((s, d, H))
                if lst:
                    if rng.random() < 0.12:
                        ops.append([2, s, d, lst[0], kind, 1, rng.randrange(1, 3), rng.randrange(1, 3)])   # receipt carrying a Group field
                    else:
                        ops.append([2, s, d, lst[0], kind, 1])
        if rng.random() < 0.1:
            ops.append([3])
        blocks.append(ops)
        if rng.random() < 0.12:
            blocks.append(0)
    if audit is None:
        audit = 1 if rng.random() < 0.15 else 0
    return mk_history(world, blocks, audit=audit)


def gen_shared_expiry(rng, world=None, audit=None):
    """k >= 2 one-to-one requests (one or several source chains, distinct or repeated pairs) that all expire at ONE
    height K; all / some of their receipts packed into a single block before K (in request order or reversed
    across pairs), the rest in other blocks, at K, after K or never; then the chain runs up to K and beyond.
    Exercises the accumulate-then-write structure of setTimeoutList (several removals / additions for one list)."""
    world = world or W_GROUP
    srcs = rng.choice([[1], [1], [1, 2], [1, 2, 3], [6, 2]])
    dsts = [2, 3, 4, 7, 6, 1]
    k = rng.randrange(2, 6)
    span = rng.randrange(1, 4)                      # requests are issued in blocks START_H .. START_H+span-1
    K = START_H + span - 1 + rng.randrange(2, 6)    # the common expiry height
    last = K + rng.randrange(1, 4)
    tl = {h: [] for h in range(START_H, last + 1)}
    nxt, reqs = {}, []
    for _ in range(k):
        s = rng.choice(srcs)
        d = rng.choice([x for x in dsts if x != s])
        H = rng.randrange(START_H, START_H + span)
        reqs.append((H, s, d))
    reqs.sort(key=lambda r: r[0])
    items = []
    for H, s, d in reqs:
        idx = nxt.get((s, d), 0) + 1
        nxt[(s, d)] = idx
        T = K - H
        if rng.random() < 0.1:
            T += rng.choice([1, -1])                # a neighbour list
        tl[H].append([1, s, d, idx, T, 0, 0, 1])
        items.append((H, s, d, idx))
    lo = max(H for H, _, _, _ in items)
    R = rng.randrange(lo, K) if rng.random() < 0.85 else K      # the block that packs the receipts
    mode = rng.choice(["all", "all", "some", "some", "one_each"])
    packed, others = [], []
    for it in items:
        if mode == "all" or (mode == "some" and rng.random() < 0.6):
            packed.append(it)
        else:
            others.append(it)
    if mode == "some" and len(packed) < 2:
        packed, others = items[:2], items[2:]
    if mode == "one_each":
        packed, others = [], items
    def rcp(it, kind=None):
        _, s, d, idx = it
        return [2, s, d, idx, kind or rng.choice([1, 1, 1, 2, 2, 3]), 1]
    ops = [rcp(it) for it in packed]
    if rng.random() < 0.5:
        ops.reverse()                               # reversed across pairs
        if rng.random() < 0.6:
            # ... but the receipts of one pair stay in index order (otherwise the later ones are simply rejected)
            by, seen = {}, {}
            for o in ops:
                by.setdefault((o[1], o[2]), []).append(o[3])
            for v in by.values():
                v.sort()
            for o in ops:
                j = seen.get((o[1], o[2]), 0)
                o[3] = by[(o[1], o[2])][j]
                seen[(o[1], o[2])] = j + 1
    tl[R] += ops
    for it in others:
        r = rng.random()
        if r < 0.25:
            continue                                # never answered: must time out at K
        h2 = rng.choice([x for x in range(it[0], last + 1)])
        tl[h2].append(rcp(it))
    if R + 1 <= K - 1 and rng.random() < 0.35:
        # a late joiner: registered for the same height K after the block that packed the receipts (when those
        # emptied the list, the new id is written onto an emptied list)
        hb = rng.randrange(R + 1, K)
        s2 = rng.choice(srcs)
        d2 = rng.choice([x for x in dsts if x != s2])
        idx2 = nxt.get((s2, d2), 0) + 1
        nxt[(s2, d2)] = idx2
        tl[hb].insert(0, [1, s2, d2, idx2, K - hb, 0, 0, 1])
        items.append((hb, s2, d2, idx2))
        if rng.random() < 0.4:
            tl[rng.randrange(hb, last + 1)].append(rcp((hb, s2, d2, idx2)))
    if rng.random() < 0.3:
        # a late receipt (rollback confirmation) after K for something that timed out
        it = rng.choice(items)
        tl[rng.randrange(K, last + 1)].append(rcp(it, rng.choice([3, 1])))
    blocks = []
    for h in sorted(tl):
        b = tl[h]
        if rng.random() < 0.08:
            b.append([3])
        blocks.append(b)
        if rng.random() < 0.08:
            blocks.append(0)
    if audit is None:
        audit = 1 if rng.random() < 0.1 else 0
    return mk_history(world, blocks, audit=audit)


def gen_shared_group_expiry(rng, world=None, audit=None):
    """2..3 one-to-many groups (plus 0..2 single requests) whose timeout lists are ONE list: all expire at height K.
    Some groups finish before K (all children succeed / a failure receipt / a child whose destination is frozen fails
    at begin) — the first registered one most often —, the others stay open, get part of their receipts or receipts
    after K; then the chain runs to K and beyond.  Exercises TransactionManager.addToTimeoutList /
    removeFromTimeoutList on lists holding several ids."""
    world = world or W_GROUP
    ngroups = rng.choice([2, 2, 2, 3])
    span = rng.randrange(1, 3)
    K = START_H + span - 1 + rng.randrange(2, 6)
    last = K + rng.randrange(1, 4)
    tl = {h: [] for h in range(START_H, last + 1)}
    dests_all = [2, 3, 4, 7]
    groups = []
    for gi in range(1, ngroups + 1):
        src = rng.choice([1, 1, 1, 6])
        nk = rng.randrange(1, 4)
        H = rng.randrange(START_H, START_H + span)
        groups.append(dict(tag=gi, src=src, H=H, declared=nk, dests=rng.sample(dests_all, nk)))
    nxt = {}
    # begins, block by block (registration order = order of the first child's begin)
    order = sorted(groups, key=lambda g: (g["H"], rng.random()))
    for g in order:
        g["kids"] = []
        for d in g["dests"]:
            idx = nxt.get((g["src"], d), 0) + 1
            nxt[(g["src"], d)] = idx
            g["kids"].append((d, idx))
            tl[g["H"]].append([1, g["src"], d, idx, K - g["H"], g["tag"], g["declared"], 1])
    singles = []
    for _ in range(rng.choice([0, 0, 1, 2])):
        s, d = 1, rng.choice(dests_all)
        H = rng.randrange(START_H, START_H + span)
        singles.append((H, s, d))
    for H, s, d in sorted(singles):
        idx = nxt.get((s, d), 0) + 1
        nxt[(s, d)] = idx
        pos = rng.randrange(0, len(tl[H]) + 1)
        # keep the per-pair index order inside the block: insert, then renumber this pair's requests in block order
        tl[H].insert(pos, [1, s, d, idx, K - H, 0, 0, 1])
        seq = sorted(o[3] for o in tl[H] if o[0] == 1 and o[1] == s and o[2] == d)
        j = 0
        for o in tl[H]:
            if o[0] == 1 and o[1] == s and o[2] == d:
                o[3] = seq[j]
                j += 1
    # fates
    for n, g in enumerate(order):
        p_finish = 0.75 if n == 0 else 0.35
        fate = rng.choice(["success", "fail", "beginfail"]) if rng.random() < p_finish else rng.choice(["open", "open", "partial", "late"])
        lo, hi = g["H"], K - 1
        if fate == "success":
            for d, idx in g["kids"]:
                tl[rng.randrange(lo, hi + 1)].append([2, g["src"], d, idx, 1, 1])
        elif fate == "fail":
            d, idx = rng.choice(g["kids"])
            hf = rng.randrange(lo, hi + 1)
            tl[hf].append([2, g["src"], d, idx, 2, 1])
            for d2, idx2 in g["kids"]:
                if (d2, idx2) != (d, idx) and rng.random() < 0.5:
                    tl[rng.randrange(lo, last + 1)].append([2, g["src"], d2, idx2, rng.choice([1, 2, 2]), 1])
        elif fate == "beginfail":
            # one more child, to the frozen service: the whole group fails at begin
            idx = nxt.get((g["src"], 5), 0) + 1
            nxt[(g["src"], 5)] = idx
            hb = rng.randrange(lo, hi + 1)
            g["declared"] += 1
            for o in tl[g["H"]]:
                if o[0] == 1 and o[5] == g["tag"] and o[1] == g["src"]:
                    o[6] = g["declared"]
            tl[hb].append([1, g["src"], 5, idx, max(1, K - hb), g["tag"], g["declared"], 1])
        elif fate == "partial":
            for d, idx in g["kids"][:-1]:
                tl[rng.randrange(lo, hi + 1)].append([2, g["src"], d, idx, 1, 1])
        elif fate == "late":
            for d, idx in g["kids"]:
                tl[rng.randrange(K, last + 1)].append([2, g["src"], d, idx, rng.choice([1, 1, 3]), 1])
        if fate in ("open", "partial") and rng.random() < 0.5:
            d, idx = g["kids"][-1]
            tl[rng.randrange(K, last + 1)].append([2, g["src"], d, idx, rng.choice([1, 3]), 1])
    for H, s, d in singles:
        if rng.random() < 0.5:
            idx = max(o[3] for h in tl for o in tl[h] if o[0] == 1 and o[1] == s and o[2] == d and o[5] == 0)
            tl[rng.randrange(H, last + 1)].append([2, s, d, idx, rng.choice([1, 2, 3]), 1])
    blocks = []
    for h in sorted(tl):
        b = tl[h]
        # receipts of a block after its requests only sometimes: a receipt must follow its own request
        reqs = [o for o in b if o[0] == 1]
        rcps = [o for o in b if o[0] != 1]
        blocks.append(reqs + rcps)
        if rng.random() < 0.07:
            blocks.append(0)
    if audit is None:
        audit = 1 if rng.random() < 0.1 else 0
    return mk_history(world, blocks, audit=audit)


W_PREFIX = dict(svcs=[[0, 2, 1, 1, 1, []],      # 1  B   "…:chainB:svc1"   (a prefix of svc11 / svc12)
                      [0, 1, 1, 1, 1, []],      # 2  A   source
                      [0, 3, 1, 1, 1, []],      # 3  C
                      [0, 3, 1, 1, 1, []], [0, 3, 1, 1, 1, []], [0, 3, 1, 1, 1, []], [0, 3, 1, 1, 1, []],
                      [0, 3, 1, 1, 1, []], [0, 3, 1, 1, 1, []], [0, 3, 1, 1, 1, []],     # 4..10 fillers on C
                      [0, 2, 1, 1, 1, []],      # 11 B   "…:chainB:svc11"
                      [0, 2, 1, 1, 1, []]],     # 12 B   "…:chainB:svc12"
                hubs=[])
WORLDS["prefix"] = W_PREFIX


def gen_colliding_groups(rng, world=None, audit=None):
    """two (sometimes three) one-to-many groups of ONE source in flight at the same time, with realistic Group
    declarations {destination service id -> index} whose (service id, index) pairs are concatenation-ambiguous:
    service svc1 with index "<d><j>" against service svc1<d> with index "<j>" (indices >= 10 are reached through
    prior one-to-one traffic on the pair), optionally with an identical second entry in both declarations.
    Different declarations must be different groups whatever the ids look like."""
    world = world or W_PREFIX
    src = 2
    ext = rng.choice([11, 11, 11, 12])
    d = ext % 10
    j = rng.randrange(1, 4)
    P = int("%d%d" % (d, j)) + (rng.choice([1, 2]) if rng.random() < 0.2 else 0)      # sometimes not ambiguous (control)
    T = rng.choice([0, 0, 0, 6, 9])
    two = rng.random() < 0.6
    decl1 = [[1, str(P)]] + ([[3, "1"]] if two else [])
    decl2 = [[ext, str(j)]] + ([[3, "1"]] if two else [])
    n = len(decl1)
    blocks = []
    # prior one-to-one traffic that brings the pairs to the wanted indices: requests, then their receipts
    # (receipts of an ordered pair are accepted in index order only)
    reqs = [[1, src, 1, i, 0, 0, 0, 1] for i in range(1, P)] + [[1, src, ext, i, 0, 0, 0, 1] for i in range(1, j)]
    rcs = [[2, src, 1, i, rng.choice([1, 1, 1, 2]), 1] for i in range(1, P)] + [[2, src, ext, i, 1, 1] for i in range(1, j)]
    if rng.random() < 0.5:
        blocks.append(reqs + rcs)
    else:
        blocks.append(reqs)
        blocks.append(rcs)
    a1 = [1, src, 1, P, T, 1, n, 1]
    b1 = [1, src, ext, j, T, 2, n, 1]
    a2 = [1, src, 3, 1, T, 1, n, 1]
    ev = [a1, b1] if rng.random() < 0.5 else [b1, a1]
    if two and rng.random() < 0.3:
        ev.insert(rng.randrange(0, 3), a2)
        a2 = None
    rcps = [[2, src, 1, P, 1, 1], [2, src, ext, j, 1, 1]]
    rng.shuffle(rcps)
    fate = rng.choice(["success", "success", "fail", "partial"])
    if fate == "fail":
        rcps[rng.randrange(2)][4] = 2
    if fate == "partial":
        rcps = rcps[:1]
    ev.append("cut")
    ev += rcps
    if two and a2 is not None:
        ev.append("cut")
        ev.append(a2)
        if rng.random() < 0.7:
            ev.append([2, src, 3, 1, rng.choice([1, 1, 2]), 1])
    if rng.random() < 0.3:
        ev.append([2, src, ext, j, rng.choice([1, 2, 3]), 1])          # duplicate / contradictory report
    if rng.random() < 0.3:
        # an unrelated third group with the abstract declaration
        ev.insert(rng.randrange(0, len(ev) + 1), [1, src, 4, 1, T, 3, 1, 1])
    blocks += pack_blocks(rng, ev, p_new_block=0.35, p_empty=0.1, p_restart=0.05)
    blocks += [[] for _ in range(rng.choice([0, 1, 2]))]
    if audit is None:
        audit = 1 if rng.random() < 0.1 else 0
    h = mk_history(world, blocks, audit=audit)
    h["groups"] = [[src, 1, decl1], [src, 2, decl2]]
    return h


W_DASH = dict(svcs=[[0, 1, 1, 1, 1, []],                      # 1 source on A
                    [0, 2, 1, 1, 1, [], "mychannel-1&transfer"],  # 2 B, Fabric style id containing the id separator
                    [0, 3, 1, 1, 1, []],                      # 3 C
                    [0, 2, 1, 1, 1, [], "ch-2&cc-x"],         # 4 B, two separators
                    [0, 3, 1, 0, 1, []],                      # 5 C frozen
                    [0, 1, 1, 1, 1, [], "src-svc"],           # 6 A, a SOURCE whose name contains the separator
                    [0, 4, 1, 1, 1, []]],                     # 7 D
              hubs=[])
WORLDS["dash"] = W_DASH


def gen_dash(rng):
    """one-to-one traffic (timeouts, shared expiry heights) between services whose ids contain '-' (never used as
    members of a group: ParseIBTPID of the unmodified code rejects such child ids)"""
    h = gen_timeout(rng, W_DASH) if rng.random() < 0.5 else gen_shared_expiry(rng, W_DASH)
    for b in h["blocks"]:
        if b != 0:
            for op in b:
                if op[0] == 2 and len(op) == 8:
                    del op[6:]               # no Group field on receipts here
                if op[0] == 1:
                    op[5], op[6] = 0, 0      # ... and no groups, not even empty ones: when a group times out, a finished
                                             # child whose SOURCE name contains '-' makes getTimeoutIBTPsMap fail
                                             # (strings.Split(id, "-")[1] is not a service id) and the block announces nothing
    return finish_history(h)


W_SAMECHAIN = dict(svcs=[[0, 1, 1, 1, 1, []],      # 1 A source
                         [0, 1, 1, 0, 1, []],      # 2 A frozen (unavailable): begin failure on the source's own chain
                         [0, 1, 1, 1, 0, []],      # 3 A not registered
                         [0, 1, 1, 1, 1, [1]],     # 4 A blacklists service 1
                         [0, 2, 1, 1, 1, []],      # 5 B
                         [0, 1, 1, 1, 1, []],      # 6 A available
                         [0, 2, 1, 0, 1, []]],     # 7 B frozen
                   hubs=[])
WORLDS["samechain"] = W_SAMECHAIN


def gen_hub(rng, world=None, audit=None):
    """this hub as SOURCE hub: requests to services of remote BitXHubs (one available, one not) and the
    destination hub's begin-failure / rollback notices, mixed with local traffic"""
    world = world or W_HUB
    nxt, nrc = {}, {}
    blocks = []
    for _ in range(rng.randrange(3, 9)):
        ops = []
        for _ in range(rng.choice([0, 1, 1, 2, 3])):
            f = rng.choice([1, 2])
            t = rng.choice([3, 3, 4, 5, 2])
            r = rng.random()
            if r < 0.4:
                exp = nxt.get((f, t), 0) + 1
                idx = pick_index(rng, exp) if rng.random() < 0.3 else exp
                ops.append([1, f, t, idx, rng.choice([0, 1, 2, 3, 5]), 0, 0, 1])
                if idx == exp:
                    nxt[(f, t)] = exp
            elif r < 0.8:
                have = nxt.get((f, t), 0)
                idx = rng.choice([nrc.get((f, t), 0) + 1, have, 1, have + 1])
                st = rng.choice([1, 2, 1, 2, 0, 3, 4, 5])
                ops.append([5, f, t, idx, st, 1])
                if idx == nrc.get((f, t), 0) + 1 and idx <= have and st in (1, 2):
                    nrc[(f, t)] = idx
            else:
                idx = rng.choice([nrc.get((f, t), 0) + 1, 1])
                ops.append([2, f, t, idx, rng.choice([1, 2, 3]), 1])
        blocks.append(ops)
        if rng.random() < 0.1:
            blocks.append(0)
    if audit is None:
        audit = 1 if rng.random() < 0.2 else 0
    return mk_history(world, blocks, audit=audit)


# ---------------------------------------------------------------------------------------------
# the check pipeline shared by C02 C04 C05 C06

WHICH = dict(C02=2, C04=4, C05=5, C06=6)
# flags of the findings that are listed as OPEN (behaviour of the code as it is); every other flag
# belongs to a defect that was repaired in /repo and must stay off
CUR_FLAGS = ["d_unordered", "d_delete_interchain"]
FLAG_FINDING = {
    ("C02", "d_unordered"): "C02-unordered-dst", ("C04", "d_unordered"): "C04-unordered-dst", ("C06", "d_unordered"): "C06-unordered-dst",
    ("C02", "d_delete_interchain"): "C02-delete-interchain", ("C04", "d_delete_interchain"): "C04-delete-interchain",
    ("C06", "d_delete_interchain"): "C06-delete-interchain",
}
PROOF_TARGETS = ["Proofs/TxFsmProofs", "Proofs/IbtpProps", "Proofs/IbtpMonProofs", "Proofs/IbtpNotify", "Proofs/IbtpFin", "Proofs/IbtpRestart", "Proofs/IbtpGArm", "Proofs/RouterProofs"]
MODEL_TARGETS = ["TxMgr", "Interchain", "IbtpExec", "IbtpMon", "IbtpJudge"]


def candidates():
    """subsets of CUR_FLAGS, smallest first (the first one reproducing a trace is minimal)"""
    n = len(CUR_FLAGS)
    subs = sorted(range(2 ** n), key=lambda m: (bin(m).count("1"), m))
    return [[CUR_FLAGS[i] for i in range(n) if m >> i & 1] for m in subs]


def judge(ctx, pid, pairs, tag="j"):
    """pairs: [(history, impl_blocks)] -> list of verdicts or None"""
    cands = candidates()
    pre = HEADER + "Definition cfgs : list Defects := %s.\n" % glist(cands, g_cfg)
    rows = [g_case(h, impl) for h, impl in pairs]
    vs, msg = vlib.coq_judge_sharded("ibtp_%s_%s" % (pid, tag), pre, "icase", "(judge_ibtp %d cfgs)" % WHICH[pid], rows,
                                     shard=80 if ctx.quick else 150, timeout=1500)
    if vs is None:
        ctx.broken("correspondence:judge_ibtp", msg)
    return vs


def classify(h, impl):
    """non-trivial = at least one accepted and one rejected transaction; plus a coarse shape for the distribution"""
    acc = sum(1 for b in impl for r in b["rc"] if r[0])
    rej = sum(1 for b in impl for r in b["rc"] if not r[0])
    shape = []
    if any(b["to"] for b in impl):
        shape.append("timeout")
    if any(b["mt"] for b in impl):
        shape.append("multi")
    if any(op[0] == 1 and op[5] for b in h["blocks"] if b != 0 for op in b):
        shape.append("group")
    if any(b == 0 for b in h["blocks"]):
        shape.append("restart")
    if h.get("audit"):
        shape.append("audit")
    return acc > 0 and rej > 0, "+".join(shape) or "plain", acc, rej


def hkey(h):
    return json.dumps([h["svcs"], h["hubs"], h["audit"], h["blocks"]], sort_keys=True)


def eval_histories(ctx, pid, exe, hs, tag):
    """run implementation + judge; returns list of (history, impl_blocks, verdict) for those that ran"""
    out = []
    step = 120
    for k in range(0, len(hs), step):
        chunk = hs[k:k + step]
        rc, res, e = run_impl(exe, chunk)
        pairs = []
        for h, r in zip(chunk, res):
            if r is None or r[0]:
                # once more on its own (a loaded machine can exceed the executor's 30 s answer window; a driver
                # that died takes the rest of its chunk with it); a history that fails again is reported with its input
                rc1, res1, e1 = run_impl(exe, [h])
                if res1 and res1[0] is not None and not res1[0][0]:
                    ctx.extra["driver_retries"] = ctx.extra.get("driver_retries", 0) + 1
                    r = res1[0]
                else:
                    ctx.broken("driver:ibtp", "%s; history: %s" % ((res1[0][0] if res1 and res1[0] else r[0] if r else "driver died: " + (e1 or e)[-800:]),
                                                                  json.dumps(dict(property=pid, driver="ibtp", history=h))[:2500]))
                    continue
            if len(r[1]) != n_blocks(h):
                ctx.broken("driver:ibtp", "block count mismatch")
                continue
            if len(r) > 2 and r[2]:
                # delivered block results are immutable values: the driver kept every ExecutedEvent it was handed and
                # looked at it again after all later blocks (and at the persisted InterchainMeta of its height)
                if not ctx.violations:
                    m = r[2][0]
                    ctx.violation("the InterchainMeta of block item %s, as handed to the block-feed subscribers, differs when read again "
                                  "after later blocks (%s): at delivery %s, later %s" % (m[0], m[1], json.dumps(m[2])[:300], json.dumps(m[3])[:300]),
                                  dict(property=pid, driver="ibtp", history=shrink_mut(exe, h), mutated=r[2][:4]))
                continue
            pairs.append((h, r[1]))
        if not pairs:
            continue
        vs = judge(ctx, pid, pairs, "%s%d" % (tag, k))
        if vs is None:
            continue
        out += [(h, impl, v) for (h, impl), v in zip(pairs, vs)]
    return out


def shrink_mut(exe, h, budget=20):
    """drop blocks from the end / ops while the delivered-event check still fires"""
    def still(hh):
        rc, res, e = run_impl(exe, [finish_history(hh)])
        return bool(res) and res[0] is not None and not res[0][0] and len(res[0]) > 2 and bool(res[0][2])
    cur = copy.deepcopy(h)
    changed = True
    while changed and budget > 0:
        changed = False
        for bi in range(len(cur["blocks"]) - 1, -1, -1):
            if budget <= 0:
                break
            cand = copy.deepcopy(cur)
            if cand["blocks"][bi] == 0 or len(cand["blocks"]) <= 1:
                continue
            if cand["blocks"][bi]:
                cand["blocks"][bi] = []
            else:
                del cand["blocks"][bi]
            budget -= 1
            if still(cand):
                cur, changed = cand, True
    return finish_history(cur)


def shrink(ctx, pid, exe, h, code, budget=30):
    """greedy delta-debugging on blocks then operations; keeps the verdict code"""
    def still(hh):
        rc, res, e = run_impl(exe, [hh])
        if not res or res[0] is None or res[0][0]:
            return False
        vs = judge(ctx, pid, [(hh, res[0][1])], "shrink")
        return bool(vs) and vs[0][0] == code
    cur = copy.deepcopy(h)
    changed = True
    while changed and budget > 0:
        changed = False
        for bi in range(len(cur["blocks"]) - 1, -1, -1):
            if budget <= 0:
                break
            cand = copy.deepcopy(cur)
            del cand["blocks"][bi]
            if not any(b != 0 for b in cand["blocks"]):
                continue
            budget -= 1
            if still(finish_history(cand)):
                cur, changed = cand, True
        for bi in range(len(cur["blocks"])):
            if cur["blocks"][bi] == 0:
                continue
            for oi in range(len(cur["blocks"][bi]) - 1, -1, -1):
                if budget <= 0:
                    break
                cand = copy.deepcopy(cur)
                del cand["blocks"][bi][oi]
                budget -= 1
                if still(finish_history(cand)):
                    cur, changed = cand, True
    return finish_history(cur)


def load_corpus(pid):
    out = []
    d = vlib.CORPUS
    for f in sorted(os.listdir(d)):
        if f.startswith(pid + "_") and f.endswith(".json"):
            obj = json.load(open(os.path.join(d, f)))
            if "history" in obj:
                out.append((f, obj))
    return out


def decide(ctx, pid, exe, rows, known, origin):
    """rows: (history, impl, verdict).  Records known findings / violations / broken correspondence."""
    cands = candidates()
    dist = ctx.extra.setdefault("distribution", {})
    for h, impl, v in rows:
        nontriv, shape, acc, rej = classify(h, impl)
        dist[shape] = dist.get(shape, 0) + 1
        ctx.count(case_key=hkey(h), nontrivial=nontriv,
                  sample=dict(driver="ibtp", origin=origin, blocks=h["blocks"][:4], accepted=acc, rejected=rej, verdict=v))
        ctx.traces_validated += 1
        code, n = v
        flags = cands[n - 1] if (code in (0, 2) and 0 < n <= len(cands)) else None
        rep = dict(property=pid, driver="ibtp", history=h, impl=impl, verdict=v, matched_flags=flags)
        if code == 0:
            continue
        if code == 2:
            fids = [FLAG_FINDING.get((pid, f)) for f in (flags or [])]
            fids = [f for f in fids if f and f in known]
            if flags and fids and len(fids) == len(flags):
                for f in fids:
                    ctx.known(f, known[f]["what"])
                continue
            if h.get("gas") and "C02-gasfee-partial-revert" in known and pid == "C02" and \
                    any(r[0] == 0 and r[1] == 15 for b in impl for r in b["rc"]):
                ctx.known("C02-gasfee-partial-revert", known["C02-gasfee-partial-revert"]["what"])
                continue
            small = shrink(ctx, pid, exe, h, 2) if not ctx.violations else h
            rep["history"] = small
            ctx.violation("%s predicate false on the implementation trace (matched flags: %s)" % (pid, flags), rep)
        elif code == 1:
            if h.get("gas"):
                continue        # fee failures are outside the modelled domain (gas price 0 everywhere else)
            ctx.broken("correspondence:judge_ibtp", "model and implementation differ after %d blocks: %s" % (n, json.dumps(rep)[:3000]))
        else:
            ctx.broken("correspondence:domain", "history left the modelled domain: " + json.dumps(h)[:2000])


def malformed(rng, world, n):
    """a stream of mostly invalid operations: bad service numbers, wrong types, huge / zero indices, bad proofs, random calls"""
    k = len(world["svcs"])
    hs = []
    for _ in range(n):
        blocks = []
        for _ in range(rng.randrange(1, 6)):
            ops = []
            for _ in range(rng.randrange(0, 5)):
                f, t = rng.randrange(0, k + 3), rng.randrange(0, k + 3)
                c = rng.random()
                if c < 0.35:
                    ops.append([1, f, t, rng.choice([0, 1, 2, MAXU, 2 ** 63, rng.randrange(0, 5)]), rng.choice([0, 1, -1, 2 ** 63 - 1, -2 ** 63, 3]),
                                rng.choice([0, 0, 1, 2]), rng.randrange(0, 4), rng.choice([0, 1, 1])])
                    if ops[-1][5] == 0:
                        ops[-1][6] = 0
                elif c < 0.7:
                    ops.append([2, f, t, rng.choice([0, 1, 2, MAXU, rng.randrange(0, 5)]), rng.choice([1, 2, 3, 4]), rng.choice([0, 1, 1])])
                elif c < 0.9:
                    m = rng.randrange(1, 9)
                    if m in (4, 6, 7, 8):
                        ops.append([4, m, f, t, rng.choice([0, 1, 2, MAXU]), rng.randrange(0, 4)])
                    elif m == 5:
                        ops.append([4, m, f, t, 1, 0])
                    else:
                        ops.append([4, m, rng.randrange(0, k + 3), 0, 0, 0])
                else:
                    ops.append([6, max(1, min(f, k)), max(1, min(t, k)), rng.randrange(0, 3), rng.choice([0, 3])])
            blocks.append(ops)
        hs.append(mk_history(world, blocks, audit=rng.choice([0, 0, 1])))
    return hs


def run_check(ctx, pid, gens, n_quick, n_thorough, router_n=0):
    """gens: list of (weight, function(rng) -> history)"""
    ctx.proofs(PROOF_TARGETS, model_targets=MODEL_TARGETS)
    exe, err = vlib.build_harness("ibtp")
    if exe is None:
        ctx.broken("harness-build", err)
        return ctx.finish(rule="-")
    known = {f["id"]: f for f in vlib.known_findings() if f["property"] == pid}
    if ctx.model_ok:
        # 1. corpus
        corpus = load_corpus(pid)
        rows = eval_histories(ctx, pid, exe, [finish_history(o["history"]) for _, o in corpus], "c")
        decide(ctx, pid, exe, rows, known, "corpus")
        ctx.extra["corpus_files"] = [f for f, _ in corpus]
        # 2. structured stream + malformed stream
        n = n_quick if ctx.quick else n_thorough
        tot = sum(wt for wt, _ in gens)
        hs = []
        for wt, g in gens:
            hs += [g(ctx.rng) for _ in range(max(1, n * wt // tot))]
        hs += malformed(ctx.rng, W_MIXED, max(6, n // 10))
        rows = eval_histories(ctx, pid, exe, hs, "g")
        decide(ctx, pid, exe, rows, known, "generated")
        ctx.extra["generated"] = len(hs)
        post = getattr(ctx, "post_search", None)
        if post:
            post(ctx, exe)
    if router_n:
        try:
            from checks import router_common
            router_common.run_router(ctx, router_n)
        except Exception as ex:      # the router leg belongs to the coordinator: report, do not hide
            ctx.broken("router-leg", repr(ex))
    return ctx.finish(
        rule="corpus first, then seeded structured histories (indices from {expected, expected+-1, 0, 2^64-1, repeats}; T in {0,1,small,huge,negative}; "
             "receipts before/at/after H+T; groups of 1-5 children over 1-3 destination chains with a failing child or a timeout at every position; "
             "restarts; public interchain-contract calls; audit on/off) plus a malformed stream; every trace is judged inside Coq: the property "
             "predicate on the IMPLEMENTATION trace first, then model = implementation under a subset of the open findings' flags; "
             "non-trivial = at least one accepted and one rejected transaction, distinct by history",
        explanation="KNOWN-FINDING lines are printed only for listed open findings whose flag set is the minimal one reproducing a violating implementation trace")


def replay_check(ctx, pid, path):
    obj = json.load(open(path))
    if obj.get("driver") == "router":
        from checks import router_common
        return router_common.replay_router(ctx, obj)
    if "history" not in obj:
        # a recorded model/implementation mismatch: the history is inside the (possibly cut) message
        msg = str(obj.get("message", ""))
        j = msg.find('"history": ')
        try:
            obj = dict(history=json.JSONDecoder().raw_decode(msg[j + 11:])[0]) if j >= 0 else obj
        except ValueError:
            pass
    if "history" not in obj:
        print(json.dumps(obj)[:2000])
        return 1
    exe, err = vlib.build_harness("ibtp")
    h = finish_history(obj["history"])
    rc, res, e = run_impl(exe, [h])
    if not res or res[0] is None or res[0][0]:
        print("driver error", res, e[-500:])
        return 1
    if len(res[0]) > 2 and res[0][2]:
        print(json.dumps(dict(history=h, mutated=res[0][2][:4], verdict="delivered event changed after delivery")))
        return 1
    vs = judge(ctx, pid, [(h, res[0][1])], "replay")
    cands = candidates()
    v = vs[0] if vs else None
    print(json.dumps(dict(history=h, impl=res[0][1], verdict=v, matched_flags=(cands[v[1] - 1] if v and v[0] in (0, 2) and 0 < v[1] <= len(cands) else None))))
    return 0 if v and v[0] == 0 else 1
