"""C11: the ledger recovers to a consistent height after a crash at any persist point.

Level: proof (theorem over the write-unit model, Model/Crash.v) with an EXHAUSTIVE enumeration on
the real stores as the tie: for every order-ideal S of the durable write units of one block commit
(StateBatch, PruneBatch, IndexBatch, the five blockfile tables) at the chosen heights the driver
harness/crash lets the real ledger die after exactly S, restarts it with ledger.New, continues
execution and compares with a node that never crashed.  Inside Coq: first the property predicate on
the implementation's own outcome, then model = implementation, then S in Good."""
import glob
import json
import os
import re

import vlib
from vlib import glist
from checks.C09 import g_obs, g_nl, g_ic, g_hdr, coqchk

PID = "C11"

UNITS = ["StateBatch", "PruneBatch", "IndexBatch", "BF_hash", "BF_body", "BF_txs", "BF_receipts", "BF_interchain"]


def units_str(u):
    return "{" + ",".join(n for i, n in enumerate(UNITS) if u >> i & 1) + "}"


def has(u, i):
    return bool(u >> i & 1)


def bf_complete(u):
    return all(has(u, i) for i in range(3, 8))


def good(u):
    """Good of Model/Crash.v: index batch durable -> blockfile complete and state batch durable"""
    return (not has(u, 2)) or (bf_complete(u) and has(u, 0))


def klass(u):
    """the bad classes (exhaustive and disjoint on not-Good sets); class B (blockfile complete,
    index batch lost) was repaired in /repo and is Good now"""
    if good(u):
        return None
    if has(u, 2) and not has(u, 0):
        return "A"     # index batch durable, state batch lost
    return "C"         # index (and state) durable, blockfile incomplete


FINDING = {"A": "C11-index-without-state", "C": "C11-index-without-blockfile"}


def ideal(u, prune_possible):
    if has(u, 1) and not has(u, 0):
        return False
    if has(u, 1) and not prune_possible:
        return False
    for i in range(4, 8):
        if has(u, i) and not has(u, i - 1):
            return False
    return True


def all_ideals(h):
    """order-ideals of the commit of height h; the prune batch exists from height 12 on"""
    return [u for u in range(256) if ideal(u, h >= 12)]


# ----------------------------------------------------------------------------- blocks

def block(k, shape):
    """the block of height k.  shape 0: two transactions, small interchain meta; 1: empty blocks
    and single transactions alternate; 2: many transactions, interchain-heavy"""
    if shape == 0:
        txs = [k * 100 + 1, k * 100 + 2]
        ic = [[1, [k]]] if k % 2 else []
    elif shape == 1:
        txs = [] if k % 2 else [k * 100 + 1]
        ic = []
    else:
        txs = [k * 100 + i for i in range(1, 13)]
        ic = [[key, [k * 10 + j for j in range(1, 6)]] for key in (1, 2, 5)]
    return dict(txs=txs, ic=ic, tag=(k if k % 3 == 0 else 0), w=k)


def mk_case(h, units, shape=0, post=2, ldb="normal"):
    """ldb: leveldb_type of both stores: normal (ordered batches) or multi (all Puts, then all Deletes)"""
    return dict(ldb=ldb, blocks=[block(k, shape) for k in range(1, h + post + 1)], n=h - 1, units=units)


def big_case(h, units, big, skeep=None, ldb="normal"):
    """like mk_case, but the block of height h (the one whose commit is interrupted) changes `big`
    state keys of one contract"""
    c = mk_case(h, units, ldb=ldb)
    c["blocks"][h - 1]["big"] = big
    if skeep is not None:
        c["skeep"] = skeep
    return c


def big_block_cases(ctx, exe, heights, big):
    """ties "the state batch is ONE durable unit (plus the prune batch)" to the code by an observable: the
    number of batch commits the state store sees while ONE block is committed must be the modelled number
    of units whatever the block size; then the process is killed after k = 0..#commits of them"""
    out = []
    info = {}
    for h in heights:
        probe = run_cases(ctx, exe, [big_case(h, 255, big)])
        if not probe:
            return out, info
        observed = probe[0].get("state_commits", -1)
        modelled = 1 + (1 if h >= 12 else 0)
        info["h%d" % h] = dict(changed_keys=big, state_store_commits=observed, modelled_units=modelled,
                               chain_store_commits=probe[0].get("chain_commits", -1))
        if observed != modelled or probe[0].get("chain_commits", -1) != 1:
            ctx.broken("tie:write-units-per-commit",
                       "committing one block of %d changed keys at height %d issued %d state-store batch commits and %s "
                       "chain-store commits; the model has %d state units (StateBatch%s) and 1 IndexBatch"
                       % (big, h, observed, probe[0].get("chain_commits"), modelled, " + PruneBatch" if h >= 12 else ""))
        for k in range(0, max(observed, 0) + 1):
            for chain in (0, 4 + 248):
                units = chain + (1 if k >= 1 else 0) + (2 if (k >= 2 and h >= 12) else 0)
                out.append(big_case(h, units, big, skeep=k))
    return out, info


# ----------------------------------------------------------------------------- Gallina

def g_lobs(x):
    if x is None:
        return "None"
    return "(Some (mkLobs %s %d %d %s))" % (g_obs(x["chain"]), x["version"], x["root"], g_nl(x["data"]))


def g_bspec(e, blk):
    return "(mkBS %s %s %s %d)" % (g_nl(e["txs"]), g_nl(e["rcpts"]), g_ic(e["ic"], e["tag"]), blk["w"])


def g_ccase(c, o):
    ents = o["entries"]
    n = c["n"]
    bs = [g_bspec(e, b) for e, b in zip(ents, c["blocks"])]
    kh = len(c["blocks"]) + 1
    return ("(mkCCase (mkU %d%%nat %s %s) %s %s %s %d (mkOut %d %s %d %s) (%s, %s, %s) %s %s %s)" % (
        kh, g_nl(o["uh"]), g_nl(o["ut"]), glist(bs[:n]), bs[n], glist(bs[n + 1:]), c["units"],
        o["rec"], g_lobs(o["obs1"]), o["cont"], g_lobs(o["obs2"]),
        g_lobs(o["refs"][0]), g_lobs(o["refs"][1]), g_lobs(o["refs"][2]),
        glist(o["hash_tbl"], lambda p: "(%s, %d)" % (g_hdr(p[0]), p[1])),
        glist(o["root_tbl"], lambda p: "(%s, %d)" % (g_nl(p[0]), p[1])),
        glist(o["sroot_tbl"] or [], lambda p: "((%d, %d), %d)" % (p[0], p[1], p[2]))))


def parse_named(txt, names):
    res = []
    flat = txt.replace("\n", " ")
    for name in names:
        m = re.search(r"\b" + name + r"\s*=\s*(\[.*?\])\s*:\s*list", flat)
        if not m:
            return None
        res.append([(int(a), int(b)) for a, b in re.findall(r"\(\s*(\d+)(?:%N)?\s*,\s*(\d+)(?:%N)?\s*\)", m.group(1))])
    return res


def judge(ctx, cases, outs, tag="C11", shard=8, jobs=8):
    """per case: (property verdict on the implementation outcome, model verdict, Good verdict)"""
    from concurrent.futures import ThreadPoolExecutor

    def one(k):
        rows = [g_ccase(c, o) for c, o in zip(cases[k:k + shard], outs[k:k + shard])]
        src = ("From BX Require Import Base.Prelude Model.ChainLedger Model.Crash.\nLocal Open Scope N_scope.\n"
               "Definition cases : list ccase :=\n %s.\n"
               "Definition MP := Eval vm_compute in map judge_crash_prop cases.\nPrint MP.\n"
               "Definition MM := Eval vm_compute in map judge_crash_model cases.\nPrint MM.\n"
               "Definition MG := Eval vm_compute in map judge_crash_good cases.\nPrint MG.\n") % glist(rows)
        rc, out = vlib.coq_eval("%s_%d_%d" % (tag, os.getpid(), k), src)
        three = parse_named(out, ["MP", "MM", "MG"]) if rc == 0 else None
        if three is None or any(len(x) != len(rows) for x in three):
            return None, out[-1500:]
        return list(zip(*three)), ""
    res = []
    with ThreadPoolExecutor(max_workers=jobs) as ex:
        for vs, msg in ex.map(one, range(0, len(cases), shard)):
            if vs is None:
                ctx.broken("correspondence:judge_crash", msg)
                return None
            res += vs
    return res


def run_cases(ctx, exe, cases):
    rc, outs, e = vlib.run_driver(exe, "crash", cases, timeout=3000)
    if rc != 0 or len(outs) != len(cases):
        ctx.broken("driver:crash", (e or "")[-1500:] + " rc=%s got %d of %d" % (rc, len(outs), len(cases)))
        return None
    return outs


def height_class(h):
    return "genesis" if h == 1 else ("pruning" if h >= 12 else "ordinary")


FAIL = {1: "start-up fails (first or second start-up, ledger.New or the view ledger)", 2: "restarted ledger is inconsistent in itself (head unreadable / roots / version)",
        3: "restarted ledger is neither the uncrashed ledger at n nor at n+1", 4: "continuing execution dies (AppendBlock out-order)",
        5: "chain after continuing differs from the uncrashed node", 6: "the uncrashed reference itself is inconsistent"}


def shrink(ctx, exe, case, bad):
    cur = case
    cands = []
    n = cur["n"]
    # fewer blocks after the crash, then simpler blocks
    for post in (0, 1):
        if len(cur["blocks"]) - (n + 1) > post:
            cands.append(dict(cur, blocks=cur["blocks"][:n + 1 + post]))
    cands.append(dict(cur, blocks=[dict(b, txs=[], ic=[], tag=0) for b in cur["blocks"]]))  # (big / skeep are kept)
    for cand in cands:
        outs = run_cases(ctx, exe, [cand])
        if outs:
            vs = judge(ctx, [cand], outs, tag="C11s")
            if vs and bad(cand, vs[0]):
                cur = cand if len(json.dumps(cand)) < len(json.dumps(cur)) else cur
    return cur


def decide(ctx, exe, known, case, out, v):
    vp, vm, vg = v
    u, h = case["units"], case["n"] + 1
    where = "height %d (%s) units %s leveldb_type %s" % (h, height_class(h), units_str(u), case.get("ldb", "normal"))
    if case.get("skeep") is not None:
        where += " (large block: the first %d state-store batch commits durable)" % case["skeep"]
    if vp[0] == 3 or vm[0] == 3:
        ctx.broken("domain:judge_crash", "case outside the model's domain: " + where)
        return "domain"
    if vp[0] == 0 and vm[0] == 0 and vg[0] == 0:
        return "ok"
    if vp[0] == 2:
        k = klass(u)
        fid = FINDING.get(k)
        if fid in known and vm[0] == 0 and vg[0] == 2:
            ctx.known(fid, known[fid]["what"])
            return "known-" + k

        def bad(c2, v2):
            return v2[0][0] == 2
        small = shrink(ctx, exe, case, bad) if len(ctx.violations) < 4 else case
        outs = run_cases(ctx, exe, [small]) or [out]
        vs = judge(ctx, [small], outs, tag="C11s") or [v]
        rep = dict(property=PID, driver="crash", case=small, impl=dict((k2, outs[0].get(k2)) for k2 in ("rec", "rec_err", "cont")),
                   verdict_prop=vs[0][0], verdict_model=vs[0][1], verdict_good=vs[0][2],
                   what="%s: %s" % (where, FAIL.get(vs[0][0][1], "?")))
        if len(ctx.violations) < 6:
            ctx.violation("crash-recovery property false on the implementation: %s: %s" % (where, FAIL.get(vp[1], "?")), rep)
        else:
            ctx.extra["further_failing_cases_not_written"] = ctx.extra.get("further_failing_cases_not_written", 0) + 1
        return "violation"
    if vm[0] == 1:
        ctx.broken("correspondence:judge_crash", "model and implementation differ (part %d) at %s" % (vm[1], where))
        return "mismatch"
    # property holds on the implementation and the model agrees, but the theorem says S is not Good
    ctx.broken("theorem:C11_recover_characterisation", "outcome fine for a unit set outside Good at " + where)
    return "mismatch"


def load_corpus():
    cs = []
    for f in sorted(glob.glob(os.path.join(vlib.CORPUS, "C11_*.json"))):
        cs.append(json.load(open(f))["case"])
    return cs


def run(ctx):
    try:
        return run_inner(ctx)
    except Exception:
        import traceback
        ctx.broken("check-internal-error", traceback.format_exc()[-1500:])
        return ctx.finish(rule="-")


def run_inner(ctx):
    ctx.proofs(["Proofs/CrashProofs", "Proofs/ChainLedgerProofs"], model_targets=["ChainLedger", "Crash"])
    coqchk(ctx, PID)
    exe, err = vlib.build_harness("crash")
    if exe is None:
        ctx.broken("harness-build", err)
        return ctx.finish(rule="-")
    known = {f["id"]: f for f in vlib.known_findings() if f["property"] == PID and f.get("status") == "open"}
    if ctx.model_ok:
        r = ctx.rng
        cases = load_corpus()
        ncorp = len(cases)
        if ctx.quick:
            heights, shapes = [1, 2, 11, 12], [0]
        else:
            heights, shapes = [1, 2, 3, 5, 10, 11, 12, 13, 14, 21, 22, 23], [0, 1, 2]
        nideals = 0
        for h in heights:
            for sh in shapes:
                for u in all_ideals(h):
                    cases.append(mk_case(h, u, shape=sh))
                    nideals += 1
        # the store-kind dimension: the same sweep on multi-layer leveldb stores (quick: two heights)
        nmulti = 0
        for h in ([2, 12] if ctx.quick else heights):
            for sh in ([0] if ctx.quick else shapes):
                for u in all_ideals(h):
                    cases.append(mk_case(h, u, shape=sh, ldb="multi"))
                    nmulti += 1
        extra = 0
        if not ctx.quick:
            # beyond the order-ideals: arbitrary subsets of the blockfile tables (the model does not
            # depend on the append order), and random block shapes / crash heights
            for h in (1, 2, 12):
                for u in range(256):
                    if not ideal(u, h >= 12) and not (has(u, 1) and not (has(u, 0) and h >= 12)):
                        cases.append(mk_case(h, u))
                        extra += 1
            for _ in range(300):
                h = r.choice([1, 2, 3, 4, 7, 11, 12, 13, 15, 22])
                cases.append(mk_case(h, r.choice(all_ideals(h)), shape=r.randrange(3), post=r.randrange(0, 4),
                                     ldb=r.choice(["normal", "multi"])))
                extra += 1
        bigs, biginfo = big_block_cases(ctx, exe, [2] if ctx.quick else [2, 13], 5000)
        cases += bigs
        dist = dict(corpus=ncorp, large_block_cases=len(bigs), large_block=biginfo, order_ideals=nideals, order_ideals_multi_leveldb=nmulti, beyond_ideals=extra, heights=heights, shapes=shapes)
        kinds = {}
        B = 64
        for k in range(0, len(cases), B):
            cs = cases[k:k + B]
            outs = run_cases(ctx, exe, cs)
            if outs is None:
                break
            vs = judge(ctx, cs, outs)
            if vs is None:
                break
            for c, o, v in zip(cs, outs, vs):
                ctx.traces_validated += 1
                u, h = c["units"], c["n"] + 1
                # non-trivial: something of the commit reached the disk and something did not
                nontriv = 0 < (u & (0xfd if h < 12 else 0xff)) < (0xfd if h < 12 else 0xff)
                ctx.count(case_key=(h, u, c.get("ldb"), c.get("skeep"), json.dumps(c["blocks"], sort_keys=True)), nontrivial=nontriv,
                          sample=dict(driver="crash", height=h, units=units_str(u), rec=o["rec"], cont=o["cont"], verdict=v))
                d = decide(ctx, exe, known, c, o, v)
                kinds[d] = kinds.get(d, 0) + 1
                kk = "h%d:%s" % (h, d)
                kinds[kk] = kinds.get(kk, 0) + 1
        dist["outcomes"] = kinds
        ctx.extra["crash_distribution"] = dist
    return ctx.finish(rule="crash: corpus, then ALL order-ideals of the eight write units of one commit at each chosen height (24 "
                           "per height without a prune batch, 36 with), each on a fresh real store: n clean blocks, death inside "
                           "block n+1, restart, continue two more blocks, compare with the uncrashed node; thorough adds heights, "
                           "block shapes, non-ideal subsets and random cases; non-trivial = a proper non-empty part of the commit was "
                           "durable, distinct by (height, unit set, blocks)")


def replay(ctx, path):
    obj = json.load(open(path))
    if "case" not in obj:
        print(json.dumps(dict(note="this replay names a broken obligation / tie, not an input; re-run ./check C11",
                              broken=obj.get("broken"), message=(obj.get("message") or "")[:400])))
        return 1
    exe, err = vlib.build_harness("crash")
    if exe is None:
        print("harness build failed", err)
        return 1
    c = obj["case"]
    outs = run_cases(ctx, exe, [c])
    if not outs:
        print("driver failed")
        return 1
    vs = judge(ctx, [c], outs, tag="C11r")
    o = outs[0]
    print(json.dumps(dict(height=c["n"] + 1, units=units_str(c["units"]), rec=o["rec"], rec_err=o.get("rec_err"), cont=o["cont"],
                          verdict_prop=vs and vs[0][0], verdict_model=vs and vs[0][1], verdict_good=vs and vs[0][2],
                          klass=klass(c["units"]))))
    return 0 if vs and vs[0][0][0] == 0 and vs[0][1][0] == 0 and vs[0][2][0] == 0 else 1
