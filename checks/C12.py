"""C12: rolling back to a retained height restores exactly that height's state; refusals change
nothing; re-executing the same blocks reproduces the same roots.

Theorems: Properties/C12.v.  Tie: driver "ledger" (real SimpleLedger on leveldb): block histories
with creations, overwrites, deletions, delete-then-recreate, code changes, touched-but-unchanged
accounts; after every commit and every rollback a full dump through the getters and (often) the raw
store incl. journals; judged in Coq (specification on the implementation trace first)."""
import vlib
from checks import ledger_common as lc

MODE = 11     # bit 0: reads vs specification (dump after rollback = dump recorded at that commit), bit 1: roots, bit 3: stored code hash


def gen_block(r, allow_add=True):
    """the writes of one block (a few transactions, some reverted)"""
    ops = []
    snap = [0]
    for _ in range(r.randrange(1, 4)):
        ops += lc.gen_tx(r, snap, allow_add=allow_add, allow_code=True)
    # touched but unchanged account, delete-then-recreate
    c = r.random()
    a = r.randrange(len(lc.ADDRS))
    if c < 0.15:
        k = r.choice(lc.KEYS)
        ops += [("set", a, k, None), ("set", a, k, r.choice([b"v1", b"x"]))]
    elif c < 0.3:
        ops += [("get", a, r.choice(lc.KEYS)), ("getbal", a)]
    return ops


def gen_c12(r, n_blocks, deep=False):
    ops = []
    blocks = {}          # height -> ops of the block as executed last
    h = 0
    lo = 0               # lowest height a rollback may target (window)
    for _ in range(n_blocks):
        b = gen_block(r)
        h += 1
        blocks[h] = b
        ops += b + [("flush",), ("commit", h)]
        if h > 10:
            lo = max(lo, h - 10)
        elif lo == 0 and h >= 1:
            lo = 0
        if r.random() < 0.6:
            ops.append(("dump",))
        if r.random() < 0.2:
            ops.append(("dbdump",))
        c = r.random()
        if c < (0.3 if deep and h > 10 else 0.1 if deep else 0.35) and h >= 1:
            kind = r.random()
            if deep and h > 10:
                kind = r.choice([0.1, 0.05, 0.05, 0.7, 0.8, 0.8, 0.95])
            if kind < 0.06:
                t = lo                                      # the oldest retained height (its journal must survive pruning)
            elif kind < 0.6:
                t = r.randrange(lo, h + 1)
            elif kind < 0.75:
                t = h + r.randrange(1, 3)                  # higher than head: refused
            elif kind < 0.9:
                t = max(lo - r.randrange(1, 3), 0) if lo > 1 else r.randrange(0, h + 1)   # below the window
            else:
                t = 0
            # uncommitted writes before the rollback must be discarded
            if r.random() < 0.3:
                ops.append(("set", r.randrange(3), r.choice(lc.KEYS), b"dirty"))
            ops.append(("rollback", t))
            refused = t > h or (t < lo and not (lo <= 1 and t == 0))
            if h <= 10 and t <= h:
                refused = False
            ops.append(("dump",))
            if r.random() < 0.5:
                ops.append(("dbdump",))
            if not refused:
                old_h = h
                h = t
                if r.random() < 0.3:
                    ops.append(("rollback", h))            # repeated rollback
                    ops.append(("dump",))
                if r.random() < 0.5:
                    # re-execute the same blocks: roots must be reproduced
                    for hh in range(h + 1, min(old_h, h + 3) + 1):
                        ops += blocks[hh] + [("flush",), ("commit", hh)]
                        h = hh
                    ops.append(("dump",))
            if r.random() < 0.2:
                ops.append(("reopen",))
                ops.append(("dump",))
    return ops


def nontrivial(group):
    ops = group[0]
    rb = [i for i, o in enumerate(ops) if o[0] == "rollback"]
    return bool(rb) and any(o[0] == "commit" for o in ops[:rb[0]]) and \
        any(o[0] in ("set", "add", "setbal", "setcode", "setnonce") for o in ops[:rb[0]])


def run(ctx):
    ctx.proofs(["Proofs/LedgerWitness"] + lc.EXTRA_PROOFS, model_targets=["StateLedger", "LedgerSpec"])
    exe, err = vlib.build_harness("ledger")
    if exe is None:
        ctx.broken("harness-build", err)
        return ctx.finish(rule="-")
    known = lc.known_open()
    dist = {}
    if ctx.model_ok:
        r = ctx.rng
        dist["corpus"] = lc.run_corpus(ctx, exe, "C12", MODE, known, nontrivial)
        n = 140 if ctx.quick else 4000
        nd = 12 if ctx.quick else 400
        groups = [[gen_c12(r, r.randrange(2, 8))] for _ in range(n)]
        groups += [[gen_c12(r, r.randrange(11, 16), deep=True)] for _ in range(nd)]     # pruning window
        # rollbacks in an unstructured stream (odd commit heights, missing journals, refusals)
        m = 45 if ctx.quick else 1500
        groups += [[lc.gen_soup(r, r.randrange(10, 60))] for _ in range(m)]
        groups += lc.scenario_groups(r, 3 if ctx.quick else 60)
        # non-UTF-8 storage keys (open finding): own key universe
        bad_keys = [b"\xff\x01", b"\xfe", b"a", b"\xc3\xa9", b"\xc3"]
        tot = dict(ok=0, known=0, violation=0, mismatch=0, domain=0)
        step = 700
        for s in range(0, len(groups), step):
            st = lc.decide(ctx, exe, "C12g%d" % (s // step), groups[s:s + step], MODE, known, nontrivial=nontrivial)
            for k in st:
                tot[k] = tot.get(k, 0) + st[k]
        # the full ledger.Ledger (state + chain ledger): Ledger.Rollback, PersistBlockData, ledger.New on reopen
        fh = lc.full_fixed_histories() + [lc.gen_full_history(r, True) for _ in range(6 if ctx.quick else 150)]
        dist["full_ledger"] = lc.decide_full(ctx, exe, "C12f", fh, MODE, known, nontrivial=nontrivial)
        exact_groups = [f(r) for f in lc.EXACT_SCENARIOS for _ in range(6 if ctx.quick else 80)]
        dist["exact_presence"] = lc.decide(ctx, exe, "C12x", exact_groups, MODE | 16, known, nontrivial=nontrivial)
        # printable keys that look like hex literals (journal key encodings must not confuse them)
        hex_keys = [b"0x", b"0xab12", b"0xC0FFEE", b"0x6162", b"ab", b"0"]
        saved = lc.KEYS
        lc.KEYS = hex_keys
        try:
            hk = [[gen_c12(r, r.randrange(2, 5))] for _ in range(25 if ctx.quick else 300)]
        finally:
            lc.KEYS = saved
        sth = lc.decide(ctx, exe, "C12h", hk, MODE, known, keys=hex_keys, nontrivial=nontrivial)
        dist["hexlike_keys"] = sth
        saved = lc.KEYS
        lc.KEYS = bad_keys
        try:
            bk = [[gen_c12(r, r.randrange(2, 5))] for _ in range(20 if ctx.quick else 300)]
        finally:
            lc.KEYS = saved
        st = lc.decide(ctx, exe, "C12k", bk, MODE, known, keys=bad_keys, nontrivial=nontrivial, do_shrink=False)
        dist.update(blocks=n, deep=nd, soup=m, nonutf8=len(bk), nonutf8_verdicts=st,
                    **{"verdict_" + k: v for k, v in tot.items()})
    ctx.extra["distribution"] = dist
    return ctx.finish(rule="corpus witnesses; block histories (2-7 blocks, and 11-15 blocks for the pruning window) with rollbacks to "
                           "targets inside / above / below the window and 0, repeated rollbacks, re-execution of the same blocks, a "
                           "different continuation, reopen; an unstructured stream; a stream with storage keys that are not valid UTF-8; "
                           "non-trivial = a rollback preceded by a commit and a write, distinct by op list")


def replay(ctx, path):
    return lc.replay_file(ctx, path)
