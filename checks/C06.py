"""C06: the timeout rollback fires exactly at the timeout height and never otherwise."""
import copy

from checks import ibtp_common as C


def restart_pairs(ctx, exe, n):
    """node restarts between H and H+T must change nothing: run the same history with its restarts removed
    and compare the implementation's own traces block by block"""
    hs = []
    while len(hs) < n:
        x = ctx.rng.random()
        h = C.gen_timeout(ctx.rng) if x < 0.45 else C.gen_shared_expiry(ctx.rng) if x < 0.7 else C.gen_group(ctx.rng)
        if any(b == 0 for b in h["blocks"]):
            hs.append(h)
    plain = []
    for h in hs:
        p = copy.deepcopy(h)
        p["blocks"] = [b for b in p["blocks"] if b != 0]
        plain.append(C.finish_history(p))
    rc1, r1, e1 = C.run_impl(exe, hs)
    rc2, r2, e2 = C.run_impl(exe, plain)
    bad = 0
    for h, a, b in zip(hs, r1, r2):
        if a is None or b is None or a[0] or b[0]:
            ctx.broken("driver:ibtp", "restart pair did not run")
            continue
        ctx.count(case_key="restart:" + C.hkey(h), nontrivial=True)
        if a[1] != b[1]:
            bad += 1
            first = next(i for i, (x, y) in enumerate(zip(a[1], b[1])) if x != y)
            ctx.violation("a node restart changed the observable behaviour (first differing block %d)" % first,
                          dict(property="C06", driver="ibtp", history=h, with_restart=a[1][first], without_restart=b[1][first]))
    ctx.extra["restart_pairs"] = dict(compared=len(hs), differing=bad)


def run(ctx):
    import vlib
    gens = [
        (5, C.gen_timeout),
        (3, C.gen_shared_expiry),
        (2, C.gen_shared_group_expiry),
        (2, C.gen_dash),
        (4, C.gen_group),
        (1, lambda r: C.gen_mixed(r, C.W_MIXED, nblocks=r.randrange(4, 10))),
        (1, C.gen_hub),
    ]
    exe, err = vlib.build_harness("ibtp")
    if exe is not None:
        restart_pairs(ctx, exe, 16 if ctx.quick else 600)
    return C.run_check(ctx, "C06", gens, 100, 6000, router_n=30 if ctx.quick else 1000)


def replay(ctx, path):
    return C.replay_check(ctx, "C06", path)
