"""C03: only proof-verified IBTPs change state (Model/ProofCheck.v: judge_proof, judge_verify, judge_entry)."""
import json

import vlib
from vlib import gbool, glist
from checks import execframe_common as X

PID = "C03"
EFLAGS = ["init_cache_exported", "open_handle_data", "open_emit"]
RULE_ID = {"happy": 1, "fabric": 2, "simfab": 3, X.RULE_WASM_ADDR: 4, "0x00000000000000000000000000000000000000e9": 6,
           "0x00000000000000000000000000000000000000a2": 1, "0x00000000000000000000000000000000000000a0": 2,
           "0x00000000000000000000000000000000000000a1": 3}
HAPPY_ADDR = "0x00000000000000000000000000000000000000a2"
VKEYS = ["v:%d" % i for i in range(8)]


def gecfg(flags):
    return "{| d_init_cache_exported := %s; d_open_handle_data := %s; d_open_emit := %s |}" % tuple(gbool(f in flags) for f in EFLAGS)


# ----------------------------------------------------------------------------- world description

class World:
    """the appchain / rule records the driver has seeded so far (what verifyProofs will read)"""

    def __init__(self):
        self.chains = {}

    def seed(self, step):
        if step["op"] == "seed_chain":
            c = self.chains.setdefault(step["chain"], {})
            c["registered"] = True
            if step.get("rules") is not None:
                firsta = [i for i, r in enumerate(step["rules"]) if r[1] == "available"][:1]
                c["rules"] = [(RULE_ID.get(r[0], 6), r[1] == "available", (r[2] == "master") if len(r) > 2 else [i] == firsta)
                              for i, r in enumerate(step["rules"])]
            elif step.get("rule") == "none":
                c["rules"] = []
            else:
                c["rules"] = [(RULE_ID.get(step.get("rule") or "happy", 6), (step.get("rstatus") or "available") == "available", True)]
            c["validators"] = [X.acct_id(v) for v in step["trust"]] if step.get("trust") is not None else None
        elif step["op"] == "drop_chain":
            self.chains.pop(step["chain"], None)

    def readback(self, chain, lst):
        """the rule list as the implementation holds it now (driver step "rules") - except for a chain whose LOGOUT was
        approved: the specification (every rule of the chain is unbound, built-in or not) replaces the read-back"""
        c = self.chains.setdefault(chain, {"registered": True, "validators": None})
        c["rules"] = [(RULE_ID.get(a, 6), st == "available" and not c.get("logged_out"), bool(m)) for a, st, m in (lst or [])]

    def spec_logout(self, chain):
        c = self.chains.setdefault(chain, {"registered": True, "validators": None})
        c["logged_out"] = True
        c["rules"] = [(a, False, m) for a, _, m in c.get("rules", [])]

    def gchains(self):
        return glist(["(%s, {| a_trust := 0%%N; a_validators := %s |})" % (
            X.gNn(cnum(n)), "None" if c.get("validators") is None else "(Some %s)" % glist([X.gNn(v) for v in c["validators"]]))
            for n, c in sorted(self.chains.items()) if c.get("registered")])

    def grules(self):
        return glist(["(%s, %s)" % (X.gNn(cnum(n)), glist(["{| r_addr := %s; r_available := %s; r_master := %s |}" % (X.gNn(a), gbool(av), gbool(ms)) for a, av, ms in c.get("rules", [])]))
                      for n, c in sorted(self.chains.items())])


def cnum(name):
    if name.isdigit():
        return int(name)
    return X.chain_id(name)


def gibtp(i, pid, proofhash):
    pid = i.get("_ibid", pid)        # content number of IBTPs judged by the content-sensitive rule
    fb, fc, _ = i["from"].split(":")
    tb, tc, _ = i["to"].split(":")
    return ("{| ib_id := %s; ib_from_bxh := %s; ib_from_chain := %s; ib_to_bxh := %s; ib_to_chain := %s; ib_is_req := %s; ib_proofhash := %s |}" % (
        X.gNn(pid), X.gNn(int(fb)), X.gNn(cnum(fc)), X.gNn(int(tb)), X.gNn(cnum(tc)), gbool(i["type"] == 0), X.gNn(proofhash)))


def sig_id(s):
    """signature spec of the driver -> abstract signature number (see Model/ProofCheck.v c_recover)"""
    if s == "bad":
        return 4 * 900 + 1
    if s.startswith("wrongmsg:"):
        return 4 * X.acct_id(s[9:]) + 2
    return 4 * X.acct_id(s)


def gproof(p, pnum):
    """p: driver proof spec; pnum: abstract name of the bytes"""
    if p["kind"] == "absent":
        return "PdAbsent"
    if p["kind"] == "multisig":
        return "(PdBytes %s (Some {| bp_status := %s; bp_sigs := %s |}))" % (X.gNn(pnum), X.gNn(p.get("status", 0)), glist([X.gNn(sig_id(s)) for s in p["signers"]]))
    return "(PdBytes %s None)" % X.gNn(pnum)


class Namer:
    def __init__(self):
        self.n = 10

    def proof(self, odd):
        self.n += 2
        return self.n + (1 if odd else 0)


# ----------------------------------------------------------------------------- proof-defect stream

CHAINS = {
    "chainA": dict(rule="happy"), "chainB": dict(rule="happy"),
    "chainF": dict(rule="fabric"), "chainS": dict(rule="simfab"),
    "chainW": dict(rule=X.RULE_WASM_ADDR), "chainN": dict(rule="none"),
    "chainP": dict(rule="happy", rstatus="binding"),
    "chainM": dict(rules=[["fabric", "logouting"], ["happy", "available"], ["fabric", "available"]]),
    "chainE": dict(rule="0x00000000000000000000000000000000000000e9"),
}


def seed_steps():
    st = []
    for n, kw in CHAINS.items():
        st.append(dict({"op": "seed_chain", "chain": n}, **kw))
        st.append({"op": "seed_service", "chain": n, "svc": "svc1", "ordered": True})
    st.append({"op": "set_wasm_rule", "acct": "x:" + X.RULE_WASM_ADDR, "hex": X.WASM_FIRSTBYTE})
    st.append({"op": "seed_chain", "chain": "1357", "relay": True, "trust": ["v:0", "v:1", "v:2", "v:3"]})
    return st


def ibtp_op(nm, frm, src, index, pkind="ok", typ=0, dst="chainB", handles=True, wasm_accept=True, to_contract=None):
    """an IBTP transaction src:svc1 -> dst:svc1 with the given proof kind; returns the op with its proof description"""
    i = X.ibtp(index, frm="1356:%s:svc1" % src, to="1356:%s:svc1" % dst, typ=typ)
    pnum = nm.proof(odd=wasm_accept)
    proof = {"kind": "ok" if pkind in ("ok",) else pkind}
    hash_ok = pkind != "mismatch"
    if pkind == "ok":
        proof = {"kind": "hex", "hex": (b"1" if wasm_accept else b"0").hex() + ("%08x" % pnum).encode().hex()}
    tx = {"t": "ibtp", "from": frm, "ibtp": i, "proof": proof}
    if to_contract:
        tx["to"] = to_contract
    notify = dst if typ == 0 else src
    prog = ("ev", [(cnum(notify), False)], ("done",)) if handles else ("fail", False)
    return dict(tx=tx, frm=frm, body=("ibtp", prog), invalid=False, tag="ibtp_%s_%s" % (src, pkind),
                pdesc=dict(ibtp=i, pnum=pnum, proofhash=pnum if hash_ok else pnum + 100000, proof=proof))


def gen_proof_history(r, quick, nm):
    script = [("pre", s) for s in seed_steps()] + [("pre", {"op": "fund", "acct": "u:%d" % u, "amt": "10000000000000"}) for u in range(4)]
    script.append(("block", [], {}))
    nexti = {}
    pending_receipts = []
    ledger = r.choice(["", "complex"])
    for _ in range(r.randrange(2, 5 if quick else 8)):
        if r.random() < 0.25:
            # rule / registration changes take effect for the next block
            ch = r.choice(["chainA", "chainF", "chainP", "chainN"])
            step = r.choice([dict({"op": "seed_chain", "chain": ch}, **CHAINS[ch]), {"op": "seed_chain", "chain": ch, "rule": "happy"},
                             {"op": "seed_chain", "chain": ch, "rule": "fabric"}, {"op": "seed_chain", "chain": ch, "rule": "happy", "rstatus": "logouting"},
                             {"op": "seed_chain", "chain": ch, "rule": "none"}, {"op": "drop_chain", "chain": ch}])
            script.append(("pre", step))
            if ledger == "complex":
                # the pool reads the COMMITTED state (a snapshot): records written between blocks by the driver
                # are committed by an empty block first, as a block of registration transactions would
                script.append(("block", [], {}))
            if r.random() < 0.3:
                script.append(("block", [], {}))
                script.append(("restart",))
        ops = []
        new_pending = []
        for _ in range(r.randrange(1, 5)):
            frm = "u:%d" % r.randrange(4)
            k = r.random()
            if k < 0.2 and pending_receipts:
                # a forged RECEIPT for a request that is still pending (status BEGIN, id on its timeout list): the proof
                # check fails, so nothing of the pending request - its record, the timeout list - may change
                req = r.choice(pending_receipts)
                rop = ibtp_op(nm, frm, req["tx"]["ibtp"]["from"].split(":")[1], 0, r.choice(["absent", "mismatch"]), typ=1, handles=True)
                rop["receipt_of"] = req
                rop["tag"] = "forged_receipt_" + rop["pdesc"]["proof"]["kind"]
                ops.append(rop)
                continue
            src = r.choice(list(CHAINS.keys()) + ["chainU", "chainA", "chainA"])
            if src == "chainB":
                src = "chainA"
            pk = r.choice(["ok", "ok", "ok", "absent", "mismatch"])
            idx = nexti.get(src, 1)
            if r.random() < 0.15:
                ops.append(ibtp_op(nm, frm, src, idx + 2, pk, handles=False))
                continue
            if src == "chainW" and pk == "ok" and r.random() < 0.0:
                pass
            op = ibtp_op(nm, frm, src, idx, pk, handles=True, to_contract="c:store" if r.random() < 0.05 else None)
            if op["tx"].get("to"):
                op["body"] = ("ibtp", ("touch", X.CID["store"], ("fail", False)))
            ops.append(op)
            op["advance"] = (src, idx)
            if pk == "ok" and not op["tx"].get("to"):
                new_pending.append(op)
        script.append(("block", ops, {}))
        pending_receipts += new_pending
        # bookkeeping of expected indexes happens in build (needs the verdicts); approximate here: a request advances
        # the index when its proof is ok and the rule of the chain accepts (known statically for the unchanged chains)
        for op in ops:
            adv = op.get("advance")
            if adv and op["pdesc"]["proof"]["kind"] == "hex" and not op["tx"].get("to"):
                op["maybe_advance"] = adv
        # resolved later in resolve_script
    return dict(cfg=dict(admins=4, gas=0, audit=False, bal="1000000000000000", proof=r.choice(["", "parallel"]), ledger=ledger), script=script)


def gen_rule_update(nm, ledger, change, restart):
    """the binding of a chain changes AFTER the node has verified an IBTP of it: a junk proof that the old
    binding accepted must be rejected from the next block on - with and without a restart in between, under
    both state ledger types (with ledger.type = complex the pool's Copy() is a snapshot of the state)"""
    script = [("pre", s) for s in X.SEED2] + [("pre", {"op": "fund", "acct": "u:%d" % u, "amt": "10000000000000"}) for u in range(2)]
    script.append(("pre", {"op": "seed_chain", "chain": "1357", "relay": True, "trust": ["v:0", "v:1", "v:2", "v:3"]}))
    script.append(("block", [], {}))

    def remote(signers, idx):
        i = X.ibtp(idx, frm="1357:chainX:svc1", to="1356:chainB:svc1", payload="content:foo")
        pnum = nm.proof(True)
        proof = {"kind": "multisig", "signers": signers, "status": 0}
        return dict(tx={"t": "ibtp", "from": "u:1", "ibtp": i, "proof": proof}, frm="u:1",
                    body=("ibtp", ("ev", [(cnum("chainB"), False)], ("done",))), invalid=False,
                    tag="ibtp_remote", pdesc=dict(ibtp=i, pnum=pnum, proofhash=pnum, proof=proof))
    first = [ibtp_op(nm, "u:0", "chainA", 1, "ok")]
    if change == "trust":
        first.append(remote(["v:0", "v:1"], 1))
    script.append(("block", first, {}))
    step = {"rule_fabric": {"op": "seed_chain", "chain": "chainA", "rule": "fabric"},
            "rule_none": {"op": "seed_chain", "chain": "chainA", "rule": "none"},
            "rule_logouting": {"op": "seed_chain", "chain": "chainA", "rule": "happy", "rstatus": "logouting"},
            "unregistered": {"op": "drop_chain", "chain": "chainA"},
            "trust": {"op": "seed_chain", "chain": "1357", "relay": True, "trust": ["v:4", "v:5", "v:6", "v:7"]}}[change]
    script += [("pre", step), ("block", [], {})]
    if restart:
        script.append(("restart",))
    for k in range(2):
        ops = [remote(["v:0", "v:1"], 2)] if change == "trust" else [ibtp_op(nm, "u:0", "chainA", 2, "ok")]
        if change not in ("unregistered",):
            ops.append(ibtp_op(nm, "u:1", "chainB", 1 + k, "ok", dst="chainA"))
        script.append(("block", ops, {}))
    return dict(cfg=dict(admins=4, gas=0, audit=False, bal="1000000000000000", ledger=ledger), script=script, rule_update=[ledger, change, restart])


def call_op(frm, contract, method, args, ok=True, tag="gov_call"):
    return dict(tx={"t": "bvm", "from": frm, "to": "c:" + contract, "m": method, "args": args}, frm=frm,
                body=("bvm", ("done",) if ok else ("fail", False)), invalid=False, tag=tag)


def gen_governed(r, nm, variant, ledger="", pipelined=False):
    """GOVERNED rule history: a chain whose master rule is not the first list entry (the accept-everything
    rule is always registered at index 0); its admin proposes UpdateMasterRule to that earlier rule through the
    real RuleManager, the governance admins reject (or approve); then a junk proof is checked directly and
    inside a block.  The rule list used by the model is read back from the real contract state."""
    master = r.choice(["fabric", "simfab"])
    decision = "approve" if variant == "tighten" else variant
    script = [("pre", s) for s in X.SEED2]
    rules = [["happy", "bindable", "no"], [master, "available", "master"]]
    target = HAPPY_ADDR
    if variant == "logout":
        rules = [["happy", "available", "master"]]
    if variant == "tighten":
        # the other direction: the accept-everything rule is the master, the stricter rule becomes the master through
        # the real RuleManager / governance flow AFTER the node has verified IBTPs of the chain
        rules = [[master, "bindable", "no"], ["happy", "available", "master"]]
        target = {"fabric": "0x00000000000000000000000000000000000000a0", "simfab": "0x00000000000000000000000000000000000000a1"}[master]
    script += [("pre", dict({"op": "seed_chain", "chain": "chainG", "rules": rules}, **({"ctype": "Fabric V1.4.3"} if variant == "tighten" else {}))),
               ("pre", {"op": "seed_service", "chain": "chainG", "svc": "svc1", "ordered": True}),
               ("pre", {"op": "seed_appchain_admin", "chain": "chainG", "acct": "u:5"}),
               ("pre", {"op": "fund", "acct": "u:5", "amt": "5"}), ("pre", {"op": "fund", "acct": "u:1", "amt": "5"}),
               ("block", [], {}), ("rules", "chainG")]

    def junk(tag):
        return ibtp_op(nm, "u:1", "chainG", gi, "ok", handles=True)
    gi = 1
    j = junk("before")
    script += [("check", dict(tx=j["tx"], pdesc=j["pdesc"]), None)]
    if variant == "logout":
        return gen_logout(r, nm, script, junk, ledger, pipelined)
    if variant == "tighten":
        jb = junk("before_block")
        jb["body"] = ("ibtp", ("ev", [(cnum("chainB"), False)], ("done",)))
        script.append(("block", [jb], {}))
        gi = 2
    script += [("block", [call_op("u:5", "rule", "UpdateMasterRule", [["s", "chainG"], ["s", target], ["s", "r"]], tag="update_master_rule")], {}),
               ("rules", "chainG")]
    j = junk("pending")
    script += [("check", dict(tx=j["tx"], pdesc=j["pdesc"]), None)]
    voters = ["a:0", "a:1", "a:2"] if decision == "approve" else ["a:0", "a:1"]
    votes = [call_op(v, "governance", "Vote", [["pid", "u:5", 0], ["s", decision], ["s", "r"]], tag="vote_" + decision) for v in voters]
    for vo in votes[:-1]:
        script.append(("block", [vo], {}))
    if pipelined:
        # the DECIDING vote (block N: the binding changes) and an IBTP with a junk proof (block N+1) are handed to the
        # executor back to back, without waiting for block N to be executed: the proof of block N+1 must be checked
        # against the state committed by block N, not against the state when block N+1 entered the pipeline
        script.append(("pipeline", [[votes[-1]], [junk("pipelined")]], "chainG"))
        if decision == "approve" and variant != "tighten":
            gi = gi + 1         # accepted under the new (accept-everything) master: the index advances
    else:
        script.append(("block", [votes[-1]], {}))
    script.append(("rules", "chainG"))
    j = junk("after")
    script += [("check", dict(tx=j["tx"], pdesc=j["pdesc"]), None)]
    j2 = junk("after_block")
    if decision == "reject":
        j2["body"] = ("ibtp", ("done",))
    script.append(("block", [j2], {}))
    if variant == "tighten":
        script.append(("restart",))
        script.append(("block", [junk("after_restart")], {}))
    return dict(cfg=dict(admins=4, gas=0, audit=False, bal="1000000000000000", ledger=ledger), script=script, governed=variant, pipelined=pipelined)


def gen_forged_receipts(nm, dst, pkind, proof_type=""):
    """a request src -> dst is accepted and stays pending (status BEGIN, its id on the list timeout-<h>); then RECEIPTS
    for it arrive whose proof check fails (absent / not the committed hash / refused or not understood by the
    destination chain's master rule): alone in a block, next to an unrelated transaction, and twice in one block.
    Nothing but nonce and fee of the sender may change - in particular not the transaction manager's timeout list,
    which the executor's block post-processing (setTimeoutList) rewrites outside any transaction frame."""
    script = [("pre", s) for s in seed_steps()] + [("pre", {"op": "fund", "acct": "u:%d" % u, "amt": "10000000000000"}) for u in range(3)]
    script.append(("block", [], {}))
    ids = X.Ids()
    script.append(("block", [ibtp_op(nm, "u:0", "chainA", 1, "ok", dst=dst)], {}))

    def forged(frm):
        o = ibtp_op(nm, frm, "chainA", 1, pkind, typ=1, dst=dst, wasm_accept=False)
        o["tag"] = "forged_receipt_%s_%s" % (dst, pkind)
        return o
    script.append(("block", [forged("u:1")], {}))
    script.append(("block", [X.op_store_set(ids, "u:2", "k1", 7), forged("u:1")], {}))
    script.append(("block", [forged("u:1"), forged("u:2"), X.op_store_set(ids, "u:0", "k2", 8)], {}))
    return dict(cfg=dict(admins=4, gas=0, audit=False, bal="1000000000000000", proof=proof_type), script=script, forged=[dst, pkind, proof_type])


def gen_logout(r, nm, script, junk, ledger, pipelined):
    """the appchain's admin asks for the LOGOUT of the chain through the real AppchainManager; while the proposal is
    pending the rule records still stand (IBTPs of the chain keep verifying); the third approval logs the chain out and
    clears its rules.  That deciding vote (block N) and an IBTP of the chain (block N+1) are delivered in lock-step or
    back to back: the IBTP must be checked against the state committed by block N"""
    # a request TOWARDS the chain is accepted and stays pending: its receipt will be checked by the chain's rule
    script.append(("block", [ibtp_op(nm, "u:1", "chainA", 1, "ok", dst="chainG")], {}))
    script.append(("block", [call_op("u:5", "appchain", "LogoutAppchain", [["s", "chainG"], ["s", "r"]], tag="logout_appchain")], {}))
    script.append(("rules", "chainG"))
    j = junk("pending")
    script.append(("check", dict(tx=j["tx"], pdesc=j["pdesc"]), None))
    votes = [call_op(v, "governance", "Vote", [["pid", "u:5", 0], ["s", "approve"], ["s", "r"]], tag="vote_approve") for v in ("a:0", "a:1", "a:2")]
    for vo in votes[:-1]:
        script.append(("block", [vo], {}))
    script.append(("rules", "chainG"))
    # from the approval on the SPECIFICATION of a logout stands for the chain's rule records: every rule is unbound
    # (the read-back of the real records is no longer trusted for this chain)
    script.append(("spec_logout", "chainG"))
    if pipelined:
        script.append(("pipeline", [[votes[-1]], [junk("pipelined")]], "chainG"))
    else:
        script.append(("block", [votes[-1]], {}))
    script.append(("rules", "chainG"))
    j = junk("after")
    script.append(("check", dict(tx=j["tx"], pdesc=j["pdesc"]), None))
    script.append(("block", [junk("after_block")], {}))
    # receipts for the request that is pending towards the logged-out chain: only the proof check guards them
    for t in (1, 2):
        rc = ibtp_op(nm, "u:1", "chainA", 1, "ok", typ=t, dst="chainG")
        rc["tag"] = "receipt_from_logged_out_chain"
        script.append(("block", [rc], {}))
    return dict(cfg=dict(admins=4, gas=0, audit=False, bal="1000000000000000", ledger=ledger), script=script, governed="logout", pipelined=pipelined)


def gen_content_rule(nm, ledger="", restart=False, proof_type=""):
    """a CONTENT-SENSITIVE rule: chainS is bound to the built-in simulated-fabric rule, its trust root is the certificate
    of the chain's endorsing key, and proofs are really endorsed out-messages (index, function, arguments).  A genuine
    IBTP passes the proof check (once refused afterwards: it overtook its predecessor); then a DIFFERENT IBTP with the
    same from-to-index and the very same proof bytes (other call arguments) is presented - before and after the
    predecessor arrived - and finally the genuine one again.  Only the genuine content may pass, on a node that has
    seen the proof before as on a restarted one."""
    script = [("pre", s) for s in X.SEED2]
    script += [("pre", {"op": "seed_chain", "chain": "chainS", "rule": "simfab", "fabcert": True}),
               ("pre", {"op": "seed_service", "chain": "chainS", "svc": "svc1", "ordered": True}),
               ("pre", {"op": "fund", "acct": "u:0", "amt": "10000000000000"}), ("pre", {"op": "fund", "acct": "u:1", "amt": "10000000000000"}), ("block", [], {})]
    serial = [0]
    classes, labels = {}, {}

    def op(frm, idx, args, label, fresh, handles):
        """IBTP chainS -> chainB #idx calling interchainCharge(args); proof: endorsed for [label]'s message (fresh: built
        now for (idx, args); else the bytes remembered under the label)"""
        serial[0] += 1
        cls = classes.setdefault((idx, tuple(args)), len(classes) + 1)
        i = X.ibtp(idx, frm="1356:chainS:svc1", to="1356:chainB:svc1", payload="content:interchainCharge:" + ":".join(args))
        i["_ibid"] = 1000 * cls + serial[0]
        if fresh:
            labels[label] = 2000000 + 1000 * cls + len(labels)
            proof = {"kind": "fabric", "signer": "chainS", "mindex": idx, "mfunc": "interchainCharge", "margs": list(args), "label": label}
        else:
            proof = {"kind": "reuse", "label": label}
        pnum = labels[label]
        txi = {k: v for k, v in i.items() if not k.startswith("_")}
        prog = ("ev", [(cnum("chainB"), False)], ("done",)) if handles else ("fail", False)
        return dict(tx={"t": "ibtp", "from": frm, "ibtp": txi, "proof": proof}, frm=frm, body=("ibtp", prog), invalid=False,
                    tag="content_rule_%s" % ("genuine" if (2000000 + 1000 * cls) // 1000 == pnum // 1000 else "forged"),
                    pdesc=dict(ibtp=i, pnum=pnum, proofhash=pnum, proof=proof))
    A, B = ["A", "1"], ["B", "9"]
    script.append(("block", [op("u:0", 2, A, "p2", True, False)], {}))           # proof fine, index not due: refused by the contract
    script.append(("block", [op("u:1", 2, B, "p2", False, False)], {}))          # same name, same proof, other arguments
    script.append(("block", [op("u:0", 1, A, "p1", True, True)], {}))
    if restart:
        script.append(("restart",))
    script.append(("block", [op("u:1", 2, B, "p2", False, True), X.op_store_set(X.Ids(), "u:1", "k1", 5)], {}))
    script.append(("block", [op("u:0", 2, A, "p2", False, True)], {}))
    script.append(("block", [op("u:1", 3, B, "p2", False, True), op("u:0", 3, A, "p3", True, True)], {}))
    return dict(cfg=dict(admins=4, gas=0, audit=False, bal="1000000000000000", ledger=ledger, proof=proof_type), script=script, content_rule=[ledger, restart, proof_type])


def gen_parallel(nm, size):
    """parallel proof grouping: a block of [size] transactions per position of one IBTP with a forged proof"""
    script = [("pre", s) for s in X.SEED2] + [("pre", {"op": "fund", "acct": "u:%d" % u, "amt": "10000000000000"}) for u in range(3)]
    script.append(("block", [], {}))
    ids = X.Ids()
    for pos in range(size):
        ops = []
        for i in range(size):
            if i == pos:
                ops.append(ibtp_op(nm, "u:1", "chainA", 1, "mismatch" if (pos + size) % 2 else "absent"))
            else:
                ops.append(X.op_store_set(ids, "u:%d" % (i % 3), "k%d" % i, 10 * size + i))
        script.append(("block", ops, {}))
    return dict(cfg=dict(admins=4, gas=0, audit=False, bal="1000000000000000", proof="parallel"), script=script)


def chain_accepts(world, src):
    c = world.chains.get(src)
    if not c or not c.get("registered"):
        return False
    for a, av, _ in c.get("rules", []):
        if av:
            return a in (1, 4)
    return False


def resolve_script(g):
    """fix the expected index bookkeeping by walking the script with the world (a request that will be
    accepted advances the per-source index; later requests of the same source are renumbered)"""
    world = World()
    nexti = {}
    for item in g["script"]:
        if item[0] == "pre":
            world.seed(item[1])
        elif item[0] == "block":
            acc_in_block = []
            for op in item[1]:
                adv = op.pop("maybe_advance", None)
                op.pop("advance", None)
                req = op.pop("receipt_of", None)
                if req is not None:
                    op["tx"]["ibtp"]["index"] = req["tx"]["ibtp"]["index"]
                    continue
                i = op["tx"].get("ibtp")
                if not i or i["type"] != 0 or op["tx"].get("to"):
                    continue
                src = i["from"].split(":")[1]
                want = nexti.get(src, 1)
                ok_proof = op["pdesc"]["proof"]["kind"] == "hex"
                accepted = ok_proof and chain_accepts(world, src)
                if op["body"][1][0] == "fail":          # deliberately wrong index
                    i["index"] = want + 2
                    continue
                i["index"] = want
                if accepted:
                    nexti[src] = want + 1
    return g


def to_history(g):
    steps = []
    for item in g["script"]:
        if item[0] == "pre":
            steps.append(item[1])
        elif item[0] == "block":
            steps.append(X.blk([o["tx"] for o in item[1]], **item[2]))
        elif item[0] == "check":
            steps.append({"op": "checkproof", "tx": item[1]["tx"]})
        elif item[0] == "restart":
            steps.append({"op": "restart"})
        elif item[0] == "rules":
            steps.append({"op": "rules", "chain": item[1]})
        elif item[0] == "spec_logout":
            steps.append({"op": "rules", "chain": item[1]})
        elif item[0] == "pipeline":
            steps.append({"op": "blocks", "group": [[o["tx"] for o in ops] for ops in item[1]], "chain": item[2]})
    return {"cfg": g["cfg"], "steps": steps, "timeout_ms": 90000}


def build_proof_rows(g, out, flagsets, ids):
    rows = []
    steps = out.get("steps") or []
    hist = to_history(g)
    run = X.Run(hist, out, ids)
    world = World()
    first_block = True
    for si, item in enumerate(g["script"]):
        if si >= len(steps):
            rows.append((None, dict(block=si, problem="missing step (crash?)", tags=[o["tag"] for o in item[1]] if item[0] == "block" else [])))
            break
        ob = steps[si]
        if item[0] == "pre":
            world.seed(item[1])
            run.sh.apply_pre(item[1])
            continue
        if item[0] == "rules":
            world.readback(item[1], ob.get("rules"))
            continue
        if item[0] == "spec_logout":
            world.spec_logout(item[1])
            continue
        if item[0] == "pipeline":
            # blocks delivered back to back: no state dump between them; the frame is judged on lock-step blocks, the
            # proof answers of these by judge_pool
            if ob.get("hang") or ob.get("blocks") is None:
                rows.append((None, dict(block=si, problem="hang", tags=[o["tag"] for ops in item[1] for o in ops])))
                break
            for ops in item[1]:
                for o in ops:
                    run.take_nonce(o["tx"])
            run.sh.apply_block(ob)
            world.readback(item[2], ob.get("rules"))
            continue
        if item[0] != "block":
            continue
        if first_block:
            first_block = False
            run.sh.apply_block(ob)
            continue
        ops = item[1]
        if not ops and not ob.get("hang"):
            run.sh.apply_block(ob)
            continue
        if ob.get("hang") or ob.get("receipts") is None:
            rows.append((None, dict(block=si, problem="hang", tags=[o["tag"] for o in ops])))
            break
        xrow, info = run.xcase(ob, ops, flagsets, int(g["cfg"]["bal"]), g["cfg"]["gas"], opaque=True)
        run.sh.apply_block(ob)
        descs = []
        for o in ops:
            d = o.get("pdesc")
            if d is None:
                descs.append("None")
            else:
                descs.append("(Some {| pd_chains := %s; pd_rules := %s; pd_ibtp := %s; pd_proof := %s |})" % (
                    world.gchains(), world.grules(), gibtp(d["ibtp"], d["pnum"], d["proofhash"]), gproof(d["proof"], d["pnum"])))
        row = "{| pc_bxh := %s; pc_descs := %s; pc_frame := %s |}" % (X.gNn(X.BXH), glist(descs), xrow)
        info.update(block=si, tags=[o["tag"] for o in ops], nontrivial=any(info["recs"]) and not all(info["recs"]),
                    errs=[rc[1] for rc in ob["receipts"]])
        rows.append((row, info))
    return hist, rows


def build_pool_row(g, out):
    """the node history of the proof pool: commits (the records as seeded / read back), restarts, and every IBTP
    transaction of a block as a question with the observed answer (accepted = no proof-check failure)"""
    steps = out.get("steps") or []
    world = World()
    evs, nchecks, nacc, npipe = [], 0, 0, 0
    for si, item in enumerate(g["script"]):
        if si >= len(steps):
            break
        ob = steps[si]
        if item[0] == "pre":
            world.seed(item[1])
        elif item[0] == "rules":
            world.readback(item[1], ob.get("rules"))
        elif item[0] == "spec_logout":
            world.spec_logout(item[1])
        elif item[0] == "restart":
            evs.append("HRestart")
        elif item[0] == "pipeline":
            if ob.get("blocks") is None:
                break
            for bi, ops in enumerate(item[1]):
                if bi == len(item[1]) - 1:
                    # the state committed by the blocks before the last one of the group: read back after the group
                    # (the last block of these groups carries IBTPs only, it does not touch the rule records)
                    world.readback(item[2], ob.get("rules"))
                evs.append("(HCommit %s %s)" % (world.gchains(), world.grules()))
                for o, rc in zip(ops, ob["blocks"][bi].get("receipts") or []):
                    d = o.get("pdesc")
                    if d is None:
                        continue
                    acc = not (str(rc[1]).startswith("proof") or "proof verify failed" in str(rc[2]))
                    nchecks += 1
                    nacc += 1 if acc else 0
                    npipe += 1
                    evs.append("(HCheck %s %s %s)" % (gibtp(d["ibtp"], d["pnum"], d["proofhash"]), gproof(d["proof"], d["pnum"]), gbool(acc)))
        elif item[0] == "block":
            if item[1] and ob.get("receipts") is None:
                break
            evs.append("(HCommit %s %s)" % (world.gchains(), world.grules()))
            for o, rc in zip(item[1], ob.get("receipts") or []):
                d = o.get("pdesc")
                if d is None:
                    continue
                acc = not (str(rc[1]).startswith("proof") or "proof verify failed" in str(rc[2]))
                nchecks += 1
                nacc += 1 if acc else 0
                evs.append("(HCheck %s %s %s)" % (gibtp(d["ibtp"], d["pnum"], d["proofhash"]), gproof(d["proof"], d["pnum"]), gbool(acc)))
    row = "{| hc_bxh := %s; hc_snapshot := %s; hc_memo := [false]; hc_evs := %s |}" % (
        X.gNn(X.BXH), gbool(g["cfg"].get("ledger") == "complex"), glist(evs))
    return row, dict(checks=nchecks, accepted=nacc, ledger=g["cfg"].get("ledger") or "simple", restarts=evs.count("HRestart"), pipelined_checks=npipe)


PPRE = "From BX Require Import Base.Prelude Model.Fees Model.ExecFrame Model.ProofCheck.\nLocal Open Scope N_scope.\n"


# ----------------------------------------------------------------------------- multisig differential

def gen_multisig(r, quick, nm):
    """direct CheckProof calls with real signatures: validator sets of several sizes, signer lists with
    duplicates, strangers, junk and signatures over another message"""
    cases = []
    for n in ([0, 1, 2, 3, 4, 5, 7] if not quick else [0, 1, 3, 4, 7]):
        trust = VKEYS[:n]
        script = [("pre", {"op": "seed_chain", "chain": "1357", "relay": True, "trust": trust}),
                  ("pre", {"op": "seed_chain", "chain": "chainB"}), ("block", [], {})]
        world_steps = [s[1] for s in script if s[0] == "pre"]
        pool = trust + ["v:9", "v:10", "bad"] + ["wrongmsg:" + t for t in trust[:2]]
        for _ in range(20 if quick else 80):
            k = r.randrange(0, n + 4)
            signers = [r.choice(pool) for _ in range(k)] if pool else []
            if r.random() < 0.3 and trust:
                signers = r.sample(trust, min(len(trust), r.randrange(0, n + 1))) + signers[:2]
            i = X.ibtp(1, frm="1357:chainX:svc1", to="1356:chainB:svc1", payload="content:foo")
            pnum = nm.proof(True)
            proof = {"kind": "multisig", "signers": signers, "status": r.choice([0, 1, 3])}
            hash_ok = r.random() < 0.9
            if not hash_ok:
                proof["hash_of"] = "00"
            script.append(("check", dict(tx={"t": "ibtp", "from": "u:1", "ibtp": i, "proof": proof},
                                         pdesc=dict(ibtp=i, pnum=pnum, proofhash=pnum if hash_ok else pnum + 100000, proof=proof)), world_steps))
        cases.append(dict(cfg=dict(admins=4, gas=0, audit=False, bal="1000000000000000"), script=script))
    return cases


def build_verify_rows(g, out):
    rows = []
    steps = out.get("steps") or []
    world = World()
    for si, item in enumerate(g["script"]):
        if si >= len(steps):
            break
        if item[0] == "pre":
            world.seed(item[1])
        if item[0] == "rules":
            world.readback(item[1], steps[si].get("rules"))
        if item[0] == "pipeline":
            world.readback(item[2], steps[si].get("rules"))
        if item[0] == "spec_logout":
            world.spec_logout(item[1])
        if item[0] != "check":
            continue
        ob = steps[si]
        d = item[1]["pdesc"]
        obs = 0 if ob.get("ok") else (1 if ob.get("errnil") else 2)
        row = "(%s, {| pd_chains := %s; pd_rules := %s; pd_ibtp := %s; pd_proof := %s |}, %s)" % (
            X.gNn(X.BXH), world.gchains(), world.grules(), gibtp(d["ibtp"], d["pnum"], d["proofhash"]), gproof(d["proof"], d["pnum"]), X.gNn(obs))
        rows.append((row, dict(step=si, signers=d["proof"].get("signers"), nvals=len((world.chains.get("1357") or {}).get("validators") or []), obs=obs, cls=ob.get("cls"))))
    return rows


# ----------------------------------------------------------------------------- entry points

def entry_script(ops):
    """ops: list of ("ibtp", verified, handles) | ("data", handles) | ("emit", handles) | ("init",) | ("restart",)"""
    script = [("pre", s) for s in X.SEED2] + [("pre", {"op": "fund", "acct": "u:1", "amt": "1000000"}), ("block", [], {})]
    nexti = 1
    for op in ops:
        if op[0] == "ibtp":
            idx = nexti if op[2] else nexti + 2
            tx = {"t": "ibtp", "from": "u:1", "ibtp": X.ibtp(idx), "proof": {"kind": "ok" if op[1] else "mismatch"}}
            script.append(("block", [dict(tx=tx, tag="entry_ibtp")], {}))
            if op[1] and op[2]:
                nexti += 1
        elif op[0] == "data":
            idx = nexti if op[1] else nexti + 2
            tx = {"t": "bvm", "from": "u:1", "to": "c:interchain", "m": "HandleIBTPData", "args": [["ibtp", X.ibtp(idx)]]}
            script.append(("block", [dict(tx=tx, tag="entry_data")], {}))
            op = ("data", op[1], idx)
        elif op[0] == "emit":
            tx = {"t": "bvm", "from": "u:1", "to": "c:interbroker", "m": "EmitInterchain",
                  "args": [["s", "1356:chainA:svc1"], ["s", "1356:chainB:svc1"], ["s", "f,g,h"], ["s", "a"], ["s", "b"], ["s", "c"]]}
            script.append(("block", [dict(tx=tx, tag="entry_emit")], {}))
        elif op[0] == "init":
            tx = {"t": "bvm", "from": "u:2", "to": "c:interchain", "m": "InitServiceCache", "args": []}
            script.append(("block", [dict(tx=tx, tag="entry_init")], {}))
        elif op[0] == "restart":
            script.append(("restart",))
    return dict(cfg=dict(admins=4, gas=0, audit=False, bal="1000000000000000"), script=script, entry_ops=ops)


def gen_entry(r, quick):
    out = [entry_script([("init",), ("data", True)]),
           entry_script([("data", True), ("init",), ("data", True), ("restart",), ("data", True)]),
           entry_script([("init",), ("emit", True)]),
           entry_script([("emit", True)]),
           entry_script([("ibtp", True, True), ("ibtp", False, True), ("init",), ("ibtp", True, True), ("data", True)])]
    for _ in range(15 if quick else 120):
        ops = []
        for _ in range(r.randrange(2, 7)):
            k = r.random()
            if k < 0.3:
                ops.append(("ibtp", r.random() < 0.6, r.random() < 0.8))
            elif k < 0.55:
                ops.append(("data", r.random() < 0.8))
            elif k < 0.7:
                ops.append(("emit", True))
            elif k < 0.88:
                ops.append(("init",))
            else:
                ops.append(("restart",))
        out.append(entry_script(ops))
    return out


def build_entry_row(g, out, eflagsets):
    """EmitInterchain numbers its own IBTPs (OutCounter), so whether the contract accepts depends on the history:
    the abstract [handles] bit of an emit step is taken from a shadow of both counters"""
    steps = out.get("steps") or []
    ops, obs = [], []
    si = len([s for s in g["script"] if s[0] == "pre"]) + 1
    nexti, out_counter = 1, 0
    for op in g["entry_ops"]:
        if si >= len(steps):
            return None, dict(problem="missing step (crash?)")
        ob = steps[si]
        si += 1
        if op[0] == "restart":
            ops.append("ERestart")
            obs.append("(true, false)")
            continue
        rc = (ob.get("receipts") or [[1]])[0]
        ok = rc[0] == 0
        processed = any(s[0] == "c:interchain" and s[1].startswith("service-1356:chainA:svc1") for s in (ob.get("state") or [])) or bool(ob.get("counter"))
        if op[0] == "ibtp":
            ops.append("(EIbtpTx %s %s)" % (gbool(op[1]), gbool(op[2])))
            if op[1] and op[2]:
                nexti += 1
        elif op[0] == "data":
            ops.append("(EHandleData %s)" % gbool(op[1]))
            if ok and processed:
                nexti += 1
        elif op[0] == "emit":
            handles = (out_counter + 1 == nexti)
            ops.append("(EEmit %s)" % gbool(handles))
            if ok:
                out_counter += 1
                if processed:
                    nexti += 1
            # a failed EmitInterchain is reverted, its counter does not advance
        elif op[0] == "init":
            ops.append("EInitCache")
        obs.append("(%s, %s)" % (gbool(ok), gbool(processed)))
    row = "{| ec_cfgs := %s; ec_ops := %s; ec_obs := %s |}" % (glist([gecfg(f) for f in eflagsets]), glist(ops), glist(obs))
    return row, dict(ops=g["entry_ops"], obs=obs)


# ----------------------------------------------------------------------------- the signed digest (real utils.EncodePackedAndHash)

def be8(x):
    return int(x).to_bytes(8, "big")


def digest_probes(r, quick):
    """field tuples for the real EncodePackedAndHash: indexes around every byte boundary, every IBTP type and
    transaction status, and the neighbours (256*k+t, type 0) / (k, type t) that a variable-length integer packing
    confuses; From/To pairs of equal total length; payload hashes of 32 bytes"""
    idxs = [0, 1, 2, 3, 255, 256, 257, 258, 259, 511, 512, 513, 65535, 65536, 65537, 2**24, 2**32 - 1, 2**32, 2**32 + 1, 2**40 + 3, 2**56, 2**63, 2**64 - 1]
    types, stats = [0, 1, 2, 3], [0, 1, 2, 3, 4, 5]
    fts = [("1357:chainX:svc1", "1356:chainB:svc1"), ("1357:chainX:svc", "11356:chainB:svc1"), ("1356:chainB:svc1", "1357:chainX:svc1")]
    hashes = [bytes([7] * 32), bytes(range(32)), bytes([0] * 32), bytes([0] * 31 + [1])]
    probes = []
    for i in idxs:
        for t in types:
            probes.append((fts[0], i, t, hashes[0], 1))
    for k in (1, 2, 255, 256, 65536):
        for t in (1, 2, 3):
            probes.append((fts[0], 256 * k + t, 0, hashes[0], 1))
            probes.append((fts[0], k, t, hashes[0], 1))
    for st in stats:
        for i in (0, 1, 256, 257):
            probes.append((fts[0], i, 1, hashes[1], st))
    for ft in fts:
        for h in hashes:
            probes.append((ft, 300, 0, h, 0))
    for _ in range(40 if quick else 600):
        probes.append((r.choice(fts), r.choice(idxs + [r.randrange(2**64)]), r.choice(types), r.choice(hashes), r.choice(stats)))
    seen, out = set(), []
    for p in probes:
        if p not in seen:
            seen.add(p)
            out.append(p)
    return out


def run_digest(exe, probes):
    lines = []
    for (frm, to), i, t, h, st in probes:
        pre = frm.encode() + to.encode() + be8(i) + be8(t) + h + be8(st)
        lines.append({"from": frm, "to": to, "index": str(i), "type": str(t), "hash": h.hex(), "status": str(st), "pre": pre.hex()})
    rc, outs, err = vlib.run_driver(exe, "digest", lines, timeout=300)
    if rc != 0 or len(outs) != len(lines):
        return None, (err or "")[-800:]
    return list(zip(probes, lines, outs)), ""


def gbytes(b):
    return glist(["%d" % x for x in b])


def digest_rows(res):
    rows = []
    for ((frm, to), i, t, h, st), line, out in res:
        rows.append("{| dp_fields := {| pf_fromto := %s; pf_index := %d; pf_type := %d; pf_hash := %s; pf_status := %d |}; dp_pre := %s; dp_same := %s; dp_digest := %s |}" % (
            gbytes(frm.encode() + to.encode()), i, t, gbytes(h), st, gbytes(bytes.fromhex(line["pre"])),
            gbool(bool(out.get("digest")) and out.get("digest") == out.get("pre_digest") and not out.get("err")), gbytes(bytes.fromhex(out.get("digest") or ""))))
    return rows


DPRE = "From BX Require Import Base.Prelude Model.Packed.\nLocal Open Scope N_scope.\n"


# ----------------------------------------------------------------------------- run

def flag_setup():
    open_map = X.open_flags(["C03", "C07", "C14", "C08"])
    xflagsets = X.subsets([f for f in X.XFLAGS + X.FFLAGS if f in open_map])
    eflagsets = X.subsets([f for f in EFLAGS if f in open_map])
    return open_map, xflagsets, eflagsets


def crash_corpus(nm):
    """rule answers plain false: the unchanged code crashes in the proof goroutine (also a C08 finding)"""
    g = dict(cfg=dict(admins=4, gas=0, audit=False, bal="1000000000000000"),
             script=[("pre", s) for s in seed_steps()] + [("pre", {"op": "fund", "acct": "u:0", "amt": "10000000000000"}), ("block", [], {}),
                                                         ("block", [ibtp_op(nm, "u:0", "chainW", 1, "ok", wasm_accept=False)], {})])
    return g


def run(ctx):
    ctx.proofs(["Proofs/ProofCheckProofs", "Proofs/ExecFrameProofs", "Proofs/PackedProofs"], model_targets=["Fees", "ExecFrame", "Sites", "ProofCheck", "Packed"])
    exe, err = vlib.build_harness("execframe")
    if exe is None:
        ctx.broken("harness-build", err)
        return ctx.finish(rule="-")
    open_map, xflagsets, eflagsets = flag_setup()
    ids, nm = X.Ids(), Namer()
    if ctx.model_ok:
        pitems = [crash_corpus(nm)] + [gen_parallel(nm, size) for size in range(6, 14)]
        gitems = [gen_governed(ctx.rng, nm, v, ledger=l) for v, l in
                  ([("reject", ""), ("approve", "complex"), ("tighten", "complex"), ("tighten", "")] if ctx.quick else
                   [(v, l) for v in ("reject", "approve", "tighten") for l in ("", "complex")] * 3)]
        gitems += [gen_governed(ctx.rng, nm, v, ledger=l, pipelined=True) for v, l in
                   ([("logout", ""), ("logout", "complex"), ("tighten", ""), ("approve", "")] if ctx.quick else
                    [(v, l) for v in ("logout", "tighten", "approve", "reject") for l in ("", "complex")] * 2)]
        gitems += [gen_governed(ctx.rng, nm, "logout", ledger=l) for l in ("", "complex")]
        pitems += gitems
        uitems = [gen_rule_update(nm, l, ch, rs) for l in ("", "complex") for ch in ("rule_fabric", "rule_none", "rule_logouting", "unregistered", "trust")
                  for rs in (False, True)]
        pitems += uitems
        fitems = [gen_forged_receipts(nm, dst, pk, pt) for dst, pk in (("chainB", "absent"), ("chainB", "mismatch"), ("chainF", "ok"), ("chainW", "ok"), ("chainN", "ok"))
                  for pt in ("", "parallel")]
        pitems += fitems
        citems = [gen_content_rule(nm, l, rs, pt) for l, rs, pt in (("", False, ""), ("", True, ""), ("complex", False, ""), ("", False, "parallel"))]
        pitems += citems
        pitems += [resolve_script(gen_proof_history(ctx.rng, ctx.quick, nm)) for _ in range(100 if ctx.quick else 1500)]
        mitems = gen_multisig(ctx.rng, ctx.quick, nm) + gitems        # the governed histories also contain direct CheckProof steps
        eitems = gen_entry(ctx.rng, ctx.quick)
        allg = pitems + mitems + eitems
        outs, e = X.run_histories(exe, [to_history(g) for g in allg])
        if outs is None:
            ctx.broken("driver:execframe", e)
            return ctx.finish(rule="-")
        po, mo, eo = outs[:len(pitems)], outs[len(pitems):len(pitems) + len(mitems)], outs[len(pitems) + len(mitems):]
        ctx.extra["governed_rule_histories"] = len(gitems)
        ctx.extra["rule_update_histories"] = len(uitems)
        ctx.extra["forged_receipt_histories"] = len(fitems)
        ctx.extra["content_rule_histories"] = len(citems)
        ctx.extra["parallel_grouping_blocks"] = sum(range(6, 14))
        # --- proof defects through block execution
        flat = []
        for g, out in zip(pitems, po):
            if g["cfg"].get("ledger") == "complex":
                # no raw dump of the complex state ledger (its trie has no hook): the frame of these histories is
                # judged under the simple ledger only, their proof-check answers by judge_pool below; crashes still count
                if out.get("crash") or out.get("killed"):
                    ctx.violation("node crashed / hung while verifying or executing an IBTP (ledger.type=complex): %s" % out.get("panic"),
                                  dict(property=PID, kind="pool", g=g, verdict=[2, 900], panic=out.get("panic"), site=out.get("site")))
                continue
            hist, rows = build_proof_rows(g, out, xflagsets, ids)
            for row, info in rows:
                flat.append((g, hist, out, row, info))
        vs, msg = vlib.coq_judge_sharded("C03_proof", PPRE, "pcase", "judge_proof", [f[3] for f in flat if f[3] is not None], shard=40)
        if vs is None:
            ctx.broken("correspondence:judge_proof", msg)
        else:
            it = iter(vs)
            kinds = {}
            for g, hist, out, row, info in flat:
                v = next(it) if row is not None else (2, 900)
                for t in info.get("tags", []):
                    kinds[t] = kinds.get(t, 0) + 1
                blk = hist["steps"][info["block"]] if info["block"] < len(hist["steps"]) else None
                ctx.count(case_key=json.dumps(["p", blk], sort_keys=True), nontrivial=info.get("nontrivial", False),
                          sample=dict(driver="execframe", kind="proof", tags=info.get("tags"), errs=info.get("errs"), verdict=v))
                ctx.traces_validated += 1
                rep = dict(property=PID, kind="proof", g=g, history=hist, block=info.get("block"), verdict=v, info=info, panic=out.get("panic"), site=out.get("site"))
                if info.get("problem"):
                    if "rule-false" in [f.get("flag") for f in open_map.values() if f["property"] == PID] and any("chainW" in t for t in info.get("tags", [])) and out.get("crash"):
                        ctx.known(open_map["rule_false"]["id"], open_map["rule_false"]["what"]) if "rule_false" in open_map else None
                        continue
                    if "rule_false" in open_map and out.get("crash") and "verifyProofs" in json.dumps(out.get("site")):
                        ctx.known(open_map["rule_false"]["id"], open_map["rule_false"]["what"])
                        continue
                    ctx.violation("node crashed / hung while verifying or executing an IBTP: %s" % (out.get("panic") or info["problem"]), rep)
                    continue
                kind = X.handle_verdict(ctx, PID, v, xflagsets, open_map, "an IBTP without a verified proof changed state or got a SUCCESS receipt", rep,
                                        relevant=set(X.XFLAGS))
                if kind == "mismatch":
                    ctx.broken("correspondence:judge_proof", "first differing block: replay=%s %s" % (X.save_mismatch(ctx, rep), json.dumps(rep)[:600]))
                elif kind == "domain":
                    ctx.broken("correspondence:judge_proof(domain)", json.dumps(rep)[:800])
            ctx.extra["proof_distribution"] = kinds
        # --- the proof pool over whole node histories (both ledger types, restarts)
        hrows = [(g, out) + build_pool_row(g, out) for g, out in zip(pitems, po) if not out.get("crash")]
        vs, msg = vlib.coq_judge_sharded("C03_pool", PPRE, "hcase", "judge_pool", [h[2] for h in hrows], shard=60)
        if vs is None:
            ctx.broken("correspondence:judge_pool", msg)
        else:
            dist = {}
            for (g, out, row, info), v in zip(hrows, vs):
                key = "%s/restarts=%d%s" % (info["ledger"], min(info["restarts"], 1), "/pipelined" if info.get("pipelined_checks") else "")
                dist[key] = dist.get(key, 0) + 1
                ctx.count(case_key=json.dumps(["h", row[-300:], info]), nontrivial=0 < info["accepted"] < info["checks"],
                          sample=dict(driver="execframe", kind="pool", info=info, verdict=v))
                ctx.traces_validated += 1
                rep = dict(property=PID, kind="pool", g=g, verdict=v, info=info)
                if v[0] == 2:
                    ctx.violation("an IBTP passed the proof check although the rule / validator set bound in the state committed by the previous "
                                  "block does not accept its proof (ledger.type=%s)" % info["ledger"], rep)
                elif v[0] != 0:
                    ctx.broken("correspondence:judge_pool", "first differing history: replay=%s %s" % (X.save_mismatch(ctx, rep), json.dumps(rep)[:600]))
            ctx.extra["pool_histories"] = dist
        # --- the digest the validators sign: the real EncodePackedAndHash on probe tuples
        res, e = run_digest(exe, digest_probes(ctx.rng, ctx.quick))
        if res is None:
            ctx.broken("driver:execframe digest", e)
        else:
            # one judge call per group of probes (the injectivity predicate is pairwise inside a group); the groups overlap
            # in the structured probes, which come first
            rows = digest_rows(res)
            groups = [rows[i:i + 120] for i in range(0, len(rows), 100)]
            vs, msg = vlib.coq_judge_sharded("C03_digest", DPRE, "list dprobe", "judge_digest", [glist(g) for g in groups], shard=2)
            if vs is None:
                ctx.broken("correspondence:judge_digest", msg)
            else:
                for gi, v in enumerate(vs):
                    sub = res[gi * 100: gi * 100 + 120]
                    for (p, line, out) in sub[:100]:
                        ctx.count(case_key=json.dumps(["d", line["from"], line["to"], line["index"], line["type"], line["hash"], line["status"]]),
                                  nontrivial=int(line["index"]) >= 256, sample=dict(driver="execframe", kind="digest", probe=line, digest=out.get("digest"), verdict=v))
                        ctx.traces_validated += 1
                    rep = dict(property=PID, kind="digest", probes=[l for _, l, _ in sub], verdict=v)
                    if v[0] == 2:
                        # name a colliding pair
                        byd = {}
                        pair = None
                        for (p, line, out) in sub:
                            key = out.get("digest")
                            fields = (line["from"] + line["to"], line["index"], line["type"], line["hash"], line["status"])
                            if key in byd and byd[key][0] != fields:
                                pair = [byd[key][1], line]
                                break
                            byd.setdefault(key, (fields, line))
                        rep["colliding"] = pair
                        rep["probes"] = pair or rep["probes"]
                        ctx.violation("EncodePackedAndHash gives two different (from/to, index, type, payload hash, status) tuples the same digest: a "
                                      "signature over one verifies the other", rep)
                    elif v[0] != 0:
                        ctx.broken("correspondence:judge_digest", "replay=%s the real digest is not keccak256 of the model's fixed-width packing" % X.save_mismatch(ctx, rep))
                ctx.extra["digest_probes"] = len(rows)
        # --- multisig differential
        mrows = []
        for g, out in zip(mitems, mo):
            for row, info in build_verify_rows(g, out):
                mrows.append((g, row, info))
        vs, msg = vlib.coq_judge_sharded("C03_verify", PPRE, "N * pdesc * N", "judge_verify", [m[1] for m in mrows], shard=200)
        if vs is None:
            ctx.broken("correspondence:judge_verify", msg)
        else:
            acc = 0
            for (g, row, info), v in zip(mrows, vs):
                acc += 1 if info["obs"] == 0 else 0
                ctx.count(case_key=json.dumps(["m", info["nvals"], info["signers"], row[-40:]]), nontrivial=len(info["signers"] or []) >= 2,
                          sample=dict(driver="execframe", kind="multisig", validators=info["nvals"], signers=info["signers"], impl=info["cls"], verdict=v))
                ctx.traces_validated += 1
                rep = dict(property=PID, kind="verify", g=g, step=info["step"], verdict=v, info=info)
                if v[0] == 2 and v[1] == 2:
                    ctx.violation("CheckProof accepted an IBTP although the chain's current MASTER rule does not accept its proof", rep)
                elif v[0] == 2:
                    ctx.violation("CheckProof accepted a relayed IBTP without more than (n-1)/3 distinct registered signers", rep)
                elif v[0] != 0:
                    ctx.broken("correspondence:judge_verify", "first differing case: replay=%s %s" % (X.save_mismatch(ctx, rep), json.dumps(rep)[:600]))
            ctx.extra["multisig"] = dict(cases=len(mrows), accepted=acc)
        # --- entry points
        erows = []
        for g, out in zip(eitems, eo):
            row, info = build_entry_row(g, out, eflagsets)
            erows.append((g, out, row, info))
        vs, msg = vlib.coq_judge_sharded("C03_entry", PPRE, "ecase", "judge_entry", [x[2] for x in erows if x[2] is not None], shard=200)
        if vs is None:
            ctx.broken("correspondence:judge_entry", msg)
        else:
            it = iter(vs)
            for g, out, row, info in erows:
                v = next(it) if row is not None else (2, 900)
                ctx.count(case_key=json.dumps(["e", g["entry_ops"]]), nontrivial=True,
                          sample=dict(driver="execframe", kind="entry", ops=g["entry_ops"], obs=info.get("obs"), verdict=v))
                ctx.traces_validated += 1
                rep = dict(property=PID, kind="entry", g=g, verdict=v, info=info, panic=out.get("panic"))
                if row is None:
                    ctx.violation("node crashed / hung on an entry-point history", rep)
                    continue
                kind = X.handle_verdict(ctx, PID, v, eflagsets, open_map, "an IBTP was processed without a verified proof through a plain invocation", rep)
                if kind == "mismatch":
                    ctx.broken("correspondence:judge_entry", "first differing history: replay=%s %s" % (X.save_mismatch(ctx, rep), json.dumps(rep)[:600]))
    return ctx.finish(rule="(a) blocks of IBTP transactions (requests and receipts) from chains whose master rule accepts / errors (Fabric, SimFabric fed junk; "
                           "missing code) / answers by the first proof byte (wasm) / is missing / not available / second in the list, from unregistered chains, with "
                           "proofs absent / hash-mismatching / fine, wrong indexes, foreign tx.To, rule and registration changes between blocks; "
                           "(b) direct CheckProof calls with real secp256k1 signatures over 0..7 validators x signer lists with duplicates, strangers, junk, signatures "
                           "over another digest; (c) histories over {IBTP tx, HandleIBTPData, EmitInterchain, InitServiceCache, restart}; "
                           "(d) the proof pool over whole node histories under ledger.type simple and complex: binding changes (master rule by seeding and by the real "
                           "UpdateMasterRule flow, rule removed / logouting, chain unregistered, trust root replaced) after an IBTP was verified, with and without restart; "
                           "non-trivial = (a) block with accepted and rejected IBTPs, (b) at least two signatures, (c) every history; distinct by content")


def replay(ctx, path):
    obj = json.load(open(path))
    exe, err = vlib.build_harness("execframe")
    if obj.get("kind") == "digest":
        probes = [((l["from"], l["to"]), int(l["index"]), int(l["type"]), bytes.fromhex(l["hash"]), int(l["status"])) for l in obj["probes"]]
        res, e = run_digest(exe, probes)
        if res is None:
            print(e)
            return 1
        vs, msg = vlib.coq_judge_sharded("C03_digest_r", DPRE, "list dprobe", "judge_digest", [glist(digest_rows(res))])
        print(json.dumps(dict(digests=[o.get("digest") for _, _, o in res], verdicts=vs, msg=msg[-300:])))
        return 1 if vs is None or any(v[0] != 0 for v in vs) else 0
    g = obj["g"]
    for item in g["script"]:
        if item[0] == "block":
            for o in item[1]:
                if "body" in o:
                    o["body"] = X.tuplify(o["body"])
    outs, e = X.run_histories(exe, [to_history(g)])
    if outs is None:
        print(e)
        return 1
    open_map, xflagsets, eflagsets = flag_setup()
    if obj["kind"] == "proof":
        hist, rows = build_proof_rows(g, outs[0], xflagsets, X.Ids())
        vs, msg = vlib.coq_judge_sharded("C03_proof_r", PPRE, "pcase", "judge_proof", [r for r, _ in rows if r is not None])
    elif obj["kind"] == "pool":
        row, info = build_pool_row(g, outs[0])
        vs, msg = vlib.coq_judge_sharded("C03_pool_r", PPRE, "hcase", "judge_pool", [row])
    elif obj["kind"] == "verify":
        rows = build_verify_rows(g, outs[0])
        vs, msg = vlib.coq_judge_sharded("C03_verify_r", PPRE, "N * pdesc * N", "judge_verify", [r for r, _ in rows])
    else:
        row, info = build_entry_row(g, outs[0], eflagsets)
        vs, msg = vlib.coq_judge_sharded("C03_entry_r", PPRE, "ecase", "judge_entry", [row] if row else [])
    print(json.dumps(dict(crash=outs[0].get("crash"), panic=outs[0].get("panic"), verdicts=vs, msg=msg[-300:])))
    return 1 if vs is None or outs[0].get("crash") or any(v[0] != 0 for v in vs) else 0
