"""C03: only proof-verified IBTPs change state (Model/ProofCheck.v: judge_proof, judge_verify, judge_entry)."""
import json

import vlib
from vlib import gbool, glist
from checks import execframe_common as X

PID = "C03"
EFLAGS = ["init_cache_exported", "open_handle_data", "open_emit"]
RULE_ID = {"happy": 1, "fabric": 2, "simfab": 3, X.RULE_WASM_ADDR: 4, "0x00000000000000000000000000000000000000e9": 6,
           "0x00000000000000000000000000000000000000a2": 1, "0x00000000000000000000000000000000000000a0": 2,
           "0x00000000000000000000000000000000000000a1": 3}
HAPPY_ADDR = "0x00000000000000000000000000000000000000a2"
VKEYS = ["v:%d" % i for i in range(8)]


def gecfg(flags):
    return "{| d_init_cache_exported := %s; d_open_handle_data := %s; d_open_emit := %s |}" % tuple(gbool(f in flags) for f in EFLAGS)


# ----------------------------------------------------------------------------- world description

class World:
    """the appchain / rule records the driver has seeded so far (what verifyProofs will read)"""

    def __init__(self):
        self.chains = {}

    def seed(self, step):
        if step["op"] == "seed_chain":
            c = self.chains.setdefault(step["chain"], {})
            c["registered"] = True
            if step.get("rules") is not None:
                firsta = [i for i, r in enumerate(step["rules"]) if r[1] == "available"][:1]
                c["rules"] = [(RULE_ID.get(r[0], 6), r[1] == "available", (r[2] == "master") if len(r) > 2 else [i] == firsta)
                              for i, r in enumerate(step["rules"])]
            elif step.get("rule") == "none":
                c["rules"] = []
            else:
                c["rules"] = [(RULE_ID.get(step.get("rule") or "happy", 6), (step.get("rstatus") or "available") == "available", True)]
            c["validators"] = [X.acct_id(v) for v in step["trust"]] if step.get("trust") is not None else None
        elif step["op"] == "drop_chain":
            self.chains.pop(step["chain"], None)

    def readback(self, chain, lst):
        """the rule list as the implementation holds it now (driver step "rules")"""
        self.chains.setdefault(chain, {"registered": True, "validators": None})["rules"] = [
            (RULE_ID.get(a, 6), st == "available", bool(m)) for a, st, m in (lst or [])]

    def gchains(self):
        return glist(["(%s, {| a_trust := 0%%N; a_validators := %s |})" % (
            X.gNn(cnum(n)), "None" if c.get("validators") is None else "(Some %s)" % glist([X.gNn(v) for v in c["validators"]]))
            for n, c in sorted(self.chains.items()) if c.get("registered")])

    def grules(self):
        return glist(["(%s, %s)" % (X.gNn(cnum(n)), glist(["{| r_addr := %s; r_available := %s; r_master := %s |}" % (X.gNn(a), gbool(av), gbool(ms)) for a, av, ms in c.get("rules", [])]))
                      for n, c in sorted(self.chains.items())])


def cnum(name):
    if name.isdigit():
        return int(name)
    return X.chain_id(name)


def gibtp(i, pid, proofhash):
    fb, fc, _ = i["from"].split(":")
    tb, tc, _ = i["to"].split(":")
    return ("{| ib_id := %s; ib_from_bxh := %s; ib_from_chain := %s; ib_to_bxh := %s; ib_to_chain := %s; ib_is_req := %s; ib_proofhash := %s |}" % (
        X.gNn(pid), X.gNn(int(fb)), X.gNn(cnum(fc)), X.gNn(int(tb)), X.gNn(cnum(tc)), gbool(i["type"] == 0), X.gNn(proofhash)))


def sig_id(s):
    """signature spec of the driver -> abstract signature number (see Model/ProofCheck.v c_recover)"""
    if s == "bad":
        return 4 * 900 + 1
    if s.startswith("wrongmsg:"):
        return 4 * X.acct_id(s[9:]) + 2
    return 4 * X.acct_id(s)


def gproof(p, pnum):
    """p: driver proof spec; pnum: abstract name of the bytes"""
    if p["kind"] == "absent":
        return "PdAbsent"
    if p["kind"] == "multisig":
        return "(PdBytes %s (Some {| bp_status := %s; bp_sigs := %s |}))" % (X.gNn(pnum), X.gNn(p.get("status", 0)), glist([X.gNn(sig_id(s)) for s in p["signers"]]))
    return "(PdBytes %s None)" % X.gNn(pnum)


class Namer:
    def __init__(self):
        self.n = 10

    def proof(self, odd):
        self.n += 2
        return self.n + (1 if odd else 0)


# ----------------------------------------------------------------------------- proof-defect stream

CHAINS = {
    "chainA": dict(rule="happy"), "chainB": dict(rule="happy"),
    "chainF": dict(rule="fabric"), "chainS": dict(rule="simfab"),
    "chainW": dict(rule=X.RULE_WASM_ADDR), "chainN": dict(rule="none"),
    "chainP": dict(rule="happy", rstatus="binding"),
    "chainM": dict(rules=[["fabric", "logouting"], ["happy", "available"], ["fabric", "available"]]),
    "chainE": dict(rule="0x00000000000000000000000000000000000000e9"),
}


def seed_steps():
    st = []
    for n, kw in CHAINS.items():
        st.append(dict({"op": "seed_chain", "chain": n}, **kw))
        st.append({"op": "seed_service", "chain": n, "svc": "svc1", "ordered": True})
    st.append({"op": "set_wasm_rule", "acct": "x:" + X.RULE_WASM_ADDR, "hex": X.WASM_FIRSTBYTE})
    st.append({"op": "seed_chain", "chain": "1357", "relay": True, "trust": ["v:0", "v:1", "v:2", "v:3"]})
    return st


def ibtp_op(nm, frm, src, index, pkind="ok", typ=0, dst="chainB", handles=True, wasm_accept=True, to_contract=None):
    """an IBTP transaction src:svc1 -> dst:svc1 with the given proof kind; returns the op with its proof description"""
    i = X.ibtp(index, frm="1356:%s:svc1" % src, to="1356:%s:svc1" % dst, typ=typ)
    pnum = nm.proof(odd=wasm_accept)
    proof = {"kind": "ok" if pkind in ("ok",) else pkind}
    hash_ok = pkind != "mismatch"
    if pkind == "ok":
        proof = {"kind": "hex", "hex": (b"1" if wasm_accept else b"0").hex() + ("%08x" % pnum).encode().hex()}
    tx = {"t": "ibtp", "from": frm, "ibtp": i, "proof": proof}
    if to_contract:
        tx["to"] = to_contract
    notify = dst if typ == 0 else src
    prog = ("ev", [(cnum(notify), False)], ("done",)) if handles else ("fail", False)
    return dict(tx=tx, frm=frm, body=("ibtp", prog), invalid=False, tag="ibtp_%s_%s" % (src, pkind),
                pdesc=dict(ibtp=i, pnum=pnum, proofhash=pnum if hash_ok else pnum + 100000, proof=proof))


def gen_proof_history(r, quick, nm):
    script = [("pre", s) for s in seed_steps()] + [("pre", {"op": "fund", "acct": "u:%d" % u, "amt": "10000000000000"}) for u in range(4)]
    script.append(("block", [], {}))
    nexti = {}
    pending_receipts = []
    for _ in range(r.randrange(2, 5 if quick else 8)):
        if r.random() < 0.25:
            # rule / registration changes take effect for the next block
            ch = r.choice(["chainA", "chainF", "chainP", "chainN"])
            step = r.choice([dict({"op": "seed_chain", "chain": ch}, **CHAINS[ch]), {"op": "seed_chain", "chain": ch, "rule": "happy"},
                             {"op": "seed_chain", "chain": ch, "rule": "fabric"}, {"op": "seed_chain", "chain": ch, "rule": "happy", "rstatus": "logouting"},
                             {"op": "seed_chain", "chain": ch, "rule": "none"}, {"op": "drop_chain", "chain": ch}])
            script.append(("pre", step))
        ops = []
        for _ in range(r.randrange(1, 5)):
            frm = "u:%d" % r.randrange(4)
            k = r.random()
            if k < 0.15 and pending_receipts:
                src, idx = pending_receipts.pop(0)
                pk = r.choice(["ok", "ok", "absent", "mismatch"])
                ops.append(ibtp_op(nm, frm, src, idx, pk, typ=1, handles=True))
                if pk != "ok":
                    pending_receipts.insert(0, (src, idx))
                continue
            src = r.choice(list(CHAINS.keys()) + ["chainU", "chainA", "chainA"])
            if src == "chainB":
                src = "chainA"
            pk = r.choice(["ok", "ok", "ok", "absent", "mismatch"])
            idx = nexti.get(src, 1)
            if r.random() < 0.15:
                ops.append(ibtp_op(nm, frm, src, idx + 2, pk, handles=False))
                continue
            if src == "chainW" and pk == "ok" and r.random() < 0.0:
                pass
            op = ibtp_op(nm, frm, src, idx, pk, handles=True, to_contract="c:store" if r.random() < 0.05 else None)
            if op["tx"].get("to"):
                op["body"] = ("ibtp", ("touch", X.CID["store"], ("fail", False)))
            ops.append(op)
            op["advance"] = (src, idx)
        script.append(("block", ops, {}))
        # bookkeeping of expected indexes happens in build (needs the verdicts); approximate here: a request advances
        # the index when its proof is ok and the rule of the chain accepts (known statically for the unchanged chains)
        for op in ops:
            adv = op.get("advance")
            if adv and op["pdesc"]["proof"]["kind"] == "hex" and not op["tx"].get("to"):
                op["maybe_advance"] = adv
        # resolved later in resolve_script
    return dict(cfg=dict(admins=4, gas=0, audit=False, bal="1000000000000000", proof=r.choice(["", "parallel"])), script=script)


def call_op(frm, contract, method, args, ok=True, tag="gov_call"):
    return dict(tx={"t": "bvm", "from": frm, "to": "c:" + contract, "m": method, "args": args}, frm=frm,
                body=("bvm", ("done",) if ok else ("fail", False)), invalid=False, tag=tag)


def gen_governed(r, nm, variant):
    """GOVERNED rule history: a chain whose master rule is not the first list entry (the accept-everything
    rule is always registered at index 0); its admin proposes UpdateMasterRule to that earlier rule through the
    real RuleManager, the governance admins reject (or approve); then a junk proof is checked directly and
    inside a block.  The rule list used by the model is read back from the real contract state."""
    master = r.choice(["fabric", "simfab"])
    decision = variant
    script = [("pre", s) for s in X.SEED2]
    script += [("pre", {"op": "seed_chain", "chain": "chainG", "rules": [["happy", "bindable", "no"], [master, "available", "master"]]}),
               ("pre", {"op": "seed_service", "chain": "chainG", "svc": "svc1", "ordered": True}),
               ("pre", {"op": "seed_appchain_admin", "chain": "chainG", "acct": "u:5"}),
               ("pre", {"op": "fund", "acct": "u:5", "amt": "5"}), ("pre", {"op": "fund", "acct": "u:1", "amt": "5"}),
               ("block", [], {}), ("rules", "chainG")]

    def junk(tag):
        return ibtp_op(nm, "u:1", "chainG", 1, "ok", handles=True)
    j = junk("before")
    script += [("check", dict(tx=j["tx"], pdesc=j["pdesc"]), None)]
    script += [("block", [call_op("u:5", "rule", "UpdateMasterRule", [["s", "chainG"], ["s", HAPPY_ADDR], ["s", "r"]], tag="update_master_rule")], {}),
               ("rules", "chainG")]
    j = junk("pending")
    script += [("check", dict(tx=j["tx"], pdesc=j["pdesc"]), None)]
    voters = ["a:0", "a:1", "a:2"] if decision == "approve" else ["a:0", "a:1"]
    for v in voters:
        script.append(("block", [call_op(v, "governance", "Vote", [["pid", "u:5", 0], ["s", decision], ["s", "r"]], tag="vote_" + decision)], {}))
    script.append(("rules", "chainG"))
    j = junk("after")
    script += [("check", dict(tx=j["tx"], pdesc=j["pdesc"]), None)]
    j2 = junk("after_block")
    if decision == "reject":
        j2["body"] = ("ibtp", ("done",))
    script.append(("block", [j2], {}))
    return dict(cfg=dict(admins=4, gas=0, audit=False, bal="1000000000000000"), script=script, governed=decision)


def gen_parallel(nm, size):
    """parallel proof grouping: a block of [size] transactions per position of one IBTP with a forged proof"""
    script = [("pre", s) for s in X.SEED2] + [("pre", {"op": "fund", "acct": "u:%d" % u, "amt": "10000000000000"}) for u in range(3)]
    script.append(("block", [], {}))
    ids = X.Ids()
    for pos in range(size):
        ops = []
        for i in range(size):
            if i == pos:
                ops.append(ibtp_op(nm, "u:1", "chainA", 1, "mismatch" if (pos + size) % 2 else "absent"))
            else:
                ops.append(X.op_store_set(ids, "u:%d" % (i % 3), "k%d" % i, 10 * size + i))
        script.append(("block", ops, {}))
    return dict(cfg=dict(admins=4, gas=0, audit=False, bal="1000000000000000", proof="parallel"), script=script)


def chain_accepts(world, src):
    c = world.chains.get(src)
    if not c or not c.get("registered"):
        return False
    for a, av, _ in c.get("rules", []):
        if av:
            return a in (1, 4)
    return False


def resolve_script(g):
    """fix the expected index bookkeeping by walking the script with the world (a request that will be
    accepted advances the per-source index; later requests of the same source are renumbered)"""
    world = World()
    nexti = {}
    for item in g["script"]:
        if item[0] == "pre":
            world.seed(item[1])
        elif item[0] == "block":
            acc_in_block = []
            for op in item[1]:
                adv = op.pop("maybe_advance", None)
                op.pop("advance", None)
                i = op["tx"].get("ibtp")
                if not i or i["type"] != 0 or op["tx"].get("to"):
                    continue
                src = i["from"].split(":")[1]
                want = nexti.get(src, 1)
                ok_proof = op["pdesc"]["proof"]["kind"] == "hex"
                accepted = ok_proof and chain_accepts(world, src)
                if op["body"][1][0] == "fail":          # deliberately wrong index
                    i["index"] = want + 2
                    continue
                i["index"] = want
                if accepted:
                    nexti[src] = want + 1
    return g


def to_history(g):
    steps = []
    for item in g["script"]:
        if item[0] == "pre":
            steps.append(item[1])
        elif item[0] == "block":
            steps.append(X.blk([o["tx"] for o in item[1]], **item[2]))
        elif item[0] == "check":
            steps.append({"op": "checkproof", "tx": item[1]["tx"]})
        elif item[0] == "restart":
            steps.append({"op": "restart"})
        elif item[0] == "rules":
            steps.append({"op": "rules", "chain": item[1]})
    return {"cfg": g["cfg"], "steps": steps, "timeout_ms": 90000}


def build_proof_rows(g, out, flagsets, ids):
    rows = []
    steps = out.get("steps") or []
    hist = to_history(g)
    run = X.Run(hist, out, ids)
    world = World()
    first_block = True
    for si, item in enumerate(g["script"]):
        if si >= len(steps):
            rows.append((None, dict(block=si, problem="missing step (crash?)", tags=[o["tag"] for o in item[1]] if item[0] == "block" else [])))
            break
        ob = steps[si]
        if item[0] == "pre":
            world.seed(item[1])
            run.sh.apply_pre(item[1])
            continue
        if item[0] == "rules":
            world.readback(item[1], ob.get("rules"))
            continue
        if item[0] != "block":
            continue
        if first_block:
            first_block = False
            run.sh.apply_block(ob)
            continue
        ops = item[1]
        if ob.get("hang") or ob.get("receipts") is None:
            rows.append((None, dict(block=si, problem="hang", tags=[o["tag"] for o in ops])))
            break
        xrow, info = run.xcase(ob, ops, flagsets, int(g["cfg"]["bal"]), g["cfg"]["gas"], opaque=True)
        run.sh.apply_block(ob)
        descs = []
        for o in ops:
            d = o.get("pdesc")
            if d is None:
                descs.append("None")
            else:
                descs.append("(Some {| pd_chains := %s; pd_rules := %s; pd_ibtp := %s; pd_proof := %s |})" % (
                    world.gchains(), world.grules(), gibtp(d["ibtp"], d["pnum"], d["proofhash"]), gproof(d["proof"], d["pnum"])))
        row = "{| pc_bxh := %s; pc_descs := %s; pc_frame := %s |}" % (X.gNn(X.BXH), glist(descs), xrow)
        info.update(block=si, tags=[o["tag"] for o in ops], nontrivial=any(info["recs"]) and not all(info["recs"]),
                    errs=[rc[1] for rc in ob["receipts"]])
        rows.append((row, info))
    return hist, rows


PPRE = "From BX Require Import Base.Prelude Model.Fees Model.ExecFrame Model.ProofCheck.\nLocal Open Scope N_scope.\n"


# ----------------------------------------------------------------------------- multisig differential

def gen_multisig(r, quick, nm):
    """direct CheckProof calls with real signatures: validator sets of several sizes, signer lists with
    duplicates, strangers, junk and signatures over another message"""
    cases = []
    for n in ([0, 1, 2, 3, 4, 5, 7] if not quick else [0, 1, 3, 4, 7]):
        trust = VKEYS[:n]
        script = [("pre", {"op": "seed_chain", "chain": "1357", "relay": True, "trust": trust}),
                  ("pre", {"op": "seed_chain", "chain": "chainB"}), ("block", [], {})]
        world_steps = [s[1] for s in script if s[0] == "pre"]
        pool = trust + ["v:9", "v:10", "bad"] + ["wrongmsg:" + t for t in trust[:2]]
        for _ in range(20 if quick else 80):
            k = r.randrange(0, n + 4)
            signers = [r.choice(pool) for _ in range(k)] if pool else []
            if r.random() < 0.3 and trust:
                signers = r.sample(trust, min(len(trust), r.randrange(0, n + 1))) + signers[:2]
            i = X.ibtp(1, frm="1357:chainX:svc1", to="1356:chainB:svc1", payload="content:foo")
            pnum = nm.proof(True)
            proof = {"kind": "multisig", "signers": signers, "status": r.choice([0, 1, 3])}
            hash_ok = r.random() < 0.9
            if not hash_ok:
                proof["hash_of"] = "00"
            script.append(("check", dict(tx={"t": "ibtp", "from": "u:1", "ibtp": i, "proof": proof},
                                         pdesc=dict(ibtp=i, pnum=pnum, proofhash=pnum if hash_ok else pnum + 100000, proof=proof)), world_steps))
        cases.append(dict(cfg=dict(admins=4, gas=0, audit=False, bal="1000000000000000"), script=script))
    return cases


def build_verify_rows(g, out):
    rows = []
    steps = out.get("steps") or []
    world = World()
    for si, item in enumerate(g["script"]):
        if si >= len(steps):
            break
        if item[0] == "pre":
            world.seed(item[1])
        if item[0] == "rules":
            world.readback(item[1], steps[si].get("rules"))
        if item[0] != "check":
            continue
        ob = steps[si]
        d = item[1]["pdesc"]
        obs = 0 if ob.get("ok") else (1 if ob.get("errnil") else 2)
        row = "(%s, {| pd_chains := %s; pd_rules := %s; pd_ibtp := %s; pd_proof := %s |}, %s)" % (
            X.gNn(X.BXH), world.gchains(), world.grules(), gibtp(d["ibtp"], d["pnum"], d["proofhash"]), gproof(d["proof"], d["pnum"]), X.gNn(obs))
        rows.append((row, dict(step=si, signers=d["proof"].get("signers"), nvals=len((world.chains.get("1357") or {}).get("validators") or []), obs=obs, cls=ob.get("cls"))))
    return rows


# ----------------------------------------------------------------------------- entry points

def entry_script(ops):
    """ops: list of ("ibtp", verified, handles) | ("data", handles) | ("emit", handles) | ("init",) | ("restart",)"""
    script = [("pre", s) for s in X.SEED2] + [("pre", {"op": "fund", "acct": "u:1", "amt": "1000000"}), ("block", [], {})]
    nexti = 1
    for op in ops:
        if op[0] == "ibtp":
            idx = nexti if op[2] else nexti + 2
            tx = {"t": "ibtp", "from": "u:1", "ibtp": X.ibtp(idx), "proof": {"kind": "ok" if op[1] else "mismatch"}}
            script.append(("block", [dict(tx=tx, tag="entry_ibtp")], {}))
            if op[1] and op[2]:
                nexti += 1
        elif op[0] == "data":
            idx = nexti if op[1] else nexti + 2
            tx = {"t": "bvm", "from": "u:1", "to": "c:interchain", "m": "HandleIBTPData", "args": [["ibtp", X.ibtp(idx)]]}
            script.append(("block", [dict(tx=tx, tag="entry_data")], {}))
            op = ("data", op[1], idx)
        elif op[0] == "emit":
            tx = {"t": "bvm", "from": "u:1", "to": "c:interbroker", "m": "EmitInterchain",
                  "args": [["s", "1356:chainA:svc1"], ["s", "1356:chainB:svc1"], ["s", "f,g,h"], ["s", "a"], ["s", "b"], ["s", "c"]]}
            script.append(("block", [dict(tx=tx, tag="entry_emit")], {}))
        elif op[0] == "init":
            tx = {"t": "bvm", "from": "u:2", "to": "c:interchain", "m": "InitServiceCache", "args": []}
            script.append(("block", [dict(tx=tx, tag="entry_init")], {}))
        elif op[0] == "restart":
            script.append(("restart",))
    return dict(cfg=dict(admins=4, gas=0, audit=False, bal="1000000000000000"), script=script, entry_ops=ops)


def gen_entry(r, quick):
    out = [entry_script([("init",), ("data", True)]),
           entry_script([("data", True), ("init",), ("data", True), ("restart",), ("data", True)]),
           entry_script([("init",), ("emit", True)]),
           entry_script([("emit", True)]),
           entry_script([("ibtp", True, True), ("ibtp", False, True), ("init",), ("ibtp", True, True), ("data", True)])]
    for _ in range(15 if quick else 120):
        ops = []
        for _ in range(r.randrange(2, 7)):
            k = r.random()
            if k < 0.3:
                ops.append(("ibtp", r.random() < 0.6, r.random() < 0.8))
            elif k < 0.55:
                ops.append(("data", r.random() < 0.8))
            elif k < 0.7:
                ops.append(("emit", True))
            elif k < 0.88:
                ops.append(("init",))
            else:
                ops.append(("restart",))
        out.append(entry_script(ops))
    return out


def build_entry_row(g, out, eflagsets):
    """EmitInterchain numbers its own IBTPs (OutCounter), so whether the contract accepts depends on the history:
    the abstract [handles] bit of an emit step is taken from a shadow of both counters"""
    steps = out.get("steps") or []
    ops, obs = [], []
    si = len([s for s in g["script"] if s[0] == "pre"]) + 1
    nexti, out_counter = 1, 0
    for op in g["entry_ops"]:
        if si >= len(steps):
            return None, dict(problem="missing step (crash?)")
        ob = steps[si]
        si += 1
        if op[0] == "restart":
            ops.append("ERestart")
            obs.append("(true, false)")
            continue
        rc = (ob.get("receipts") or [[1]])[0]
        ok = rc[0] == 0
        processed = any(s[0] == "c:interchain" and s[1].startswith("service-1356:chainA:svc1") for s in (ob.get("state") or [])) or bool(ob.get("counter"))
        if op[0] == "ibtp":
            ops.append("(EIbtpTx %s %s)" % (gbool(op[1]), gbool(op[2])))
            if op[1] and op[2]:
                nexti += 1
        elif op[0] == "data":
            ops.append("(EHandleData %s)" % gbool(op[1]))
            if ok and processed:
                nexti += 1
        elif op[0] == "emit":
            handles = (out_counter + 1 == nexti)
            ops.append("(EEmit %s)" % gbool(handles))
            if ok:
                out_counter += 1
                if processed:
                    nexti += 1
            # a failed EmitInterchain is reverted, its counter does not advance
        elif op[0] == "init":
            ops.append("EInitCache")
        obs.append("(%s, %s)" % (gbool(ok), gbool(processed)))
    row = "{| ec_cfgs := %s; ec_ops := %s; ec_obs := %s |}" % (glist([gecfg(f) for f in eflagsets]), glist(ops), glist(obs))
    return row, dict(ops=g["entry_ops"], obs=obs)


# ----------------------------------------------------------------------------- run

def flag_setup():
    open_map = X.open_flags(["C03", "C07", "C14", "C08"])
    xflagsets = X.subsets([f for f in X.XFLAGS + X.FFLAGS if f in open_map])
    eflagsets = X.subsets([f for f in EFLAGS if f in open_map])
    return open_map, xflagsets, eflagsets


def crash_corpus(nm):
    """rule answers plain false: the unchanged code crashes in the proof goroutine (also a C08 finding)"""
    g = dict(cfg=dict(admins=4, gas=0, audit=False, bal="1000000000000000"),
             script=[("pre", s) for s in seed_steps()] + [("pre", {"op": "fund", "acct": "u:0", "amt": "10000000000000"}), ("block", [], {}),
                                                         ("block", [ibtp_op(nm, "u:0", "chainW", 1, "ok", wasm_accept=False)], {})])
    return g


def run(ctx):
    ctx.proofs(["Proofs/ProofCheckProofs", "Proofs/ExecFrameProofs"], model_targets=["Fees", "ExecFrame", "Sites", "ProofCheck"])
    exe, err = vlib.build_harness("execframe")
    if exe is None:
        ctx.broken("harness-build", err)
        return ctx.finish(rule="-")
    open_map, xflagsets, eflagsets = flag_setup()
    ids, nm = X.Ids(), Namer()
    if ctx.model_ok:
        pitems = [crash_corpus(nm)] + [gen_parallel(nm, size) for size in range(6, 14)]
        gitems = [gen_governed(ctx.rng, nm, v) for v in (["reject", "approve"] if ctx.quick else ["reject", "approve"] * 6)]
        pitems += gitems
        pitems += [resolve_script(gen_proof_history(ctx.rng, ctx.quick, nm)) for _ in range(100 if ctx.quick else 1500)]
        mitems = gen_multisig(ctx.rng, ctx.quick, nm) + gitems        # the governed histories also contain direct CheckProof steps
        eitems = gen_entry(ctx.rng, ctx.quick)
        allg = pitems + mitems + eitems
        outs, e = X.run_histories(exe, [to_history(g) for g in allg])
        if outs is None:
            ctx.broken("driver:execframe", e)
            return ctx.finish(rule="-")
        po, mo, eo = outs[:len(pitems)], outs[len(pitems):len(pitems) + len(mitems)], outs[len(pitems) + len(mitems):]
        ctx.extra["governed_rule_histories"] = len(gitems)
        ctx.extra["parallel_grouping_blocks"] = sum(range(6, 14))
        # --- proof defects through block execution
        flat = []
        for g, out in zip(pitems, po):
            hist, rows = build_proof_rows(g, out, xflagsets, ids)
            for row, info in rows:
                flat.append((g, hist, out, row, info))
        vs, msg = vlib.coq_judge_sharded("C03_proof", PPRE, "pcase", "judge_proof", [f[3] for f in flat if f[3] is not None], shard=40)
        if vs is None:
            ctx.broken("correspondence:judge_proof", msg)
        else:
            it = iter(vs)
            kinds = {}
            for g, hist, out, row, info in flat:
                v = next(it) if row is not None else (2, 900)
                for t in info.get("tags", []):
                    kinds[t] = kinds.get(t, 0) + 1
                blk = hist["steps"][info["block"]] if info["block"] < len(hist["steps"]) else None
                ctx.count(case_key=json.dumps(["p", blk], sort_keys=True), nontrivial=info.get("nontrivial", False),
                          sample=dict(driver="execframe", kind="proof", tags=info.get("tags"), errs=info.get("errs"), verdict=v))
                ctx.traces_validated += 1
                rep = dict(property=PID, kind="proof", g=g, history=hist, block=info.get("block"), verdict=v, info=info, panic=out.get("panic"), site=out.get("site"))
                if info.get("problem"):
                    if "rule-false" in [f.get("flag") for f in open_map.values() if f["property"] == PID] and any("chainW" in t for t in info.get("tags", [])) and out.get("crash"):
                        ctx.known(open_map["rule_false"]["id"], open_map["rule_false"]["what"]) if "rule_false" in open_map else None
                        continue
                    if "rule_false" in open_map and out.get("crash") and "verifyProofs" in json.dumps(out.get("site")):
                        ctx.known(open_map["rule_false"]["id"], open_map["rule_false"]["what"])
                        continue
                    ctx.violation("node crashed / hung while verifying or executing an IBTP: %s" % (out.get("panic") or info["problem"]), rep)
                    continue
                kind = X.handle_verdict(ctx, PID, v, xflagsets, open_map, "an IBTP without a verified proof changed state or got a SUCCESS receipt", rep,
                                        relevant=set(X.XFLAGS))
                if kind == "mismatch":
                    ctx.broken("correspondence:judge_proof", "first differing block: replay=%s %s" % (X.save_mismatch(ctx, rep), json.dumps(rep)[:600]))
                elif kind == "domain":
                    ctx.broken("correspondence:judge_proof(domain)", json.dumps(rep)[:800])
            ctx.extra["proof_distribution"] = kinds
        # --- multisig differential
        mrows = []
        for g, out in zip(mitems, mo):
            for row, info in build_verify_rows(g, out):
                mrows.append((g, row, info))
        vs, msg = vlib.coq_judge_sharded("C03_verify", PPRE, "N * pdesc * N", "judge_verify", [m[1] for m in mrows], shard=200)
        if vs is None:
            ctx.broken("correspondence:judge_verify", msg)
        else:
            acc = 0
            for (g, row, info), v in zip(mrows, vs):
                acc += 1 if info["obs"] == 0 else 0
                ctx.count(case_key=json.dumps(["m", info["nvals"], info["signers"], row[-40:]]), nontrivial=len(info["signers"] or []) >= 2,
                          sample=dict(driver="execframe", kind="multisig", validators=info["nvals"], signers=info["signers"], impl=info["cls"], verdict=v))
                ctx.traces_validated += 1
                rep = dict(property=PID, kind="verify", g=g, step=info["step"], verdict=v, info=info)
                if v[0] == 2 and v[1] == 2:
                    ctx.violation("CheckProof accepted an IBTP although the chain's current MASTER rule does not accept its proof", rep)
                elif v[0] == 2:
                    ctx.violation("CheckProof accepted a relayed IBTP without more than (n-1)/3 distinct registered signers", rep)
                elif v[0] != 0:
                    ctx.broken("correspondence:judge_verify", "first differing case: replay=%s %s" % (X.save_mismatch(ctx, rep), json.dumps(rep)[:600]))
            ctx.extra["multisig"] = dict(cases=len(mrows), accepted=acc)
        # --- entry points
        erows = []
        for g, out in zip(eitems, eo):
            row, info = build_entry_row(g, out, eflagsets)
            erows.append((g, out, row, info))
        vs, msg = vlib.coq_judge_sharded("C03_entry", PPRE, "ecase", "judge_entry", [x[2] for x in erows if x[2] is not None], shard=200)
        if vs is None:
            ctx.broken("correspondence:judge_entry", msg)
        else:
            it = iter(vs)
            for g, out, row, info in erows:
                v = next(it) if row is not None else (2, 900)
                ctx.count(case_key=json.dumps(["e", g["entry_ops"]]), nontrivial=True,
                          sample=dict(driver="execframe", kind="entry", ops=g["entry_ops"], obs=info.get("obs"), verdict=v))
                ctx.traces_validated += 1
                rep = dict(property=PID, kind="entry", g=g, verdict=v, info=info, panic=out.get("panic"))
                if row is None:
                    ctx.violation("node crashed / hung on an entry-point history", rep)
                    continue
                kind = X.handle_verdict(ctx, PID, v, eflagsets, open_map, "an IBTP was processed without a verified proof through a plain invocation", rep)
                if kind == "mismatch":
                    ctx.broken("correspondence:judge_entry", "first differing history: replay=%s %s" % (X.save_mismatch(ctx, rep), json.dumps(rep)[:600]))
    return ctx.finish(rule="(a) blocks of IBTP transactions (requests and receipts) from chains whose master rule accepts / errors (Fabric, SimFabric fed junk; "
                           "missing code) / answers by the first proof byte (wasm) / is missing / not available / second in the list, from unregistered chains, with "
                           "proofs absent / hash-mismatching / fine, wrong indexes, foreign tx.To, rule and registration changes between blocks; "
                           "(b) direct CheckProof calls with real secp256k1 signatures over 0..7 validators x signer lists with duplicates, strangers, junk, signatures "
                           "over another digest; (c) histories over {IBTP tx, HandleIBTPData, EmitInterchain, InitServiceCache, restart}; "
                           "non-trivial = (a) block with accepted and rejected IBTPs, (b) at least two signatures, (c) every history; distinct by content")


def replay(ctx, path):
    obj = json.load(open(path))
    exe, err = vlib.build_harness("execframe")
    g = obj["g"]
    for item in g["script"]:
        if item[0] == "block":
            for o in item[1]:
                if "body" in o:
                    o["body"] = X.tuplify(o["body"])
    outs, e = X.run_histories(exe, [to_history(g)])
    if outs is None:
        print(e)
        return 1
    open_map, xflagsets, eflagsets = flag_setup()
    if obj["kind"] == "proof":
        hist, rows = build_proof_rows(g, outs[0], xflagsets, X.Ids())
        vs, msg = vlib.coq_judge_sharded("C03_proof_r", PPRE, "pcase", "judge_proof", [r for r, _ in rows if r is not None])
    elif obj["kind"] == "verify":
        rows = build_verify_rows(g, outs[0])
        vs, msg = vlib.coq_judge_sharded("C03_verify_r", PPRE, "N * pdesc * N", "judge_verify", [r for r, _ in rows])
    else:
        row, info = build_entry_row(g, outs[0], eflagsets)
        vs, msg = vlib.coq_judge_sharded("C03_entry_r", PPRE, "ecase", "judge_entry", [row] if row else [])
    print(json.dumps(dict(crash=outs[0].get("crash"), panic=outs[0].get("panic"), verdicts=vs, msg=msg[-300:])))
    return 1 if vs is None or outs[0].get("crash") or any(v[0] != 0 for v in vs) else 0
