"""Helpers of checks/C17.py: reader of the generated surface table and the typed argument pools."""
import os
import re


# ----------------------------------------------------------------------------- Gallina literal reader

def _tokens(s):
    i, n = 0, len(s)
    while i < n:
        c = s[i]
        if c.isspace():
            i += 1
        elif c in "()[];,":
            yield c
            i += 1
        elif c == '"':
            j = i + 1
            out = []
            while True:
                if s[j] == '"':
                    if j + 1 < n and s[j + 1] == '"':
                        out.append('"')
                        j += 2
                        continue
                    break
                out.append(s[j])
                j += 1
            yield ("str", "".join(out))
            i = j + 1
        else:
            m = re.match(r"[A-Za-z0-9_%']+", s[i:])
            if not m:
                raise ValueError("bad literal at %r" % s[i:i + 30])
            w = m.group(0)
            if w in ("true", "false"):
                yield ("bool", w == "true")
            elif re.match(r"^\d+(%N|%nat)?$", w):
                yield ("num", int(re.match(r"\d+", w).group(0)))
            else:
                yield ("id", w)
            i += len(w)


def parse_literal(s):
    toks = list(_tokens(s))
    pos = [0]

    def val():
        t = toks[pos[0]]
        pos[0] += 1
        if t == "[":
            out = []
            if toks[pos[0]] == "]":
                pos[0] += 1
                return out
            while True:
                out.append(val())
                t2 = toks[pos[0]]
                pos[0] += 1
                if t2 == "]":
                    return out
                if t2 != ";":
                    raise ValueError("expected ; or ] got %r" % (t2,))
        if t == "(":
            out = [val()]
            while True:
                t2 = toks[pos[0]]
                pos[0] += 1
                if t2 == ")":
                    return tuple(out) if len(out) > 1 else out[0]
                if t2 != ",":
                    raise ValueError("expected , or ) got %r" % (t2,))
                out.append(val())
        if isinstance(t, tuple):
            return t[1]
        raise ValueError("unexpected token %r" % (t,))

    v = val()
    return v


def read_definition(text, name):
    m = re.search(r"Definition %s\b[^:]*:[^=]*:=\s*(.*?)\.\s*(?:\n\n|\n\(\*|\Z)" % re.escape(name), text, re.S)
    if not m:
        raise ValueError("definition %s not found" % name)
    return parse_literal(m.group(1))


class Method:
    __slots__ = ("contract", "name", "origin", "params", "nres", "resp", "guard", "pnames")

    def __init__(self, t):
        (self.contract, self.name, self.origin, self.params, self.nres, self.resp, g) = t
        self.guard = dict(zip(("kind", "impl", "perms", "specific", "target", "regulator", "via", "pre", "cmp"), g))
        self.pnames = []

    def key(self):
        return (self.contract, self.name)


def read_surface(gen_dir):
    text = open(os.path.join(gen_dir, "Gen_Surface.v")).read()
    contracts = read_definition(text, "contracts")
    ms = [Method(t) for t in read_definition(text, "surface")]
    names = {(c, m): ns for c, m, ns in read_definition(text, "surface_param_names")}
    for m in ms:
        m.pnames = names.get(m.key(), [])
    return contracts, ms


# ----------------------------------------------------------------------------- argument pools
#
# World built by the driver (harness/surface): appchains chainA ($ADMA) / chainB ($ADMB), services chainA:svcA /
# chainB:svcB, nvp node $NODE, governance admins $GOV0 $GOV1, outsider $OUT, fresh account $NEW, open proposal $P0
# (freeze of chainB:svcB), accepted request $BXH:chainA:svcA -> $BXH:chainB:svcB index 1, Store key "k".

FULL_A = "$BXH:chainA:svcA"
FULL_B = "$BXH:chainB:svcB"
TXID = FULL_A + "-" + FULL_B + "-1"
HAPPY_RULE = "0x00000000000000000000000000000000000000a2"

# plausible values per parameter name (first = the value a legitimate caller would most likely pass)
BY_NAME = {
    "id": ["chainA", "$P0", "chainA:svcA", FULL_A, "$GOV1"],
    "objId": ["chainA", "chainA:svcA", "$GOV1", "$NODE"],
    "chainID": ["chainA", "chainB"], "chainId": ["chainA"], "appchainID": ["chainA"], "appchainId": ["chainA"],
    "chainServiceID": ["chainA:svcA", "chainB:svcB"], "chainServiceId": ["chainA:svcA"],
    "fullServiceID": [FULL_A], "fromFullServiceID": [FULL_B], "serviceID": ["svcA", "svcNew"],
    "eventTyp": ["freeze", "register", "logout", "update", "pause"], "event": ["freeze"],
    "proposalResult": ["approve", "reject"], "lastStatus": ["available", "frozen"],
    "typ": ["service_mgr", "CallContract", "appchain_mgr"], "objLastStatus": ["available"],
    "from": ["$OUT", "$ADMA"], "reason": ["r"], "approve": ["approve", "reject"], "endReason": ["the proposal was cleared"],
    "roleId": ["$GOV1", "$NEW", "$ADMA"], "roleType": ["governanceAdmin", "auditAdmin"], "nodeAccount": ["$NODE", "$NEW"],
    "nodeId": ["$NODE"], "addr": ["$ADMA", "$NEW"], "addrs": ["$NEW"], "adminAddrs": ["$SELF", "$SELF,$NEW", "$SELF,$ADMB~lower", "$SELF,$GOV1~bare"], "account": ["$NEW", "$ADMA"],
    "txId": [TXID], "globalID": ["g1"], "ibtpID": [TXID], "key": ["bitxhub-id", "service-" + FULL_A, "k", "tx-" + TXID],
    "prefix": ["service"], "address": ["@GovernanceContractAddr", "@TransactionMgrContractAddr", "@RoleContractAddr"],
    "method": ["GetNotClosedProposals", "GetRole", "InitServiceCache", "GetAllRoles"],
    "ruleAddress": [HAPPY_RULE], "ruleAddr": [HAPPY_RULE], "newMasterRuleAddress": [HAPPY_RULE], "masterRuleAddr": [HAPPY_RULE],
    "name": ["name-chainA", "dom", "name-svcA"], "chainName": ["name-new"], "chainType": ["ETH"], "broker": ["0x857133c5C69e6Ce66F7AD46F200B9B3573e77582"],
    "desc": ["d"], "masterRuleUrl": [""], "ruleUrl": ["http://u"], "intro": ["i"], "details": ["details"], "permits": ["", FULL_B],
    "nodeType": ["nvpNode", "vpNode"], "nodePid": ["pid1"], "nodeName": ["nodeN", "nodeM"], "permitStr": ["chainA"],
    "fromServiceId": [FULL_A], "toServiceId": [FULL_B], "funcs": ["f,cb,rb"], "args": ["a"], "argsCb": ["b"], "argsRb": ["c"],
    "to": [FULL_B], "value": ["666"], "voterAddr": ["$GOV0"], "proposalId": ["$P0"], "status": ["proposed"],
    "module": ["service_mgr"], "pt": ["service_mgr"], "extra": ["", "a > 0.5 * t"], "strategyTyp": ["SimpleMajority"], "typExtra": ["a > 0.5 * t"],
    "dappID": ["$OUT-0"], "ownerAddr": ["$OUT"], "newOwnerAddr": ["$NEW"], "conAddrs": [HAPPY_RULE], "url": ["http://u"], "permits_": [""],
    "parentName": ["hub"], "sonName": ["x"], "owner": ["$OUT"], "resolver": ["@ServiceResolverContractAddr"], "serviceName": [FULL_A],
    "operator": ["@ServiceResolverContractAddr"], "des": ["d"], "dids": ["did:1"], "pierAddr": ["$ADMA"],
}
# per contract: what the parameter names mean there (the world's objects of that contract)
BY_CONTRACT = {
    "ServiceManager": {"objId": ["chainB:svcB", "chainA:svcA"], "id": ["chainA:svcA", "chainB:svcB"], "eventTyp": ["freeze", "logout", "update"],
                       "chainServiceID": ["chainA:svcA", "chainB:svcB"]},
    "AppchainManager": {"objId": ["chainA", "chainB"], "id": ["chainA", "chainB"], "eventTyp": ["freeze", "logout", "update", "register"]},
    "RuleManager": {"chainRuleID": ["chainA:" + HAPPY_RULE], "eventTyp": ["update"]},
    "RoleManager": {"objId": ["$GOV1", "$NEW"], "eventTyp": ["freeze", "register"]},
    "NodeManager": {"objId": ["$NODE"], "eventTyp": ["logout", "update"], "id": ["$NODE"]},
    "Governance": {"id": ["$P0", "$ADMA-0"], "objId": ["chainB:svcB", "chainA"], "eventTyp": ["pause", "freeze"], "typ": ["service_mgr", "appchain_mgr"],
                   "from": ["$OUT"], "num": [1]},
    "InterchainManager": {"id": [FULL_A, FULL_B], "chainServiceID": ["chainZ:svcZ", "chainA:svcA"], "key": ["bitxhub-id", "service-" + FULL_A]},
    "Store": {"key": ["k", "k2"], "value": ["v2"]},
    "TransactionManager": {"txId": [TXID, FULL_B + "-" + FULL_A + "-1"], "id": [TXID]},
    "DappManager": {"id": ["$ADMC-0"], "objId": ["$ADMC-0"], "dappID": ["$ADMC-0", "$OUT-0"]},
    "GovStrategy": {"objId": ["service_mgr"], "eventTyp": ["update"]},
}
STR_POOL = ["chainA", "chainA:svcA", FULL_A, "$P0", "$GOV1", "$ADMA", "approve", "freeze", "available", "", "junk", TXID, "bitxhub-id", "@InterchainContractAddr"]
U64_POOL = [1, 0, 2, 1000, "18446744073709551615"]
I32_POOL = [1, 2, 3, 0, 7]
F64_POOL = [3.5, 0.0, 9.0]

REGISTER_INFO = {"chain_info": {"id": "chainX", "chain_name": "name-x", "chain_type": "ETH", "trust_root": None, "broker": None, "desc": "d", "version": 0,
                                "did": "", "pub_key": None, "status": "available", "fsm": None},
                 "master_rule": {"address": HAPPY_RULE, "rule_url": "", "chain_id": "", "master": True, "builtIn": False, "create_time": 0, "status": "available", "fsm": None},
                 "admin_addrs": "$NEW"}
BNS_DATA = {"parent_name": "hub", "parent_owner": "$OUT", "son_name": "x", "owner": "$OUT", "resolver": "@ServiceResolverContractAddr", "service_name": "s"}


def bytes_pool(mname, pname):
    """typed byte arguments: an IBTP, the structured extras of the Manage callbacks, plain text, empty"""
    ibtp_req2 = ["ibtp", {"from": FULL_A, "to": FULL_B, "index": 2, "type": 0}]
    ibtp_rcpt = ["ibtp", {"from": FULL_A, "to": FULL_B, "index": 1, "type": 1}]
    if mname == "InvokeInterchain":
        return [["ibtp", {"from": FULL_B, "to": FULL_A, "index": 1, "type": 0, "payload": True}], ibtp_req2, ["b", "junk"]]
    if pname in ("input", "data") or mname in ("HandleIBTPData", "InvokeInterchain", "InvokeReceipt"):
        # well-formed first: the reverse pair with ITS next index (1 in basic and warmed worlds alike), then the forward pair
        return [["ibtp", {"from": FULL_B, "to": FULL_A, "index": 1, "type": 0}], ibtp_req2, ibtp_rcpt, ["b", "junk"]]
    if pname == "extra" and mname == "Manage":
        return [["json", REGISTER_INFO], ["json", BNS_DATA], ["b", ""]]
    if pname == "value":
        return [["b", "666"], ["b", ""]]
    return [["b", ""], ["b", "junk"], ["json", REGISTER_INFO]]


def arg_for(method, i, vec, rng):
    """argument i of `method` for vector number vec (0 = most plausible)"""
    kind = method.params[i]
    pname = method.pnames[i] if i < len(method.pnames) else "_"
    if kind in ("string", "any"):
        pool = BY_CONTRACT.get(method.contract, {}).get(pname) or BY_NAME.get(pname, STR_POOL)
        if vec < len(pool):
            return ["s", pool[vec]]
        return ["s", rng.choice(pool + STR_POOL)]
    if kind == "bytes":
        pool = bytes_pool(method.name, pname)
        return pool[vec] if vec < len(pool) else rng.choice(pool)
    if kind == "u64":
        return ["u", U64_POOL[vec] if vec < len(U64_POOL) else rng.choice(U64_POOL)]
    if kind == "i32":
        return ["i32", I32_POOL[vec] if vec < len(I32_POOL) else rng.choice(I32_POOL)]
    if kind == "i64":
        return ["i64", 1 + vec]
    if kind == "bool":
        return ["t", vec % 2 == 0]
    if kind == "f64":
        return ["f", F64_POOL[vec % len(F64_POOL)]]
    return None  # not expressible as a transaction argument


def well_typed_args(method, vec, rng):
    """a well-typed argument vector, or None when the method has a parameter no transaction can supply.
    For such methods (and for variadic ones beyond the fixed part) the nearest vector is used instead."""
    out = []
    for i, k in enumerate(method.params):
        if k.startswith("variadic:"):
            continue  # zero variadic arguments
        a = arg_for(method, i, vec, rng)
        if a is None:
            a = ["s", "junk"]  # ill-typed on purpose: reflect.Call panics
        out.append(a)
    return out
