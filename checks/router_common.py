"""Router leg shared by C02 / C05 / C06: what a pier is told (internal/router/interchain.go classify,
GetInterchainTxWrappers, PutBlockAndMeta) against Model/Router.v, judged inside Coq."""
import json
import vlib
from vlib import glist, gbool


def gen_history(r, hostile=False):
    nb = r.randrange(1, 6)
    dests = [1, 2, 3, 4]
    blocks = []
    for _ in range(nb):
        ntx = r.choice([0, 1, 2, 3, 5, 8])
        counter, timeout, multi = [], [], []
        for d in r.sample(dests, r.randrange(0, 4)):
            if ntx == 0 and not hostile:
                continue
            k = r.randrange(0, 5)
            vs = []
            for _ in range(k):
                idx = r.randrange(0, max(ntx, 1))
                if hostile and r.random() < 0.3:
                    idx = ntx + r.randrange(0, 3)
                vs.append([idx, r.randrange(2), r.randrange(2)])
            counter.append([d, vs])
        for d in r.sample(dests, r.randrange(0, 3)):
            timeout.append([d, [r.randrange(1, 50) for _ in range(r.randrange(0, 4))]])
        for d in r.sample(dests, r.randrange(0, 3)):
            multi.append([d, [r.randrange(50, 99) for _ in range(r.randrange(1, 4))]])
        blocks.append(dict(ntx=ntx, counter=counter, timeout=timeout, multi=multi, tl2=bool(timeout) and r.random() < 0.8))
    return dict(pier=r.choice(dests + [9]), mode=r.choice(["get", "put"]), blocks=blocks)


def g_vi(v):
    return "{| vi_index := %d; vi_valid := %s; vi_batch := %s |}" % (v[0], gbool(v[1]), gbool(v[2]))


def g_meta(b):
    return ("{| m_counter := %s; m_timeout := %s; m_multi := %s; m_tl2 := %s |}" % (
        glist(b["counter"], lambda kv: "(%d, %s)" % (kv[0], glist(kv[1], g_vi))),
        glist(b["timeout"], lambda kv: "(%d, %s)" % (kv[0], glist(kv[1]))),
        glist(b["multi"], lambda kv: "(%d, %s)" % (kv[0], glist(kv[1]))),
        gbool(b["tl2"])))


def g_case(h, o):
    chain, height = [], 1
    for b in h["blocks"]:
        height += 1
        txs = [height * 1000 + i for i in range(b["ntx"])]
        chain.append("({| b_height := %d; b_txs := %s |}, %s)" % (height, glist(txs), g_meta(b)))
    obs = []
    for ob in o["obs"]:
        if ob.get("crash"):
            obs.append("None")
        else:
            obs.append("(Some {| w_height := %d; w_txs := %s; w_timeout := %s; w_multi := %s; w_tl2 := %s |})" % (
                ob["h"], glist(ob["txs"] or [], lambda t: "{| vt_tx := %d; vt_valid := %s; vt_batch := %s |}" % (max(t[0], 0), gbool(t[1]), gbool(t[2]))),
                glist(ob["timeout"] or []), glist(ob["multi"] or []), gbool(ob["tl2"])))
    return "(%d, %s, %s)" % (h["pier"], glist(chain), glist(obs))


def run_router(ctx, n):
    """returns (ok, stats). Violations / broken correspondences are recorded on ctx."""
    okm, f, msg = vlib.coq_build(["theories/Proofs/RouterProofs.vo"])
    if not okm:
        ctx.broken("proof:%s" % f, msg)
    exe, err = vlib.build_harness("router")
    if exe is None:
        ctx.broken("harness-build:router", err)
        return False, {}
    r = ctx.rng
    hist = [gen_history(r, hostile=(i % 7 == 6)) for i in range(n)]
    rc, outs, e = vlib.run_driver(exe, "router", hist, timeout=900)
    if rc != 0 or len(outs) != len(hist) or any(o.get("err") for o in outs):
        ctx.broken("driver:router", (e or json.dumps([o for o in outs if o.get("err")][:1]))[-1200:])
        return False, {}
    if any(ob.get("err") for o in outs for ob in o["obs"]):
        bad = [(h, o) for h, o in zip(hist, outs) if any(ob.get("err") for ob in o["obs"])][0]
        ctx.violation("router did not answer exactly one wrapper per block", dict(property=ctx.pid, driver="router", input=bad[0], impl=bad[1]))
        return False, {}
    rows = [g_case(h, o) for h, o in zip(hist, outs)]
    vs, msg = vlib.coq_judge_sharded("router_" + ctx.pid, "From BX Require Import Base.Prelude Model.Router.\nLocal Open Scope N_scope.",
                                     "N * list (block * meta) * list (option wrapper)", "judge_router", rows, shard=150)
    if vs is None:
        ctx.broken("correspondence:judge_router", msg)
        return False, {}
    stats = dict(histories=len(hist), blocks=sum(len(h["blocks"]) for h in hist), crashes=sum(1 for o in outs for ob in o["obs"] if ob.get("crash")))
    for h, o, v in zip(hist, outs, vs):
        nontriv = any(b["counter"] or b["timeout"] or b["multi"] for b in h["blocks"])
        ctx.count(case_key=("router", json.dumps(h, sort_keys=True)), nontrivial=nontriv, sample=dict(driver="router", input=h, impl=o, verdict=v))
        ctx.traces_validated += 1
        rep = dict(property=ctx.pid, driver="router", input=h, impl=o, verdict=v)
        if v[0] == 0:
            continue
        if v[0] == 2:
            ctx.violation("router tells a pier something other than what the block's delivery metadata lists for it (block %d)" % v[1], rep)
        elif v[0] == 1:
            ctx.broken("correspondence:judge_router", "first differing case: " + json.dumps(rep)[:1500])
    ctx.extra["router"] = stats
    return True, stats


def replay_router(ctx, obj):
    exe, err = vlib.build_harness("router")
    rc, outs, e = vlib.run_driver(exe, "router", [obj["input"]])
    rows = [g_case(obj["input"], outs[0])]
    vs, msg = vlib.coq_judge_sharded("router_replay", "From BX Require Import Base.Prelude Model.Router.\nLocal Open Scope N_scope.",
                                     "N * list (block * meta) * list (option wrapper)", "judge_router", rows)
    print(json.dumps(dict(impl=outs, verdict=vs)))
    return 0 if vs and vs[0][0] == 0 else 1
