"""C10: the state root is an (injective) function of the previous root and the block's change set —
independent of write order, of whether origins came from cache or store, of a reopen — and the
transaction / receipt root commits to every leaf and position.

Theorems: Properties/C10.v.  Tie: driver "ledger" (FlushDirtyData of the real SimpleLedger; the model's
root is compared byte-exactly: address || JSON(account) || SHA-256(k1 v1 k2 v2 ...) per dirty account in
address-string order, then the previous root) and driver "merkle" (executor.calcMerkleRoot)."""
import itertools
import json
import vlib
from vlib import glist
from checks import ledger_common as lc

MODE = 11     # reads vs specification, roots, stored code hash


def gen_base(r):
    """a committed base state (0-2 blocks) the compared blocks start from"""
    ops = []
    h = 0
    for _ in range(r.randrange(0, 3)):
        for _ in range(r.randrange(1, 5)):
            a = r.randrange(3)
            c = r.random()
            if c < 0.6:
                ops.append(("set", a, r.choice(lc.KEYS), r.choice([b"v1", b"v2", b"w1", b"x", b""])))
            elif c < 0.8:
                ops.append(("setbal", a, r.choice(lc.BALS)))
            elif c < 0.9:
                ops.append(("setnonce", a, r.choice(lc.NONCES)))
            else:
                ops.append(("setcode", a, r.choice([b"c1", b"c2"])))
        h += 1
        ops += [("flush",), ("commit", h)]
    return ops, h


def gen_writes(r, n):
    """a change set: at most one write per (account, key) / account field"""
    seen = set()
    ws = []
    while len(ws) < n:
        a = r.randrange(3)
        c = r.random()
        if c < 0.55:
            k = r.choice(lc.KEYS)
            tgt, w = ("st", a, k), ("set", a, k, r.choice([None, b"v1", b"v2", b"w1", b"x", b"y", b""]))
        elif c < 0.75:
            tgt, w = ("bal", a), ("setbal", a, r.choice(lc.BALS))
        elif c < 0.9:
            tgt, w = ("nonce", a), ("setnonce", a, r.choice(lc.NONCES))
        else:
            tgt, w = ("code", a), ("setcode", a, r.choice([b"c1", b"c2", b"\x60\x00"]))
        if tgt in seen:
            continue
        seen.add(tgt)
        ws.append(w)
    return ws


def realise(r, base, h, writes, variant):
    """one history realising the change set [writes] on top of [base]"""
    pre = []
    if variant == "reopen":
        pre = [("reopen",)]
    elif variant == "evict":
        pre = [("evict", a, l, r.choice(lc.KEYS)) for a in range(3) for l in (0, 1, 3)]
    elif variant == "reads":
        pre = [("get", w[1], w[2]) for w in writes if w[0] == "set"] + [("getbal", 0), ("query", 1, b"")]
    ws = list(writes)
    if variant == "add":
        ws = [("add",) + w[1:] if w[0] == "set" else w for w in ws]
    if variant == "twice":       # intermediate values do not matter, only the final change set
        ws = [("set", w[1], w[2], b"tmp") for w in ws if w[0] == "set"] + ws
    if variant == "failed":      # failed (reverted) storage writes before / after the real ones leave no trace
        out = []
        for w in ws:
            seg = [("snap",), ("set", w[1], w[2], b"junk"), ("revert", 0), ("finalise",)] if w[0] == "set" else []
            out += (seg + [w]) if r.random() < 0.5 else ([w, ("finalise",)] + seg)
        ws = out
    return base + pre + ws + [("flush",), ("commit", h + 1)]


def perm_group(r, exhaustive=False):
    base, h = gen_base(r)
    writes = gen_writes(r, r.randrange(2, 5) if not exhaustive else 4)
    perms = list(itertools.permutations(writes))
    if not exhaustive:
        r.shuffle(perms)
        perms = perms[:4]
    group = []
    for i, p in enumerate(perms):
        variant = "plain" if exhaustive else r.choice(["plain", "reopen", "evict", "reads", "add", "twice", "failed", "failed"])
        group.append(realise(r, base, h, list(p), variant))
    return group


def perturb(r, writes):
    """single perturbation of a change set: one value / balance / nonce / code changed, one key added or dropped"""
    ws = list(writes)
    c = r.random()
    if c < 0.2 and len(ws) > 1:
        del ws[r.randrange(len(ws))]
        return ws
    if c < 0.4:
        extra = gen_writes(r, 6)
        have = {(w[0],) + tuple(w[1:3] if w[0] == "set" else w[1:2]) for w in ws}
        for w in extra:
            key = (w[0],) + tuple(w[1:3] if w[0] == "set" else w[1:2])
            if key not in have:
                return ws + [w]
        return ws[:-1] if len(ws) > 1 else ws
    i = r.randrange(len(ws))
    w = ws[i]
    if w[0] == "set":
        ws[i] = ("set", w[1], w[2], (w[3] or b"") + b"!")
    elif w[0] == "setbal":
        ws[i] = ("setbal", w[1], w[2] + 1)
    elif w[0] == "setnonce":
        ws[i] = ("setnonce", w[1], (w[2] + 1) % 2**64)
    else:
        ws[i] = ("setcode", w[1], w[2] + b"\x01")
    return ws


def perturb_group(r):
    base, h = gen_base(r)
    writes = gen_writes(r, r.randrange(1, 5))
    group = [realise(r, base, h, writes, "plain")]
    for _ in range(3):
        group.append(realise(r, base, h, perturb(r, writes), "plain"))
    return group


def noop_group(r):
    """open finding: an account write that changes nothing makes the account record part of the preimage"""
    base = [("setbal", 0, 5), ("setnonce", 0, 1), ("flush",), ("commit", 1)]
    ws = [("set", 0, r.choice(lc.KEYS), r.choice([b"v1", b"x"]))]
    return [base + ws + [("flush",), ("commit", 2)],
            base + [r.choice([("setbal", 0, 5), ("setnonce", 0, 1)])] + ws + [("flush",), ("commit", 2)]]


def nontrivial(group):
    return len(group) >= 2 and all(any(o[0] in ("set", "add", "setbal", "setnonce", "setcode") for o in h) for h in group)


# ------------------------------------------------------------------ Merkle

def rand_leaf(r):
    return bytes(r.randrange(256) for _ in range(32))


def gen_merkle_pairs(r, n):
    pairs = []
    for _ in range(n):
        k = r.choice([0, 1, 2, 3, 4, 5, 6, 7, 8, 9, 13, 16, 17])
        l = [rand_leaf(r) for _ in range(k)]
        c = r.random()
        if c < 0.3 and k >= 2:
            i, j = r.sample(range(k), 2)
            l2 = list(l)
            l2[i], l2[j] = l2[j], l2[i]                       # position change
        elif c < 0.55 and k >= 1:
            l2 = list(l)
            i = r.randrange(k)
            b = bytearray(l2[i])
            b[r.randrange(32)] ^= 1 << r.randrange(8)          # one bit of one leaf
            l2[i] = bytes(b)
        elif c < 0.7 and k >= 1:
            l2 = l[:-1]                                        # leaf dropped
        elif c < 0.85:
            l2 = l + [rand_leaf(r)]                            # leaf added
        elif k % 2 == 1:
            l2 = l + [l[-1]]                                   # odd-length duplication (open finding)
        else:
            l2 = l + [l[-1]] if k else [rand_leaf(r)]
        pairs.append((l, l2))
    return pairs


def run_merkle(ctx, exe, known, pairs):
    lines = []
    for l1, l2 in pairs:
        lines.append({"leaves": [x.hex() for x in l1]})
        lines.append({"leaves": [x.hex() for x in l2]})
    rc, outs, e = vlib.run_driver(exe, "merkle", lines)
    if rc != 0 or len(outs) != len(lines):
        ctx.broken("driver:merkle", e[-1500:])
        return
    ctx.traces_validated += len(pairs)

    def gobs(o):
        return "None" if o.get("err") or "root" not in o else "(Some %s)" % lc.gbytes(bytes.fromhex(o["root"]))
    rows = []
    for i, (l1, l2) in enumerate(pairs):
        rows.append("((%s, %s), (%s, %s))" % (glist(l1, lc.gbytes), gobs(outs[2 * i]), glist(l2, lc.gbytes), gobs(outs[2 * i + 1])))
    vs = []
    for s in range(0, len(rows), 300):
        src = ("From BX Require Import Base.Prelude Base.Sha256 Model.JsonAcct Model.Merkle.\nLocal Open Scope N_scope.\n"
               "Definition cases : list ((list bytes * option bytes) * (list bytes * option bytes)) :=\n %s.\n"
               "Definition M := Eval vm_compute in map (judge_merkle sha256) cases.\nPrint M.\n") % glist(rows[s:s + 300])
        rc, out = vlib.coq_eval("C10_merkle_%d" % (s // 300), src)
        v = vlib.parse_verdicts(out)
        if rc != 0 or v is None or len(v) != 2 * len(rows[s:s + 300]):
            ctx.broken("correspondence:judge_merkle", out[-1500:])
            return
        vs += [(v[2 * i], v[2 * i + 1]) for i in range(len(v) // 2)]
    kinds = {}
    for (l1, l2), (pb, corr) in zip(pairs, vs):
        ctx.count(case_key=hash((tuple(l1), tuple(l2))), nontrivial=len(l1) >= 2 and l1 != l2,
                  sample=dict(driver="merkle", n1=len(l1), n2=len(l2), verdict=[list(pb), list(corr)]))
        rep = dict(property="C10", driver="merkle", l1=[x.hex() for x in l1], l2=[x.hex() for x in l2],
                   verdict=dict(property_predicate=list(pb), correspondence=list(corr)))
        if pb[0] == 2:
            short, long_ = (l1, l2) if len(l1) < len(l2) else (l2, l1)
            dup = len(long_) == len(short) + 1 and len(short) % 2 == 1 and long_ == short + [short[-1]]
            if pb[1] == 2 and dup and "C10-merkle-odd-dup" in known:
                ctx.known("C10-merkle-odd-dup", known["C10-merkle-odd-dup"]["what"])
                kinds["dup"] = kinds.get("dup", 0) + 1
            else:
                ctx.violation("different leaf lists share a Merkle root" if pb[1] != 3 else "calcMerkleRoot failed", rep)
        elif corr[0] != 0:
            ctx.broken("correspondence:judge_merkle", "first differing case: " + json.dumps(rep)[:600])
        else:
            kinds["ok"] = kinds.get("ok", 0) + 1
    return kinds


def run(ctx):
    ctx.proofs(["Proofs/LedgerWitness", "Proofs/MerkleProofs"] + lc.EXTRA_PROOFS, model_targets=["StateLedger", "LedgerSpec", "Merkle"])
    exe, err = vlib.build_harness("ledger")
    if exe is None:
        ctx.broken("harness-build", err)
        return ctx.finish(rule="-")
    known = lc.known_open()
    dist = {}
    if ctx.model_ok:
        r = ctx.rng
        dist["corpus"] = lc.run_corpus(ctx, exe, "C10", MODE, known, nontrivial)
        np_, nq, nn = (60, 50, 6) if ctx.quick else (1500, 1500, 100)
        groups = [perm_group(r) for _ in range(np_)]
        groups += [perm_group(r, exhaustive=True) for _ in range(2 if ctx.quick else 40)]     # all 24 orders of 4 writes
        groups += [perturb_group(r) for _ in range(nq)]
        groups += [noop_group(r) for _ in range(nn)]
        groups += [lc.scen_reverted_setcode_root(r) for _ in range(8 if ctx.quick else 100)]
        groups += [lc.scen_failed_write_after_delete(r) for _ in range(10 if ctx.quick else 150)]
        groups += [lc.scen_created_account_storage(r) for _ in range(8 if ctx.quick else 100)]
        groups += [lc.scen_credit_existing(r) for _ in range(8 if ctx.quick else 100)]
        tot = {}
        step = 150
        for s in range(0, len(groups), step):
            st = lc.decide(ctx, exe, "C10g%d" % (s // step), groups[s:s + step], MODE, known, nontrivial=nontrivial, do_shrink=False)
            for k in st:
                tot[k] = tot.get(k, 0) + st[k]
        dist.update(permutation_groups=np_, perturbation_groups=nq, noop_groups=nn, **{"verdict_" + k: v for k, v in tot.items()})
        # SHA-256 self-test of the Gallina instance against crypto/sha256 on random inputs
        msgs = [bytes(r.randrange(256) for _ in range(r.choice([0, 1, 31, 55, 56, 63, 64, 65, 119, 120, 200, 1000]))) for _ in range(40)]
        rc, outs, e = vlib.run_driver(exe, "sha", [{"m": m.hex()} for m in msgs])
        if rc != 0 or len(outs) != len(msgs):
            ctx.broken("driver:sha", e[-500:])
        else:
            rows = ["(%s, %s)" % (lc.gbytes(m), lc.gbytes(bytes.fromhex(o["h"]))) for m, o in zip(msgs, outs)]
            src = ("From BX Require Import Base.Prelude Base.Sha256 Model.JsonAcct Model.Merkle.\nLocal Open Scope N_scope.\n"
                   "Definition cases : list (bytes * bytes) := %s.\n"
                   "Definition M := Eval vm_compute in map (fun c : bytes * bytes => if bytes_eqb (sha256 (fst c)) (snd c) then V_ok else V_mismatch 0) cases.\nPrint M.\n") % glist(rows)
            rc, out = vlib.coq_eval("C10_sha", src)
            v = vlib.parse_verdicts(out)
            if rc != 0 or v is None or any(x[0] != 0 for x in v) or len(v) != len(msgs):
                ctx.broken("correspondence:sha256", out[-800:])
            dist["sha256_vectors"] = len(msgs)
        mk = run_merkle(ctx, exe, known, gen_merkle_pairs(r, 150 if ctx.quick else 4000))
        dist["merkle"] = mk
    ctx.extra["distribution"] = dist
    return ctx.finish(rule="groups of histories realising the same change set on the same base state: random and all 24 orders of four "
                           "writes, through cache / after reopen / after evictions / with prior reads / via AddState / with intermediate "
                           "values (roots must coincide); groups with one perturbed value, balance, nonce, code, one key added or dropped "
                           "(roots must differ); no-op account writes (open finding); Merkle: leaf lists with position swaps, single-bit "
                           "changes, added/dropped/duplicated leaves; non-trivial = group of >= 2 histories that all write, or leaf lists of "
                           "length >= 2 that differ")


def replay(ctx, path):
    obj = json.load(open(path))
    if obj.get("driver") == "merkle":
        exe, err = vlib.build_harness("ledger")
        pairs = [([bytes.fromhex(x) for x in obj["l1"]], [bytes.fromhex(x) for x in obj["l2"]])]
        k = run_merkle(ctx, exe, lc.known_open(), pairs)
        print(json.dumps(dict(kinds=k, violations=len(ctx.violations))))
        return 1 if ctx.violations else 0
    return lc.replay_file(ctx, path)
