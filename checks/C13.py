"""C13: reads return the latest write through dirty set, cache, database and reopen;
prefix queries return exactly the live values; snapshots revert journaled writes, nested ones independently.

Theorems: Properties/C13.v (refinement of the reference map + snapshot stack by the model of
SimpleLedger for all op sequences, refutation witnesses per defect flag).  Tie: the real
SimpleLedger on leveldb (driver "ledger") on generated histories, judged inside Coq: the
specification's predicate on the implementation trace first, then model = implementation on
every observable (getters, queries, roots, journals, raw store)."""
import itertools
import json
import vlib
from checks import ledger_common as lc

MODE = 13     # bit 0: reads vs specification, bit 2: strict reading (existence flags), bit 3: stored code hash


def nontrivial(group):
    ops = group[0]
    kinds = {o[0] for o in ops}
    return bool(kinds & {"set", "add", "setbal", "setnonce", "setcode"}) and "commit" in kinds and \
        bool(kinds & {"get", "query", "getbal", "getnonce", "getcode", "dump"})


def exhaustive_short(maxlen):
    """every sequence up to maxlen over a small alphabet (1 account, 2 keys where one is a prefix of
    the other), followed by a fixed observation suffix"""
    alpha = [("set", 0, b"a", b"v1"), ("set", 0, b"a", None), ("set", 0, b"ab", b"w1"), ("add", 0, b"a", b"v2"),
             ("setbal", 0, 5), ("snap",), ("revert", 0), ("finalise",), ("query", 0, b"a"),
             ("flush",), ("commit", 1), ("commit", 2), ("reopen",), ("rollback", 1), ("rollback", 0), ("evict", 0, 1, b""),
             ("clear",)]
    suffix = [("get", 0, b"a"), ("get", 0, b"ab"), ("getbal", 0), ("query", 0, b""), ("dbdump",)]
    out = []
    for n in range(1, maxlen + 1):
        for seq in itertools.product(alpha, repeat=n):
            out.append([list(seq) + suffix])
    return out


def run(ctx):
    ctx.proofs(["Proofs/LedgerWitness", "Proofs/MerkleProofs"] + lc.EXTRA_PROOFS, model_targets=["StateLedger", "LedgerSpec"])
    exe, err = vlib.build_harness("ledger")
    if exe is None:
        ctx.broken("harness-build", err)
        return ctx.finish(rule="-")
    known = lc.known_open()
    dist = {}
    if ctx.model_ok:
        r = ctx.rng
        # 1. corpus (witnesses of fixed and open findings) first
        dist["corpus"] = lc.run_corpus(ctx, exe, "C13", MODE, known, nontrivial)
        # 2. structured, well-formed histories; a good share without empty values so that the strict
        #    reading is not masked by the listed existence-flag finding
        n = 220 if ctx.quick else 6000
        groups = []
        saved = lc.VALS
        for i in range(n):
            lc.VALS = saved if i % 5 < 2 else [v for v in saved if v != b""]
            groups.append([lc.gen_history(r, r.randrange(1, 7), wild=(i % 11 == 0))])
        lc.VALS = saved
        # 3. unstructured stream (outside the theorem's domain in general) with malformed ops sprinkled in
        m = 100 if ctx.quick else 3000
        for i in range(m):
            groups.append([lc.sprinkle_bad_ops(r, lc.gen_soup(r, r.randrange(4, 50)))])
        # 3b. scenario templates (interleavings the random streams reach only rarely)
        groups += [g for g in lc.scenario_groups(r, 5 if ctx.quick else 60) if len(g) == 1]
        exact_groups = [f(r) for f in lc.EXACT_SCENARIOS for _ in range(6 if ctx.quick else 80)]
        st = lc.decide(ctx, exe, "C13x", exact_groups, MODE | 16, known, nontrivial=nontrivial)
        dist["exact_presence"] = st
        dist["address_ff"] = lc.decide(ctx, exe, "C13f", [lc.scen_address_ff(r) for _ in range(4 if ctx.quick else 40)], MODE, known,
                                        nontrivial=nontrivial, addrs=lc.ADDRS_FF)
        # 4. exhaustive short sequences (thorough tier)
        if not ctx.quick:
            groups += exhaustive_short(3)
        else:
            groups += r.sample(exhaustive_short(2), 60)
        tot = dict(ok=0, known=0, violation=0, mismatch=0, domain=0)
        step = 900
        for s in range(0, len(groups), step):
            st = lc.decide(ctx, exe, "C13g%d" % (s // step), groups[s:s + step], MODE, known, nontrivial=nontrivial)
            for k in st:
                tot[k] = tot.get(k, 0) + st[k]
        dist.update(structured=n, soup=m, short=len(groups) - n - m, **{"verdict_" + k: v for k, v in tot.items()})
        kinds = {}
        for g in groups:
            for o in g[0]:
                kinds[o[0]] = kinds.get(o[0], 0) + 1
        dist["op_kinds"] = kinds
        # 5. malformed input lines: the driver must reject them and keep serving
        junk = lc.malformed_lines(r, 12)
        good = lc.history_json([("set", 0, b"a", b"v1"), ("get", 0, b"a")])
        import subprocess
        inp = "\n".join(junk[:6] + [json.dumps(good)] + junk[6:]) + "\n"
        p = subprocess.run([exe, "ledger"], input=inp, capture_output=True, text=True, timeout=120)
        lines = [json.loads(l) for l in p.stdout.splitlines() if l.strip()]
        okl = [l for l in lines if "obs" in l and len(l["obs"]) == 2 and l["obs"][1].get("b") == "7631"]
        if p.returncode != 0 or len(lines) != 13 or not okl:
            ctx.broken("driver:ledger-malformed", "driver did not survive malformed input: rc=%d lines=%d" % (p.returncode, len(lines)))
        dist["malformed_lines"] = len(junk)
    ctx.extra["distribution"] = dist
    return ctx.finish(rule="corpus witnesses, then block-structured histories over 3 accounts x 6 keys (prefixes of each other, "
                           "empty values) with set/delete/add/get/query/snapshot/nested revert/finalise/flush/commit/evict/reopen/rollback, "
                           "an unstructured stream with malformed ops, exhaustive short sequences; non-trivial = a history with a write, a commit "
                           "and a later read, distinct by op list")


def replay(ctx, path):
    return lc.replay_file(ctx, path)
