"""C01: deterministic block execution across replicas, runs and restarts.

driver  harness/replicas : each history runs on k independent replicas of the real stack (own
        restart placements, Go's per-range random map order); replicas are compared bit for bit.
judge   Model/Determinism.v judge_c01: (1) the property predicate "all replicas agree on every
        result field of every block" on the IMPLEMENTATION's digests, (2) model = implementation
        on the projected observables of replica 0 (its restart placement; candidate orders where a
        listed defect makes an order map-dependent).
"""
import json
import os
import vlib
from vlib import glist, gbool

PID = "C01"

# open finding id -> defect flag of Model/Determinism.v (flag on while the finding is open)
FLAG_OF = {
    "C01-notify-order": "d_notify_unsorted",
    "C01-timeout-child-order": "d_timeout_child_order",
    "C01-first-error-order": "d_first_error_order",
    "C01-bns-after-genesis-flush": "d_bns_after_flush",
    "C01-service-cache-failed-events": "d_cache_failed_events",
    "C01-interchain-singleton": "d_singleton_mem",
    "C01-stale-persister": "d_stale_persister",
}
FLAGS = ["d_notify_unsorted", "d_timeout_child_order", "d_first_error_order", "d_bns_after_flush",
         "d_cache_failed_events", "d_singleton_mem", "d_stale_persister", "d_forgets_persister", "d_proofs_prestage", "d_dst_key_first"]

NCHAINS, NSVC = 8, 3          # seeded chains 0..7, services 0..2 available+ordered, service 4 frozen
FROZEN = 4
GOVCHAIN = 9                  # appchain created through the real governance flow


def svc(c, s):
    return c * 16 + s


def mk_id(src, dst, idx):
    return (src * 256 + dst) * 4294967296 + idx


# ----------------------------------------------------------------------------- generator

class Gen:
    """builds one history out of scenario segments; keeps the IBTP index bookkeeping so that the
    stream is mostly valid"""

    def __init__(self, rng, nblocks, gas=0, wide=False):
        self.r = rng
        self.wide = wide
        self.n = nblocks
        self.gas = gas
        self.blocks = [[] for _ in range(nblocks)]
        self.hints = set()         # block indices before which a restart is interesting
        self.groups = []
        self.tags = set()
        self.used_src = set()
        self.ic = {}               # (src,dst) -> last accepted request index
        self.nprop = 0
        self.funded = set()

    def height(self, bi):
        return bi + 2

    def fresh_src(self):
        for _ in range(50):
            c, s = self.r.randrange(NCHAINS), self.r.randrange(NSVC)
            if (c, s) not in self.used_src:
                self.used_src.add((c, s))
                return c, s
        return None

    def sender(self):
        u = self.r.randrange(6)
        if self.gas and u not in self.funded:
            self.funded.add(u)
            self.blocks[0].insert(0, [1, 100, u, 10**12])
        return u

    def ibtp(self, bi, src, dst, idx, typ, timeout=0, gid=0, flags=0):
        self.blocks[bi].append([2, self.sender(), src[0], src[1], dst[0], dst[1], idx, typ, timeout, gid, flags])

    # ---- segments -------------------------------------------------------------------
    def seg_transfers(self):
        for _ in range(self.r.randrange(1, 5)):
            bi = self.r.randrange(self.n)
            a, b = self.r.randrange(6), self.r.randrange(6)
            amt = self.r.choice([0, 1, 5, 1000, 10**15, -1])
            frm = self.r.choice([100, 101, a])
            if self.gas and frm < 100 and frm not in self.funded:
                frm = 100
            self.blocks[bi].append([1, frm, b, amt])
        self.tags.add("transfer")

    def seg_malformed(self):
        for _ in range(self.r.randrange(1, 4)):
            bi = self.r.randrange(self.n)
            self.blocks[bi].append([3, self.sender(), self.r.randrange(8)])
        self.tags.add("malformed")

    def seg_one2one(self):
        src = self.fresh_src()
        if src is None:
            return
        dc = self.r.choice([c for c in range(NCHAINS) if c != src[0]])
        dst = (dc, self.r.randrange(NSVC))
        bi = self.r.randrange(max(1, self.n - 3))
        idx = 0
        reqs = []
        for _ in range(self.r.randrange(1, 4)):
            if bi >= self.n:
                break
            idx += 1
            t = self.r.choice([0, 0, 2, 3])
            kind = self.r.random()
            if kind < 0.12:      # duplicate / future index, bad proof, bad signature
                self.ibtp(bi, src, dst, idx + self.r.choice([-1, 1, 2]), 0, t)
                idx -= 1
            elif kind < 0.2:
                self.ibtp(bi, src, dst, idx, 0, t, flags=self.r.choice([1, 2]))
                idx -= 1
            else:
                self.ibtp(bi, src, dst, idx, 0, t)
                reqs.append((idx, bi))
            bi += self.r.randrange(0, 2)
        # receipts (in index order; some requests are left to time out)
        for idx, b0 in reqs:
            if self.r.random() < 0.3:
                break
            bj = b0 + self.r.randrange(1, 3)
            if bj >= self.n:
                break
            self.ibtp(bj, src, dst, idx, self.r.choice([1, 1, 2, 3]))
        self.tags.add("one2one")

    def seg_frozen_target(self):
        src = self.fresh_src()
        if src is None:
            return
        dc = self.r.choice([c for c in range(NCHAINS) if c != src[0]])
        bi = self.r.randrange(self.n)
        self.ibtp(bi, src, (dc, self.r.choice([FROZEN, 7])), 1, 0, self.r.choice([0, 3]))
        self.tags.add("begin_failure")

    def seg_group(self):
        """one-to-many: >= 3 children over >= 2 destination chains, optionally a failing child"""
        src = self.fresh_src()
        if src is None:
            return
        others = [c for c in range(NCHAINS) if c != src[0]]
        self.r.shuffle(others)
        nch = self.r.choice([3, 3, 4])
        dsts = []
        for j in range(nch):
            c = others[j % 2] if j < 2 else self.r.choice(others[:3])
            cand = [(c, s) for s in range(NSVC) if (c, s) not in dsts]
            if not cand:
                continue
            dsts.append(self.r.choice(cand))
        mode = self.r.choice(["timeout", "all_success", "fail_receipt", "fail_child", "fail_child_after_success", "partial"])
        if mode in ("fail_child", "fail_child_after_success"):
            dsts.append((self.r.choice(others[:2]), FROZEN))
        group = [[d[0], d[1], 1] for d in dsts]
        self.groups.append(group)
        gid = len(self.groups)
        bi = self.r.randrange(max(1, self.n - 4))
        timeout = self.r.choice([2, 3]) if mode in ("timeout", "partial") else self.r.choice([0, 6])
        good = [d for d in dsts if d[1] != FROZEN]
        bad = [d for d in dsts if d[1] == FROZEN]
        for d in good:
            self.ibtp(bi, src, d, 1, 0, timeout, gid)
        nb = bi + 1
        if mode == "fail_child":
            if nb < self.n:
                self.ibtp(nb, src, bad[0], 1, 0, timeout, gid)
                self.hints.add(nb)
        elif mode == "fail_child_after_success":
            if nb < self.n:
                for d in good[:2]:
                    self.ibtp(nb, src, d, 1, 1, 0, gid)
            if nb + 1 < self.n:
                self.ibtp(nb + 1, src, bad[0], 1, 0, timeout, gid)
                self.hints.add(nb + 1)
        elif mode == "all_success":
            for j, d in enumerate(good):
                bj = nb + (j // 2)
                if bj < self.n:
                    self.ibtp(bj, src, d, 1, 1, 0, gid)
                    self.hints.add(bj)
        elif mode == "fail_receipt":
            order = list(good)
            self.r.shuffle(order)
            if nb < self.n:
                if self.r.random() < 0.5 and len(order) > 1:
                    self.ibtp(nb, src, order[1], 1, 1, 0, gid)
                self.ibtp(nb, src, order[0], 1, 2, 0, gid)
                self.hints.add(nb)
            if nb + 1 < self.n and len(order) > 2:
                self.ibtp(nb + 1, src, order[2], 1, self.r.choice([1, 2]), 0, gid)
        elif mode == "partial":
            if nb < self.n:
                self.ibtp(nb, src, good[0], 1, 1, 0, gid)
            self.hints.add(min(self.n - 1, bi + timeout))
        else:
            self.hints.add(min(self.n - 1, bi + timeout))
        self.tags.add("group:" + mode)

    def seg_shared_timeout(self):
        """several requests from >= 2 source chains whose timeouts fall on one height"""
        target = self.r.randrange(3, max(4, self.n))      # block index at which they time out
        srcs = []
        chains = list(range(NCHAINS))
        self.r.shuffle(chains)
        for c in chains[:self.r.choice([3, 5, 8] if self.wide else [2, 3, 4])]:
            free = [(c, sv) for sv in range(NSVC) if (c, sv) not in self.used_src]
            if free:
                s = self.r.choice(free)
                self.used_src.add(s)
                srcs.append(s)
        for s in srcs:
            bi = self.r.randrange(0, target - 1)
            t = target - bi
            dc = self.r.choice([c for c in range(NCHAINS) if c != s[0]])
            n = self.r.choice([1, 2])
            for idx in range(1, n + 1):
                self.ibtp(bi, s, (dc, self.r.randrange(NSVC)) if n == 1 else (dc, 0), idx, 0, t)
        if target < self.n:
            self.hints.add(target)
        self.tags.add("shared_timeout")

    def seg_gov_service(self):
        """real governance flow: appchain + service registered by votes, then traffic to it"""
        if self.n < 6:
            return
        u = 0
        if self.gas and u not in self.funded:
            self.funded.add(u)
            self.blocks[0].insert(0, [1, 100, u, 10**12])
        b = self.r.randrange(0, 2)
        self.blocks[b].append([4, u, 1, GOVCHAIN, 0, 0])
        p0 = self.nprop
        self.nprop += 1
        self.blocks[b + 1] += [[4, 100, 2, 0, 0, p0], [4, 101, 2, 0, 0, p0], [4, 102, 2, 0, 0, p0]]
        badperm = self.r.random() < 0.6
        if badperm:
            self.blocks[b + 2].append([4, u, 3, GOVCHAIN, 2, 3])       # two illegal permission ids
            self.tags.add("perm_first_error")
        if self.r.random() < 0.6:
            self.blocks[b + 2].append([4, u, 11, GOVCHAIN, 0, 0])      # two illegal admin addresses
            self.tags.add("admin_first_error")
        self.blocks[b + 2].append([4, u, 3, GOVCHAIN, 1, 1])
        p1 = self.nprop
        self.nprop += 1
        split = self.r.random() < 0.5
        self.blocks[b + 3] += [[4, 100, 2, 0, 0, p1], [4, 101, 2, 0, 0, p1]]
        self.blocks[b + 3 + (1 if split else 0)].append([4, 102, 2, 0, 0, p1])
        nb = b + 4 + (1 if split else 0)
        self.hints.add(nb)
        if nb < self.n:
            src = self.fresh_src()
            if src:
                self.ibtp(nb, src, (GOVCHAIN, 1), 1, 0, 0)
                if nb + 1 < self.n:
                    self.ibtp(nb + 1, src, (GOVCHAIN, 1), 1, 1)
        if self.r.random() < 0.5 and nb < self.n:
            self.blocks[nb].append([4, self.r.randrange(6), 6, GOVCHAIN, 1, self.r.randrange(6)])   # EvaluateService: SERVICE event
        self.tags.add("gov_service")

    def seg_freeze(self):
        """freeze a seeded service by proposal + votes; traffic to it before and after; restarts in between"""
        if self.n < 5:
            return
        c, s = self.r.randrange(NCHAINS), self.r.randrange(NSVC)
        b = self.r.randrange(0, self.n - 4)
        self.blocks[b].append([4, 100, 4, c, s, 0])
        p = self.nprop
        self.nprop += 1
        self.blocks[b + 1] += [[4, 101, 2, 0, 0, p], [4, 102, 2, 0, 0, p]]
        self.blocks[b + 2].append([4, 103, 2, 0, 0, p])
        self.hints.add(b + 3)
        src = self.fresh_src()
        if src and src != (c, s):
            if (src, (c, s)) not in self.ic:
                self.ibtp(b + 1, src, (c, s), 1, 0, 0)          # still available (freezing)
                self.ibtp(b + 3, src, (c, s), 2, 0, 0)          # frozen -> begin_failure
        self.tags.add("freeze")

    def seg_failing_event(self):
        """gas > 0: the concluding vote of a freeze proposal is sent by an admin that cannot pay
        the fee: the transaction fails, its SERVICE event still exists"""
        if self.n < 7 or not self.gas:
            return
        c, s = self.r.randrange(NCHAINS), self.r.randrange(NSVC)
        b = self.r.randrange(0, self.n - 6)
        self.blocks[b].append([4, 100, 4, c, s, 0])
        p = self.nprop
        self.nprop += 1
        self.blocks[b + 1].append([1, 103, 1, -2])             # drain admin 3
        self.blocks[b + 2] += [[4, 101, 2, 0, 0, p], [4, 102, 2, 0, 0, p]]
        self.blocks[b + 3].append([4, 103, 2, 0, 0, p])       # concluding vote, cannot pay
        self.hints.add(b + 4)
        src = self.fresh_src()
        if src and src != (c, s):
            self.ibtp(b + 4, src, (c, s), 1, 0, 0)
            if b + 5 < self.n:
                self.ibtp(b + 5, src, (c, s), 2, 0, 0)
        self.tags.add("failing_event")

    def seg_promoted(self):
        """a promoted core-manager method as a transaction: outcome depends on whether any ServiceManager
        method ran earlier in this process"""
        for _ in range(self.r.randrange(1, 4)):
            bi = self.r.randrange(self.n)
            self.blocks[bi].append([7, self.sender(), 1, self.r.randrange(2)])
            self.hints.add(bi)
        if self.r.random() < 0.7:
            bi = self.r.randrange(self.n)
            self.blocks[bi].append([4, self.r.randrange(6), 6, self.r.randrange(NCHAINS), self.r.randrange(NSVC), self.r.randrange(6)])
        # exported query-like methods of the manager contracts, preferably first in a block after a restart
        for _ in range(self.r.randrange(1, 4)):
            bi = self.r.randrange(self.n)
            self.blocks[bi].insert(0 if bi else len(self.blocks[bi]), [8, self.sender(), self.r.randrange(NMANAGERS), self.r.randrange(24)])
            self.hints.add(bi)
        self.tags.add("promoted")

    def seg_tl_empty(self):
        """a request and its receipt in one block empty a timeout list that a later group re-uses"""
        src = self.fresh_src()
        src2 = self.fresh_src()
        if not src or not src2 or self.n < 6:
            return
        b = self.r.randrange(0, self.n - 5)
        T = self.r.choice([3, 4])
        dc = self.r.choice([c for c in range(NCHAINS) if c != src[0]])
        self.ibtp(b, src, (dc, 0), 1, 0, T)
        self.ibtp(b, src, (dc, 0), 1, self.r.choice([1, 2]))
        self.hints.add(b + 1)
        others = [c for c in range(NCHAINS) if c != src2[0]]
        dsts = [(others[0], 1), (others[1], 1)]
        self.groups.append([[d[0], d[1], 1] for d in dsts])
        gid = len(self.groups)
        for d in dsts:
            self.ibtp(b + 1, src2, d, 1, 0, T - 1, gid)
        if b + T < self.n:
            self.hints.add(b + T)
        self.tags.add("tl_empty")

    def seg_singleton(self):
        if self.n < 3:
            return
        b = self.r.randrange(0, self.n - 2)
        u = self.sender()
        src = self.fresh_src()
        if not src:
            return
        dc = self.r.choice([c for c in range(NCHAINS) if c != src[0]])
        dst = (dc, self.r.randrange(NSVC))
        if self.r.random() < 0.3:
            self.blocks[b].append([6, u, src[0], src[1], dst[0], dst[1], 1, 0, 0, 0])   # before InitServiceCache: nil cache
        else:
            self.blocks[b].append([5, u])
            b2 = b + self.r.randrange(1, 3)
            if b2 < self.n:
                self.hints.add(b2)
                self.blocks[b2].append([6, u, src[0], src[1], dst[0], dst[1], 1, 0, 0, 0])
                if b2 + 1 < self.n and self.r.random() < 0.5:
                    self.ibtp(b2 + 1, src, dst, self.r.choice([1, 2]), 0, 0)
        self.tags.add("singleton")

    def build(self, k, hid):
        setup = dict(chains=list(range(NCHAINS)), gas=self.gas,
                     services=[[c, s, 1, 0] for c in range(NCHAINS) for s in range(NSVC)] + [[c, FROZEN, 1, 1] for c in range(NCHAINS)])
        hints = sorted(self.hints | {0})
        blocks = []
        for bi in range(self.n):
            rs = []
            for rep in range(k):
                p = 0.12
                if bi in hints:
                    p = 0.45
                rs.append(1 if self.r.random() < p else 0)
            blocks.append(dict(txs=self.blocks[bi], restart=rs))
        return dict(id=hid, k=k, genesis="own", setup=setup, groups=self.groups, blocks=blocks, tags=sorted(self.tags))


def gen_history(rng, k, hid, quick):
    gas = 1 if rng.random() < 0.25 else 0
    n = rng.randrange(6, 13)
    g = Gen(rng, n, gas, wide=not quick)
    segs = [g.seg_group, g.seg_group, g.seg_shared_timeout, g.seg_one2one, g.seg_one2one, g.seg_frozen_target,
            g.seg_transfers, g.seg_malformed, g.seg_singleton, g.seg_promoted, g.seg_tl_empty, g.seg_shared_timeout,
            g.seg_freeze, g.seg_gov_service]
    if gas:
        g.seg_failing_event()
    if rng.random() < 0.5:
        g.seg_gov_service()        # must come first: proposal ordinals
        segs.remove(g.seg_gov_service)
    else:
        segs.remove(g.seg_gov_service)
    if rng.random() < 0.5 and not gas:
        g.seg_freeze()
    segs.remove(g.seg_freeze)
    rng.shuffle(segs)
    for s in segs[:rng.randrange(4, 8)]:
        s()
    return g.build(k, hid)


NMANAGERS = 6          # appchain, service, rule, node, role, dapp manager (order of the driver's managerAddrs)


def first_call_histories(k, rounds):
    """restart, then -- as the FIRST call of the new process into a manager contract -- each of its
    exported query-like *Response methods: replica 0 never restarts, replica 1 restarts before every
    block, the others alternate.  The registered contract objects are process-wide singletons whose
    embedded core manager keeps the Persister of the previous call; a method that forgets to re-bind
    it works on a running node and dies on a restarted one.  Also: an IBTP to another BitXHub
    (checkBitXHubAvailability -> AppchainManager.IsAvailableBitxhub) right after a restart."""
    hs = []
    setup = dict(chains=[0, 1], gas=0, services=[[0, 0, 1, 0], [1, 0, 1, 0]])

    def rs(bi):
        return [0, 1] + [(bi + j) % 2 for j in range(k - 2)]
    for c in range(NMANAGERS):
        blocks = [dict(txs=[[8, 0, c, 1]], restart=[0] * k)]
        for j in range(rounds):
            blocks.append(dict(txs=[[8, j % 6, c, j]], restart=rs(j)))
        hs.append(dict(id="first-call-%d" % c, k=k, genesis="own", setup=setup, groups=[], blocks=blocks,
                       tags=["first_call_after_restart"], nomodel=True))
    blocks = [dict(txs=[[8, 0, 0, 2], [2, 1, 0, 0, 1, 0, 1, 0, 0, 0, 0]], restart=[0] * k),
              dict(txs=[[2, 2, 0, 0, 1, 0, 1, 0, 0, 0, 4]], restart=rs(0)),
              dict(txs=[[2, 3, 1, 0, 0, 0, 1, 0, 3, 0, 4], [8, 1, 0, 0]], restart=rs(1)),
              dict(txs=[], restart=[0] * k)]
    hs.append(dict(id="remote-hub-after-restart", k=k, genesis="own", setup=setup, groups=[], blocks=blocks,
                   tags=["remote_hub_after_restart"], nomodel=True))
    return hs


def sig_fanout_history(rng, k, ntx):
    """blocks of many transactions that did not come through this node's API (the driver executes every
    block with LocalList = false), a good part of them with an invalid signature: verifySign starts one
    goroutine per transaction; which ones are refused must not depend on scheduling.  The driver also
    checks the refused set against the transactions whose VerifySignature() fails one by one."""
    blocks = []
    for b in range(2):
        txs = []
        for i in range(ntx):
            u = rng.randrange(6)
            if rng.random() < 0.3:
                txs.append([3, u, 7])                       # zero transfer, bad signature
            else:
                txs.append([1, u, rng.randrange(6), 0])      # zero transfer, valid
        blocks.append(dict(txs=txs, restart=[0] * k))
    setup = dict(chains=[0, 1], gas=0, services=[[0, 0, 1, 0], [1, 0, 1, 0]])
    return dict(id="sig-fanout", k=k, genesis="own", setup=setup, groups=[], blocks=blocks, tags=["sig_fanout"])


def multi_service_event_history(k):
    """one transaction that changes SEVERAL services: an appchain with two governed services is frozen;
    the concluding vote pauses both services and posts two SERVICE events in one receipt; then IBTPs to
    each of them, one replica restarted before (reads the ledger), the others not (read the cache)."""
    G = GOVCHAIN
    rs1 = [0, 1] + [j % 2 for j in range(k - 2)]
    no = [0] * k
    blocks = [
        dict(txs=[[4, 0, 1, G, 0, 0]], restart=no),                                                   # P0 register appchain
        dict(txs=[[4, 100, 2, 0, 0, 0], [4, 101, 2, 0, 0, 0], [4, 102, 2, 0, 0, 0]], restart=no),
        dict(txs=[[4, 0, 3, G, 1, 1], [4, 0, 3, G, 2, 1]], restart=no),                               # P1, P2 register services
        dict(txs=[[4, 100, 2, 0, 0, 1], [4, 101, 2, 0, 0, 1], [4, 102, 2, 0, 0, 1],
                  [4, 100, 2, 0, 0, 2], [4, 101, 2, 0, 0, 2], [4, 102, 2, 0, 0, 2]], restart=no),
        dict(txs=[[2, 1, 0, 0, G, 1, 1, 0, 0, 0, 0], [2, 2, 1, 0, G, 2, 1, 0, 0, 0, 0]], restart=no),   # both available
        dict(txs=[[4, 100, 8, G, 0, 0]], restart=no),                                                 # P3 freeze appchain
        dict(txs=[[4, 101, 2, 0, 0, 3], [4, 102, 2, 0, 0, 3], [4, 103, 2, 0, 0, 3]], restart=no),     # concluding vote pauses both
        dict(txs=[[2, 1, 0, 0, G, 1, 2, 0, 0, 0, 0], [2, 2, 1, 0, G, 2, 2, 0, 0, 0, 0]], restart=rs1),
        dict(txs=[], restart=no),
    ]
    setup = dict(chains=[0, 1], gas=0, services=[[0, 0, 1, 0], [1, 0, 1, 0]])
    return dict(id="multi-service-event", k=k, genesis="own", setup=setup, groups=[], blocks=blocks, tags=["multi_service_event"])


def blacklist_update_history(k):
    """a permission-only UpdateService (no proposal, status unchanged) must reach the executor's service
    cache: the service is cached (registered through governance, then destination of a request and a
    receipt), its admin blacklists one source, then requests from the blacklisted and from another
    source, one replica restarted before (ledger), the others not (cache)."""
    G = GOVCHAIN
    no = [0] * k
    rs1 = [0, 1] + [j % 2 for j in range(k - 2)]
    blocks = [
        dict(txs=[[4, 0, 1, G, 0, 0]], restart=no),
        dict(txs=[[4, 100, 2, 0, 0, 0], [4, 101, 2, 0, 0, 0], [4, 102, 2, 0, 0, 0]], restart=no),
        dict(txs=[[4, 0, 3, G, 1, 1]], restart=no),
        dict(txs=[[4, 100, 2, 0, 0, 1], [4, 101, 2, 0, 0, 1], [4, 102, 2, 0, 0, 1]], restart=no),
        dict(txs=[[2, 1, 0, 0, G, 1, 1, 0, 0, 0, 0]], restart=no),
        dict(txs=[[2, 1, 0, 0, G, 1, 1, 1, 0, 0, 0]], restart=no),                      # receipt: the service is the destination
        dict(txs=[[4, 0, 12, G, 1, svc(0, 0)]], restart=no),                            # blacklist chain0:svc0
        dict(txs=[[2, 1, 0, 0, G, 1, 2, 0, 0, 0, 0], [2, 2, 1, 0, G, 1, 1, 0, 0, 0, 0]], restart=rs1),
        dict(txs=[], restart=no),
    ]
    setup = dict(chains=[0, 1], gas=0, services=[[0, 0, 1, 0], [1, 0, 1, 0]])
    return dict(id="blacklist-update", k=k, genesis="own", setup=setup, groups=[], blocks=blocks, tags=["blacklist_update"])


def pipeline_proof_history(rng, k):
    """delivery schedule: the odd replicas hand block n and block n+1 to the executor back to back, the
    others lock-step.  Block n concludes the registration of an appchain (and carries ballast so that it
    takes a while), block n+1 has an IBTP whose proof check needs that appchain: the verdict must be
    taken against the state block n produced, however far the pre-execute stage ran ahead."""
    G = GOVCHAIN
    no = [0] * k
    pipe = [0] + [j % 2 for j in range(1, k)]
    ballast = [[1, rng.randrange(6), rng.randrange(6), 0] for _ in range(40)]
    blocks = [
        dict(txs=[[4, 0, 1, G, 0, 0]], restart=no),
        dict(txs=[[4, 100, 2, 0, 0, 0], [4, 101, 2, 0, 0, 0]], restart=no),
        dict(txs=ballast + [[4, 102, 2, 0, 0, 0]], restart=no, pipe=pipe),
        dict(txs=[[2, 1, G, 1, 0, 0, 1, 0, 0, 0, 8], [2, 2, 1, 0, 0, 0, 1, 0, 0, 0, 0]], restart=no),
        dict(txs=[[1, 100, 1, 5]], restart=no, pipe=pipe),
        dict(txs=[[1, 1, 2, 3]], restart=no),
    ]
    setup = dict(chains=[0, 1], gas=0, services=[[0, 0, 1, 0], [1, 0, 1, 0]])
    return dict(id="pipeline-proof", k=k, genesis="own", setup=setup, groups=[], blocks=blocks, tags=["pipeline_proof"])


def malformed_history(rng, k, hid):
    n = rng.randrange(3, 7)
    g = Gen(rng, n, 0)
    for _ in range(rng.randrange(3, 9)):
        bi = rng.randrange(n)
        kind = rng.random()
        if kind < 0.4:
            g.blocks[bi].append([3, rng.randrange(6), rng.randrange(7)])
        elif kind < 0.6:
            g.blocks[bi].append([2, rng.randrange(6), rng.randrange(4), rng.randrange(8), rng.randrange(8), rng.randrange(8), rng.randrange(4), rng.randrange(6), rng.choice([0, 1, 2**40]), 0, rng.randrange(4)])
        elif kind < 0.8:
            g.blocks[bi].append([4, rng.randrange(6), rng.choice([2, 4, 5, 6, 7, 8, 9, 10]), rng.randrange(8), rng.randrange(6), rng.randrange(3)])
        else:
            g.blocks[bi].append([1, rng.randrange(6), rng.randrange(6), rng.choice([-1, 0, 10**18, 7])])
    g.tags.add("malformed_stream")
    return g.build(k, hid)


# ----------------------------------------------------------------------------- Coq literals

def g_svcrec(avail, ordered, black=()):
    return "(Build_svcrec %s %s %s)" % (gbool(avail), gbool(ordered), glist(black, str))


def g_ibtp(op, h):
    sc, ss, dc, ds, idx, typ, timeout, gid = op[2], op[3], op[4], op[5], op[6], op[7], op[8], op[9]
    grp = "None"
    if gid > 0 and gid <= len(h.get("groups") or []):
        grp = "(Some (%d, %d))" % (gid * 256 + svc(sc, ss), len(h["groups"][gid - 1]))
    return "(Build_ibtp %d %d %d %d %d %s)" % (svc(sc, ss), svc(dc, ds), idx, typ, timeout, grp)


def in_domain_ibtp(op):
    return all(0 <= op[i] <= 9 for i in (2, 3, 4, 5)) and 0 <= op[6] <= 9 and 0 <= op[7] <= 3 and 0 <= op[8] < 2**63


def g_tx(op, o, h):
    """model transaction for op, given what the implementation reported (o: txObs of replica 0)"""
    ok = o["status"] == 0
    k = op[0]
    if k == 2:
        if not in_domain_ibtp(op):
            return "(TOpaque %s)" % gbool(ok), False
        flags = op[10] if len(op) > 10 else 0
        if flags & 4:
            return "(TOpaque %s)" % gbool(ok), False      # destination on another BitXHub: outside the model
        if flags & 8:
            # the proof only verifies against the state the previous block produces (e.g. the source appchain is
            # registered by that block): verdict now = valid, verdict one block earlier = invalid
            return "(TIbtpP %s false %s)" % (gbool(flags & 3 == 0), g_ibtp(op, h)), True
        return "(TIbtp %s %s)" % (gbool(flags & 3 == 0), g_ibtp(op, h)), True
    if k == 4:
        if op[2] == 3 and op[5] & 2:
            # only meaningful when the call reaches the permission check: it fails either way
            return "(TPerm S_PERM [1; 2])" if not ok else "(TGov true [1] [])", True
        if op[2] == 11:
            return "(TPerm S_ADMIN [1; 2])" if not ok else "(TOpaque true)", True
        evs = o.get("svc_ev") or []
        # a governance call that fails inside the contract is reverted; one that fails at the fee keeps its events
        evl = glist(evs, lambda e: "(%d, %s)" % (svc(e[0], e[1]), g_svcrec(e[2] == 1, e[3] == 1, [svc(e[i], e[i + 1]) for i in range(4, len(e) - 1, 2)])))
        # manager contracts whose methods the call runs (0 appchain, 1 service): static per action, plus the
        # ServiceManager whenever a SERVICE event was posted
        tch = []
        if op[2] in (1, 3, 8, 9, 11):
            tch.append(0)
        if op[2] in (3, 4, 5, 6, 7, 12) or evs:
            tch.append(1)
        return "(TGov %s %s %s)" % (gbool(ok), glist(tch, str), evl), True
    if k == 5:
        return "TInitCache", True
    if k == 8:
        return "(TMgrCall %d false %s)" % (op[2] % NMANAGERS, gbool(ok)), True
    if k == 7:
        if op[2] != 1:
            return "(TOpaque %s)" % gbool(ok), False
        return "TPromoted", True
    if k == 6:
        if not in_domain_ibtp(op) or op[9] != 0 or op[8] != 0 or op[7] != 0:
            return "(TOpaque %s)" % gbool(ok), False
        return "(THandleData %s)" % g_ibtp(op, h), True
    return "(TOpaque %s)" % gbool(ok), True


RETCLASS = {"ok": 0, "begin_failure": 1, "batch_ibtp": 2, "nilptr": 4, "ifaceconv": 5}


def chain_num(name):
    if name.startswith("chain") and name[5:].isdigit():
        return int(name[5:])
    return 999


def g_idmap(m):
    items = sorted((chain_num(k), v) for k, v in (m or {}).items())
    return glist(items, lambda kv: "(%d, %s)" % (kv[0], glist(kv[1], lambda i: str(mk_id(svc(i[0], i[1]), svc(i[2], i[3]), i[4])))))


def g_obs(b):
    txs = glist(b["txs"] or [], lambda t: "(%s, %s, %d)" % (gbool(t["status"] == 0), gbool(t["tx_status"] == 1), RETCLASS.get(t["ret"], 3)))
    cnt = sorted((chain_num(k), v) for k, v in (b["counter"] or {}).items())
    counter = glist(cnt, lambda kv: "(%d, %s)" % (kv[0], glist(kv[1], lambda e: "(%d, %s)" % (e[0], gbool(e[1] == 1)))))
    return "(Build_obs %s %s %s %s %d)" % (txs, counter, g_idmap(b["timeout"]), g_idmap(b["multitx"]), b["l2roots"])


def g_cfg(flags):
    return "(Build_Defects %s)" % " ".join(gbool(flags.get(f, False)) for f in FLAGS)


def relabel(vals):
    """injective relabelling of the digests of one (block, field): equal digests get equal small numbers, different
    digests different numbers (keeps the cases file small; the equality structure the predicate reads is unchanged)"""
    seen = {}
    return [seen.setdefault(v, len(seen) + 1) for v in vals]


def g_case(h, out, flags, cands, all_replicas):
    obs0 = out["obs"]
    nblocks = len(obs0)
    if h.get("nomodel"):
        # judged on replica agreement only (contains transactions outside the model's domain)
        digests = glist(out["digests"][:nblocks + 1], lambda blk: glist(blk, lambda f: glist(relabel(f), str)))
        return "(Build_case %s %d%%nat [] [] %s [[]] [[]])" % (g_cfg(flags), cands, digests), True
    blocks = []
    genesis_seed = []
    indomain = True
    for bi in range(nblocks):
        b = h["blocks"][bi]
        txs = []
        for op, o in zip(b["txs"], obs0[bi]["txs"] or []):
            t, dom = g_tx(op, o, h)
            indomain = indomain and dom
            txs.append(t)
        seed = []
        if bi == 0:
            for s in h["setup"]["services"]:
                if s[3] == 2:
                    continue
                seed.append("(K_svc %d, VSvc %s)" % (svc(s[0], s[1]), g_svcrec(s[3] == 0, s[2] != 0)))
        invalid = [i for i, op in enumerate(b["txs"]) if (op[0] == 2 and len(op) > 10 and op[10] & 3 != 0) or (op[0] == 3 and op[2] in (5, 7))]
        blocks.append("(Build_block %s %s)" % (glist(txs), glist(invalid, str)))
        if bi == 0:
            genesis_seed = seed
    digests = glist(out["digests"][:nblocks + 1], lambda blk: glist(blk, lambda f: glist(relabel(f), str)))
    k = out["k"]
    reps = range(k) if all_replicas else [0]
    restarts = glist(reps, lambda r: glist(range(nblocks), lambda bi: gbool((h["blocks"][bi].get("restart") or [0] * k)[r] != 0 if r < len(h["blocks"][bi].get("restart") or []) else False)))
    if all_replicas and out.get("obs_all"):
        obs = glist(reps, lambda r: glist(range(nblocks), lambda bi: g_obs(out["obs_all"][bi][r])))
    else:
        obs = glist([0], lambda r: glist(range(nblocks), lambda bi: g_obs(obs0[bi])))
    return "(Build_case %s %d%%nat %s %s %s %s %s)" % (g_cfg(flags), cands, glist(genesis_seed), glist(blocks), digests, restarts, obs), indomain


def coq_judge(ctx, name, fn, cases):
    if not cases:
        return []
    src = ("From BX Require Import Base.Prelude Model.Determinism.\nLocal Open Scope N_scope.\n"
           "Definition cases : list case :=\n %s.\n"
           "Definition M := Eval vm_compute in map %s cases.\nPrint M.\n") % (glist(cases), fn)
    rc, out = vlib.coq_eval(name, src, timeout=1800)
    vs = vlib.parse_verdicts(out)
    if rc != 0 or vs is None or len(vs) != len(cases):
        ctx.broken("correspondence:" + fn, out[-1500:])
        return None
    return vs


# ----------------------------------------------------------------------------- run

def current_flags():
    kf = vlib.known_findings()
    openids = {f["id"] for f in kf if f.get("property") == PID and f.get("status") == "open"}
    flags = {FLAG_OF[i]: True for i in openids if i in FLAG_OF}
    return flags, {i: f for f in kf for i in [f["id"]] if f.get("property") == PID and f.get("status") == "open"}


def run_histories(exe, hs, timeout=3000):
    lines = [{k: v for k, v in h.items() if k != "tags"} for h in hs]
    rc, outs, err = vlib.run_driver(exe, "replicas", lines, timeout=timeout)
    return rc, outs, err


def shrink(ctx, exe, h, tries=3):
    """delta-debugging on the transaction list: keep a candidate while replicas still diverge
    (the divergence is probabilistic, so each candidate gets a few attempts with 8 replicas)"""
    def fails(c):
        c = dict(c, k=8)
        for b in c["blocks"]:
            r = list(b.get("restart") or [])
            b["restart"] = (r + [ctx.rng.randrange(2) if ctx.rng.random() < 0.3 else 0 for _ in range(8)])[:8]
        rc, outs, _ = run_histories(exe, [c] * tries, timeout=600)
        return any((not o.get("agree")) and not o.get("err") for o in outs)
    cur = json.loads(json.dumps(h))
    budget = 40
    changed = True
    while changed and budget > 0:
        changed = False
        for bi in range(len(cur["blocks"]) - 1, -1, -1):
            for ti in range(len(cur["blocks"][bi]["txs"]) - 1, -1, -1):
                if budget <= 0:
                    break
                # proposals are referenced by ordinal: leave governance submissions in place
                if cur["blocks"][bi]["txs"][ti][0] == 4:
                    continue
                cand = json.loads(json.dumps(cur))
                del cand["blocks"][bi]["txs"][ti]
                budget -= 1
                if fails(cand):
                    cur, changed = cand, True
    while len(cur["blocks"]) > 1 and not cur["blocks"][-1]["txs"] and budget > 0:
        cand = json.loads(json.dumps(cur))
        cand["blocks"].pop()
        budget -= 1
        if fails(cand):
            cur = cand
        else:
            break
    return cur


def trigger_shape(h, fid):
    """narrow identification of a listed finding: the history must contain its trigger"""
    ops = [op for b in h["blocks"] for op in b["txs"]]
    if fid == "C01-interchain-singleton":
        return any(op[0] == 5 for op in ops) and any(op[0] == 6 for op in ops)
    if fid == "C01-service-cache-failed-events":
        return h["setup"].get("gas", 0) > 0 and any(op[0] == 4 for op in ops)
    if fid == "C01-notify-order":
        return any(len(g) >= 3 for g in h.get("groups") or [])
    if fid == "C01-timeout-child-order":
        return any(len(g) >= 2 for g in h.get("groups") or [])
    if fid == "C01-first-error-order":
        return any(op[0] == 4 and ((op[2] == 3 and op[5] & 2) or op[2] == 11) for op in ops)
    if fid == "C01-stale-persister":
        return any(op[0] == 7 for op in ops)
    if fid == "C01-bns-after-genesis-flush":
        return any(r for r in (h["blocks"][0].get("restart") or []))
    return False


def decide(ctx, exe, hs, outs, flags, known, label):
    """judge a batch; returns number of histories judged"""
    cases, idx = [], []
    for i, (h, o) in enumerate(zip(hs, outs)):
        if o.get("err"):
            ctx.violation("driver error on a history: " + o["err"][:300], dict(property=PID, history=h, error=o["err"]))
            continue
        c, dom = g_case(h, o, flags, 1 if not any(flags.get(f) for f in FLAGS[:3]) else 24, False)
        cases.append(c)
        idx.append((i, dom))
    verdicts = []
    for s in range(0, len(cases), 200):
        vs = coq_judge(ctx, "C01_%s_%d" % (label, s), "judge_c01", cases[s:s + 200])
        if vs is None:
            return 0
        verdicts += vs
    # model/implementation differences may be explained by the other value of d_dst_key_first (a C05 repair)
    redo = [j for j, v in enumerate(verdicts) if v[0] == 1]
    if redo:
        flipped = dict(flags, d_dst_key_first=not flags.get("d_dst_key_first", False))
        cs = [g_case(hs[idx[j][0]], outs[idx[j][0]], flipped, 24, False)[0] for j in redo]
        vs = coq_judge(ctx, "C01_%s_flip" % label, "judge_c01", cs)
        if vs is not None:
            for j, v in zip(redo, vs):
                if v[0] == 0:
                    verdicts[j] = v
    disagree = []
    for (i, dom), v in zip(idx, verdicts):
        h, o = hs[i], outs[i]
        nacc = sum(1 for b in o["obs"] for t in (b["txs"] or []) if t["status"] == 0)
        nrej = sum(1 for b in o["obs"] for t in (b["txs"] or []) if t["status"] != 0)
        sites = [t for t in h.get("tags", []) if t.split(":")[0] in ("group", "shared_timeout", "gov_service", "freeze", "failing_event", "singleton", "perm_first_error", "admin_first_error", "promoted", "tl_empty", "first_call_after_restart", "remote_hub_after_restart", "sig_fanout", "multi_service_event", "blacklist_update", "pipeline_proof")]
        ctx.count(case_key=("h", json.dumps(h["blocks"], sort_keys=True)), nontrivial=nacc > 0 and nrej > 0 and bool(sites),
                  sample=dict(driver="replicas", id=h["id"], tags=h.get("tags"), blocks=len(h["blocks"]), k=o["k"], agree=o["agree"], verdict=v,
                              first_block=o["obs"][0] if o["obs"] else None))
        ctx.traces_validated += o["k"]
        for t in h.get("tags", []):
            ctx.extra.setdefault("tag_distribution", {}).setdefault(t, 0)
            ctx.extra["tag_distribution"][t] += 1
        if v[0] == 0:
            continue
        if v[0] == 2:
            disagree.append((i, v))
        elif v[0] == 1:
            ctx.broken("correspondence:judge_c01", "history %s: model and implementation differ at block index %d: %s" % (h["id"], v[1], json.dumps(dict(history=h, impl=o["obs"][v[1]] if v[1] < len(o["obs"]) else None))[:3000]))
        else:
            ctx.broken("correspondence:judge_c01", "history %s outside the model's domain" % h["id"])
    # replicas disagree: a concrete failing history whatever the model says.  It is an instance of a LISTED finding only
    # if every replica's trace is a behaviour of the model under cfg_current and stops being one when that finding's flag
    # is turned off (and the history contains the finding's trigger shape).
    explained = {i: [] for i, _ in disagree}
    if disagree and known:
        ev = coq_judge(ctx, "C01_explain_%s" % label, "explain_c01", [g_case(hs[i], outs[i], flags, 24, True)[0] for i, _ in disagree])
        if ev is not None:
            ok_now = [i for (i, _), e in zip(disagree, ev) if e[0] == 0]
            for fid, f in known.items():
                fl = FLAG_OF.get(fid)
                cand = [i for i in ok_now if fl and trigger_shape(hs[i], fid)]
                if not cand:
                    continue
                off = dict(flags)
                off[fl] = False
                ev2 = coq_judge(ctx, "C01_explain_off_%s_%s" % (label, fl), "explain_c01", [g_case(hs[i], outs[i], off, 24, True)[0] for i in cand])
                if ev2 is not None:
                    for i, e in zip(cand, ev2):
                        if e[0] != 0:
                            explained[i].append(fid)
    nshrunk = 0
    for i, v in disagree:
        h, o = hs[i], outs[i]
        if explained[i]:
            for fid in explained[i]:
                ctx.known(fid, known[fid]["what"])
            continue
        small = h
        if os.environ.get("VERIF_NOSHRINK") != "1" and nshrunk < 2:
            small = shrink(ctx, exe, h)
            nshrunk += 1
        ctx.violation("replicas diverge: block index %s field %s" % (o["div"]["block"], o["div"]["field"]) if o.get("div") else "replicas diverge",
                      dict(property=PID, history=small, original_id=h["id"], first_divergence=o.get("div"),
                           all_divergences=[(d["block"], d["field"]) for d in o.get("all_div") or []], verdict=v))
    return len(cases)


def load_corpus():
    out = []
    d = vlib.CORPUS
    for f in sorted(os.listdir(d)) if os.path.isdir(d) else []:
        if f.startswith("C01_") and f.endswith(".json"):
            obj = json.load(open(os.path.join(d, f)))
            h = obj.get("history", obj)
            h.setdefault("id", f[:-5])
            h.setdefault("tags", ["corpus"] + obj.get("tags", []))
            out.append(h)
    return out


def fit_k(h, k):
    h = json.loads(json.dumps(h))
    h["k"] = k
    for b in h["blocks"]:
        r = list(b.get("restart") or [])
        b["restart"] = (r + [0] * k)[:k]
    return h


def run(ctx):
    ctx.proofs(["Proofs/DeterminismProofs"], model_targets=["Determinism", "DeterminismSites"])
    exe, err = vlib.build_harness("replicas")
    if exe is None:
        ctx.broken("harness-build", err)
        return ctx.finish(rule="-")
    flags, known = current_flags()
    flags.setdefault("d_dst_key_first", True)
    ctx.extra["cfg_current"] = {f: bool(flags.get(f)) for f in FLAGS}
    if ctx.model_ok:
        k = 4 if ctx.quick else 8
        corpus = [fit_k(h, max(k, 8)) for h in load_corpus()]
        # corpus histories are short and probabilistic: run each a few times
        hs = [dict(h, id="%s#%d" % (h["id"], j)) for h in corpus for j in range(2 if ctx.quick else 6)]
        n = 30 if ctx.quick else 1000
        if os.environ.get("VERIF_C01_N"):
            n = int(os.environ["VERIF_C01_N"])      # development knob: number of generated histories
        for i in range(n):
            hs.append(gen_history(ctx.rng, k, "g%d" % i, ctx.quick))
        for i in range(max(4, n // 8)):
            hs.append(malformed_history(ctx.rng, k, "m%d" % i))
        hs += first_call_histories(3 if ctx.quick else 4, 14 if ctx.quick else 24)
        hs += [sig_fanout_history(ctx.rng, k, 96 if ctx.quick else 256), multi_service_event_history(k),
               blacklist_update_history(k), pipeline_proof_history(ctx.rng, k)]
        total = 0
        for s in range(0, len(hs), 150):
            part = hs[s:s + 150]
            rc, outs, e = run_histories(exe, part)
            if rc != 0 or len(outs) != len(part):
                ctx.broken("driver:replicas", (e or "")[-1500:])
                break
            total += decide(ctx, exe, part, outs, flags, known, "b%d" % s)
        ctx.extra["histories"] = total
        ctx.extra["replicas_per_history"] = k
    return ctx.finish(rule="corpus (minimized witnesses, repeated) + seeded generator: scenario segments (one-to-many groups >=3 children over >=2 chains incl. failing child, "
                           "shared timeout heights from >=2 source chains, governance flows creating/freezing services incl. a failing vote that posts the SERVICE event, "
                           "InitServiceCache/HandleIBTPData, transfers, malformed) merged into <=12 blocks, random + hinted restart placements per replica, plus a malformed stream; "
                           "non-trivial = at least one accepted and one rejected transaction and at least one suspect-site segment; distinct by block content",
                      explanation="each history runs on k independent replicas of the real stack; evaluations = histories judged, traces_validated = replica traces compared")


def replay(ctx, path):
    obj = json.load(open(path))
    h = obj.get("history", obj)
    exe, err = vlib.build_harness("replicas")
    if exe is None:
        print("harness build failed", err)
        return 1
    h = fit_k(h, max(8, h.get("k", 8)))
    flags, known = current_flags()
    flags.setdefault("d_dst_key_first", True)
    bad = 0
    for j in range(6):
        rc, outs, e = run_histories(exe, [h])
        if not outs:
            print("driver failed", e[-500:])
            return 1
        o = outs[0]
        c, _ = g_case(h, o, flags, 24, False)
        vs = coq_judge(ctx, "C01_replay", "judge_c01", [c])
        print(json.dumps(dict(attempt=j, agree=o.get("agree"), first_divergence=o.get("div"), verdict=vs, err=o.get("err"))))
        if not o.get("agree") or not vs or vs[0][0] != 0:
            bad += 1
    return 1 if bad else 0
