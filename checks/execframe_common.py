"""Shared machinery of the execution-frame checks C03 C07 C08 C14: the driver protocol of
harness/execframe, the abstract operation vocabulary (every operation has a concrete transaction
for the driver AND an abstract body for the Coq models), shadow bookkeeping of the
implementation's observed state, Gallina writers for the cases files, defect-flag lattices,
verdict handling and shrinking."""
import hashlib
import itertools
import json
import os

import vlib
from vlib import gbool, glist

CONTRACTS = ["interchain", "store", "rule", "role", "appchain", "txmgr", "servicemgr", "governance", "ethheader",
             "node", "interbroker", "dapp", "strategy", "svcregistry", "svcresolver"]
CID = {n: 2000 + i for i, n in enumerate(CONTRACTS)}
GAS_NORMAL, GAS_FAILED, GAS_BVM = 21000, 21000, 210000
BXH = 1356


def acct_id(spec):
    k, v = spec.split(":", 1)
    if k == "u":
        return int(v)
    if k == "a":
        return 1000 + int(v)
    if k == "v":
        return 5000 + int(v)
    if k == "c":
        return CID[v]
    return 900000 + int(hashlib.sha1(spec.encode()).hexdigest()[:6], 16)


class Ids:
    """stable small numbers for store keys and opaque values"""

    def __init__(self):
        self.keys, self.vals = {}, {}

    def key(self, contract_spec, k):
        c = acct_id(contract_spec)
        if k.startswith("k") and k[1:].isdigit():
            return (c, int(k[1:]))
        t = (contract_spec, k)
        if t not in self.keys:
            # a name, not a counter: the same key has the same number in every run (replays of recorded histories)
            self.keys[t] = 100000 + int(hashlib.sha1(("%s|%s" % t).encode()).hexdigest()[:9], 16)
        return (c, self.keys[t])

    def val(self, v):
        if v is None:
            return None
        if isinstance(v, int):
            return v
        if v not in self.vals:
            self.vals[v] = 10**12 + int(hashlib.sha1(str(v).encode()).hexdigest()[:9], 16)
        return self.vals[v]


# ----------------------------------------------------------------------------- driver

def run_histories(exe, hs, timeout=1500):
    rc, outs, err = vlib.run_driver(exe, "run", hs, timeout=timeout)
    if rc != 0 or len(outs) != len(hs):
        return None, (err or "")[-1500:]
    # a block that missed its deadline on a loaded machine is not a hang of the node: the few histories that report
    # one (no crash) are run once more, one at a time, with a generous deadline; a real deadlock hangs again
    hung = [i for i, o in enumerate(outs) if not o.get("crash") and any(st.get("hang") for st in (o.get("steps") or []))]
    if 0 < len(hung) <= 5 and len(hs) > len(hung):
        import copy
        for i in hung:
            h2 = copy.deepcopy(hs[i])
            for st in h2["steps"]:
                if st.get("op") == "block":
                    st["deadline_ms"] = max(int(st.get("deadline_ms") or 0), 30000)
            h2["timeout_ms"] = max(int(h2.get("timeout_ms") or 0), 180000)
            rc2, o2, _ = vlib.run_driver(exe, "run", [h2], timeout=timeout)
            if rc2 == 0 and len(o2) == 1:
                outs[i] = o2[0]
    return outs, ""


def H(steps, admins=4, gas=0, audit=False, bal="1000000000", timeout_ms=60000):
    return {"cfg": {"admins": admins, "gas": gas, "audit": audit, "bal": bal}, "steps": steps, "timeout_ms": timeout_ms}


def blk(txs, **kw):
    return dict({"op": "block", "txs": list(txs)}, **kw)


SEED2 = [{"op": "seed_chain", "chain": "chainA"}, {"op": "seed_chain", "chain": "chainB"},
         {"op": "seed_service", "chain": "chainA", "svc": "svc1", "ordered": True},
         {"op": "seed_service", "chain": "chainB", "svc": "svc1", "ordered": True}]


def ibtp(i, frm="1356:chainA:svc1", to="1356:chainB:svc1", typ=0, timeout=10, **kw):
    return dict({"from": frm, "to": to, "index": i, "type": typ, "timeout": timeout}, **kw)


# hand-assembled wasm rule: accepts iff the first proof byte is '1' (see design.d/C03.md)
WASM_FIRSTBYTE = ("0061736d0100000001120360017f017f60027f7f0060037f7f7f017f03040300010205030100100607017f014180080b0731"
                  "04066d656d6f7279020008616c6c6f6361746500000a6465616c6c6f6361746500010c73746172745f766572696679000"
                  "20a20030b002300230020006a24000b070041800824000b0a0020002d00004131460b")
RULE_WASM_ADDR = "0x00000000000000000000000000000000000000e1"
RULE_NIL_ADDR = "0x00000000000000000000000000000000000000e2"


# ----------------------------------------------------------------------------- Gallina writers

def gZ(x):
    return "(%d)%%Z" % x


def gNn(x):
    return "%d%%N" % x


def gkey(k):
    return "(%d%%N, %d%%N)" % k


def goptN(v):
    return "None" if v is None else "(Some %d%%N)" % v


def gamount(s):
    """class of an amount string under big.Int.SetString(s, 10)"""
    t = s
    if t == "":
        return "AEmpty"
    body = t[1:] if t[0] in "+-" else t
    if body.isdigit():
        return "(ADec %s)" % gZ(int(t))
    return "ANonNumeric"


def gfcfg(flags):
    return "{| d_self_transfer := %s; d_neg_amount := %s; d_fee_after_body := %s |}" % (
        gbool("self_transfer" in flags), gbool("neg_amount" in flags), gbool("fee_after_body" in flags))


XFLAGS = ["raw_add", "stub_promoted", "ibtp_no_revert", "failed_events", "stale_changer", "prev_from_memory", "revert_drops_tombstone",
          "cross_index_nonce"]
FFLAGS = ["self_transfer", "neg_amount", "fee_after_body"]


def gxcfg(flags):
    return ("{| d_raw_add := %s; d_stub_promoted := %s; d_ibtp_no_revert := %s; d_failed_events := %s; "
            "d_stale_changer := %s; d_prev_from_memory := %s; d_revert_drops_tombstone := %s; d_cross_index_nonce := %s; x_fees := %s |}") % (
        gbool("raw_add" in flags), gbool("stub_promoted" in flags), gbool("ibtp_no_revert" in flags),
        gbool("failed_events" in flags), gbool("stale_changer" in flags), gbool("prev_from_memory" in flags),
        gbool("revert_drops_tombstone" in flags), gbool("cross_index_nonce" in flags), gfcfg(flags))


def genv(admins, price, genesis):
    return "{| admins := %s; price := %s; genesis_bal := %s |}" % (glist([gNn(1000 + i) for i in range(admins)]), gZ(price), gZ(genesis))


def gprog(p):
    """p is a nested tuple program: ("done",) ("fail",tana) ("panic",) ("touch",a,k) ("jw",key,v,k) ("jd",key,k)
    ("raw",key,v,k) ("setbal",a,v,k) ("ev",[(chain,batch)..],k) ("evother",k) ("cross",callee,inner,kok,kerr)"""
    t = p[0]
    if t == "done":
        return "Done"
    if t == "fail":
        return "(Fail %s)" % gbool(p[1])
    if t == "panic":
        return "Panic"
    if t == "touch":
        return "(Touch %s %s)" % (gNn(p[1]), gprog(p[2]))
    if t == "peek":
        return "(Peek %s %s)" % (gkey(p[1]), gprog(p[2]))
    if t == "jw":
        return "(JWrite %s %s %s)" % (gkey(p[1]), gNn(p[2]), gprog(p[3]))
    if t == "jd":
        return "(JDelete %s %s)" % (gkey(p[1]), gprog(p[2]))
    if t == "raw":
        return "(RawAdd %s %s %s)" % (gkey(p[1]), gNn(p[2]), gprog(p[3]))
    if t == "setbal":
        return "(SetBal %s %s %s)" % (gNn(p[1]), gZ(p[2]), gprog(p[3]))
    if t == "ev":
        return "(PostEvent (EvInterchain %s) %s)" % (glist(["(%s, %s)" % (gNn(c), gbool(b)) for c, b in p[1]]), gprog(p[2]))
    if t == "evother":
        return "(PostEvent EvOther %s)" % gprog(p[1])
    if t == "cross":
        return "(Cross %s %s %s %s)" % (gNn(p[1]), gprog(p[2]), gprog(p[3]), gprog(p[4]))
    raise ValueError(p)


def prog_keys(p):
    t = p[0]
    if t in ("done", "fail", "panic"):
        return []
    if t in ("jw", "raw"):
        return [p[1]] + prog_keys(p[3])
    if t == "jd":
        return [p[1]] + prog_keys(p[2])
    if t in ("touch", "ev", "peek"):
        return prog_keys(p[2])
    if t == "setbal":
        return prog_keys(p[3])
    if t == "evother":
        return prog_keys(p[1])
    if t == "cross":
        return prog_keys(p[2]) + prog_keys(p[3]) + prog_keys(p[4])
    raise ValueError(p)


def gcbody(b):
    """abstract body: ("transfer", to_id, amount_string) ("bvm", prog) ("stub", kind, key, v) ("stubev", dsts)
    ("ibtp", prog) ("bad",)"""
    t = b[0]
    if t == "transfer":
        return "(CTransfer %s %s)" % (gNn(b[1]), gamount(b[2]))
    if t == "bvm":
        return "(CBvm %s)" % gprog(b[1])
    if t == "ibtp":
        return "(CIbtp %s)" % gprog(b[1])
    if t == "stub":
        kind, key, v = b[1], b[2], b[3]
        if kind == "set":
            return "(CStub (SSet %s %s))" % (gkey(key), gNn(v))
        if kind == "del":
            return "(CStub (SDelete %s))" % gkey(key)
        if kind == "add":
            return "(CStub (SAdd %s %s))" % (gkey(key), gNn(v))
    if t == "stubev":
        return "(CStub (SPostInterchain %s))" % glist(["(%s, %s)" % (gNn(c), gbool(x)) for c, x in b[1]])
    if t == "bad":
        return "CBad"
    raise ValueError(b)


def body_keys(b):
    if b[0] in ("bvm", "ibtp"):
        return prog_keys(b[1])
    if b[0] == "stub":
        return [b[2]]
    if b[0] in ("get", "putabsent"):
        return [b[1]]
    return []


def body_reads(b):
    """keys whose presence decides the receipt of the operation"""
    return [b[1]] if b[0] == "get" else []


def gctx(frm, nonce, body, invalid):
    return "{| c_from := %s; c_nonce := %s; c_body := %s; c_invalid := %s |}" % (gNn(frm), gNn(nonce), gcbody(body), gbool(invalid))


# ----------------------------------------------------------------------------- defect lattices

def open_flags(pids):
    """flags of the findings listed as open for the given properties (id convention: <pid>-<flag-with-dashes>)"""
    out = {}
    for f in vlib.known_findings():
        if f.get("status") == "open" and f["property"] in pids and f.get("flag"):
            out[f["flag"]] = f
    return out


def subsets(flags):
    """all subsets, fewest flags first (so the first matching configuration is a minimal explanation)"""
    flags = sorted(flags)
    out = []
    for r in range(len(flags) + 1):
        for c in itertools.combinations(flags, r):
            out.append(frozenset(c))
    return out


# ----------------------------------------------------------------------------- shadow of the observed state

class Shadow:
    """what the implementation has shown so far: balances, nonces, store values (by spec / key)"""

    def __init__(self, admins, bal):
        self.bal, self.nonce, self.store = {}, {}, {}
        for i in range(admins):
            self.bal["a:%d" % i] = int(bal)
        for n in CONTRACTS:
            self.nonce["c:" + n] = 1     # genesis gives every built-in contract account nonce 1

    def apply_pre(self, step):
        if step["op"] == "fund":
            self.bal[step["acct"]] = int(step["amt"])

    def apply_block(self, ob):
        for a in ob.get("accts") or []:
            self.bal[a[0]] = int(a[2])
            self.nonce[a[0]] = int(a[4])
        for s in ob.get("state") or []:
            self.store[(s[0], s[1])] = s[3]
        # a present key with a ZERO-LENGTH value is shown as absent by the raw dump: the operations that store one
        # (and succeeded) say so (see Run.xcase)
        for k, v in (getattr(self, "next_overrides", None) or {}).items():
            self.store[k] = v
        self.next_overrides = {}

    def copy(self):
        c = Shadow(0, "0")
        c.bal, c.nonce, c.store = dict(self.bal), dict(self.nonce), dict(self.store)
        c.next_overrides = dict(getattr(self, "next_overrides", None) or {})
        return c


def counter_entries(ob, chain_ids):
    out = []
    for chain, lst in ob.get("counter") or []:
        cid = chain_ids(chain)
        for idx, valid, batch in lst:
            out.append((cid, idx, bool(valid), bool(batch)))
    return out


def chain_id(name):
    """numbers for appchain names as they appear in Counter"""
    table = {"chainA": 50, "chainB": 51, "chainC": 52, "1356": 1356, "default_union_pier_id": 99}
    if name in table:
        return table[name]
    return 700000 + int(hashlib.sha1(name.encode()).hexdigest()[:5], 16)


# ----------------------------------------------------------------------------- verdict handling

def handle_verdict(ctx, pid, v, flagsets, open_map, what, replay_obj, base=100, relevant=None):
    """v = (code, detail) from a judge whose detail is base*predicate + index of the matching
    configuration (1-based into flagsets; 0 = none).  Returns 'ok' | 'known' | 'violation' | 'mismatch' | 'domain'."""
    code, d = v
    if code == 0:
        return "ok"
    if code == 1:
        return "mismatch"
    if code == 3:
        return "domain"
    idx = d % base
    pred = d // base
    if idx >= 1 and idx <= len(flagsets):
        fl = flagsets[idx - 1]
        if fl and all(f in open_map for f in fl) and (relevant is None or any(f in relevant for f in fl)):
            for f in sorted(fl):
                if relevant is None or f in relevant:
                    ctx.known(open_map[f]["id"], open_map[f]["what"])
            return "known"
    ctx.violation("%s (predicate %d false on the implementation trace)" % (what, pred), replay_obj)
    return "violation"


def save_corpus_name(pid, obj):
    body = json.dumps(obj, sort_keys=True)
    return os.path.join(vlib.CORPUS, "%s_%s.json" % (pid, hashlib.sha1(body.encode()).hexdigest()[:10]))


def load_corpus(pid, kind=None):
    out = []
    if not os.path.isdir(vlib.CORPUS):
        return out
    for f in sorted(os.listdir(vlib.CORPUS)):
        if f.startswith(pid + "_") and f.endswith(".json"):
            try:
                o = json.load(open(os.path.join(vlib.CORPUS, f)))
            except ValueError:
                continue
            if kind is None or o.get("kind") == kind:
                out.append(o)
    return out


# ----------------------------------------------------------------------------- exact operation vocabulary
# An op = dict(tx=<driver tx spec>, frm=<sender spec>, body=<abstract body>, invalid=<bool>, tag=<class name>,
#              opaque=<bool: SUCCESS writes contract state the model does not follow>)

def store_key(ids, contract, k):
    return ids.key("c:" + contract, k)


def op_transfer(frm, to, amt):
    return dict(tx={"t": "transfer", "from": frm, "to": to, "amt": amt}, frm=frm, body=("transfer", acct_id(to), amt), invalid=False,
                tag="transfer", accts=[to])


def op_store_set(ids, frm, k, v):
    return dict(tx={"t": "bvm", "from": frm, "to": "c:store", "m": "Set", "args": [["s", k], ["s", "v%d" % v]]}, frm=frm,
                body=("bvm", ("jw", store_key(ids, "store", k), v, ("done",))), invalid=False, tag="store_set")


def op_store_get(ids, frm, k):
    """Store.Get: SUCCESS iff the key is present (the contract's own read of the state)"""
    return dict(tx={"t": "bvm", "from": frm, "to": "c:store", "m": "Get", "args": [["s", k]]}, frm=frm,
                body=("get", store_key(ids, "store", k)), invalid=False, tag="store_get")


EMPTY_VALUE = "h:empty"


def kv_call(frm, method, *args):
    return {"t": "bvm", "from": frm, "to": EMITTER, "m": method, "args": [["s", a] for a in args]}


def op_register_interchain(ids, frm, chainsvc):
    """InterchainManager.Register(chain:service): reads service-<id>, writes a fresh record when absent, succeeds"""
    return dict(tx={"t": "bvm", "from": frm, "to": "c:interchain", "m": "Register", "args": [["s", chainsvc]]}, frm=frm,
                body=("putabsent", ids.key("c:interchain", "service-1356:" + chainsvc), "OBS"), invalid=False, tag="register_interchain")


def op_delete_interchain(ids, frm, chainsvc):
    """InterchainManager.DeleteInterchain(full id): Stub.Delete of service-<id> (audit off: succeeds)"""
    return dict(tx={"t": "bvm", "from": frm, "to": "c:interchain", "m": "DeleteInterchain", "args": [["s", "1356:" + chainsvc]]}, frm=frm,
                body=("bvm", ("jd", ids.key("c:interchain", "service-1356:" + chainsvc), ("done",))), invalid=False, tag="delete_interchain")


def op_get_interchain(ids, frm, chainsvc):
    return dict(tx={"t": "bvm", "from": frm, "to": "c:interchain", "m": "GetInterchain", "args": [["s", "1356:" + chainsvc]]}, frm=frm,
                body=("get", ids.key("c:interchain", "service-1356:" + chainsvc)), invalid=False, tag="get_interchain")


def op_kv(ids, frm, method, key, val=None):
    """the plugin's key/value surface: Put (if absent) / Overwrite / SetFail (write, then fail) / Del / Has / PutEmpty
    (a zero-length value under a key that is PRESENT: the raw dump shows such a key as absent, Has does not)"""
    k = ids.key(EMITTER, key)
    e = acct_id(EMITTER)
    if method == "PutEmpty":
        return dict(tx=kv_call(frm, "PutEmpty", key), frm=frm, body=("bvm", ("touch", e, ("jw", k, ids.val(EMPTY_VALUE), ("done",)))), invalid=False,
                    tag="kv_put_empty", empty_key=(EMITTER, key))
    if method == "Overwrite":
        return dict(tx=kv_call(frm, "Overwrite", key, "v%d" % val), frm=frm, body=("bvm", ("touch", e, ("jw", k, val, ("done",)))), invalid=False, tag="kv_overwrite")
    if method == "SetFail":
        return dict(tx=kv_call(frm, "SetFail", key, "v%d" % val), frm=frm, body=("bvm", ("touch", e, ("jw", k, val, ("fail", False)))), invalid=False, tag="kv_set_fail")
    if method == "Has":
        return dict(tx=kv_call(frm, "Has", key), frm=frm, body=("get", k), invalid=False, tag="kv_has")
    if method == "Del":
        return dict(tx=kv_call(frm, "Del", key), frm=frm, body=("bvm", ("touch", e, ("jd", k, ("done",)))), invalid=False, tag="kv_del")
    raise ValueError(method)


def op_store_get_missing(frm, k):
    return dict(tx={"t": "bvm", "from": frm, "to": "c:store", "m": "Get", "args": [["s", k]]}, frm=frm,
                body=("bvm", ("touch", CID["store"], ("fail", False))), invalid=False, tag="call_fails")


def op_no_method(frm, contract="store"):
    return dict(tx={"t": "bvm", "from": frm, "to": "c:" + contract, "m": "NoSuchMethod", "args": []}, frm=frm,
                body=("bvm", ("fail", False)), invalid=False, tag="no_method")


def op_wrong_arity(frm):
    return dict(tx={"t": "bvm", "from": frm, "to": "c:store", "m": "Set", "args": [["s", "k1"]]}, frm=frm,
                body=("bvm", ("fail", False)), invalid=False, tag="wrong_arity")


STUB_METHODS = {"set": ("Set", "bs"), "setobj": ("SetObject", "s"), "del": ("Delete", None), "add": ("Add", "bs"), "addobj": ("AddObject", "s")}


def op_stub(ids, frm, contract, kind, k, v):
    """promoted Stub method invoked by name on a built-in contract"""
    m, vk = STUB_METHODS[kind]
    args = [["s", k]] + ([[vk, "v%d" % v]] if vk else [])
    akind = {"set": "set", "setobj": "set", "del": "del", "add": "add", "addobj": "add"}[kind]
    return dict(tx={"t": "bvm", "from": frm, "to": "c:" + contract, "m": m, "args": args}, frm=frm,
                body=("stub", akind, store_key(ids, contract, k), v), invalid=False, tag="stub_" + kind)


def op_bad(frm, variant):
    tx = [{"t": "raw", "from": frm, "to": "c:store", "hex": "ffffff"},
          {"t": "raw", "from": frm, "to": "c:store", "hex": "nil"},
          {"t": "td", "from": frm, "to": "c:store", "type": 1, "vmtype": 9, "hex": "00"}][variant % 3]
    return dict(tx=tx, frm=frm, body=("bad",), invalid=False, tag="bad_payload")


def op_bad_signature(ids, frm, k, v):
    """a well-formed call whose signature does not verify (only checked when the block is not local)"""
    o = op_store_set(ids, frm, k, v)
    o["tx"]["mut"] = {"bad_sig": 1}
    o["invalid"] = True
    o["tag"] = "bad_signature"
    return o


PROOF_DEFECTS = ["absent", "mismatch"]


def op_ibtp_defect(frm, index, defect, **kw):
    """IBTP transaction on chainA->chainB whose proof is absent / does not hash to the committed value"""
    return dict(tx={"t": "ibtp", "from": frm, "ibtp": ibtp(index, **kw), "proof": {"kind": defect}}, frm=frm,
                body=("ibtp", ("done",)), invalid=True, tag="ibtp_" + defect)


def ibtp_request_prog(ids, index, frm="1356:chainA:svc1", to="1356:chainB:svc1", dst_chain="chainB", tail=("done",)):
    """what HandleIBTP does for an accepted request between two local services (audit off):
    CrossInvoke TransactionManager.Begin (Add tx record), PostInterchainEvent, ProcessIBTP
    (Set source counters, AddObject index->tx hash, Set destination counters)"""
    tid = "%s-%s-%d" % (frm, to, index)
    ic, tm = CID["interchain"], CID["txmgr"]
    k_tx = ids.key("c:txmgr", "tx-" + tid)
    k_from = ids.key("c:interchain", "service-" + frm)
    k_idx = ids.key("c:interchain", "index-tx-" + tid)
    k_to = ids.key("c:interchain", "service-" + to)
    rest = ("ev", [(chain_id(dst_chain), False)], ("jw", k_from, "OBS", ("raw", k_idx, "OBS", ("jw", k_to, "OBS", tail))))
    return ("touch", ic, ("touch", CID["servicemgr"], ("cross", tm, ("raw", k_tx, "OBS", ("done",)), rest, rest)))


# name service (BNS): ServiceRegistry.Register / Renew charge price = rate(len(name)) * duration * 1e8 (uint64 arithmetic,
# token price 1) to the CALLER through SubBalance - the amount leaves the books (it is credited to nobody)
BNS_NOW = 1700000000
BNS_GRACE = 90 * 24 * 60 * 60
M64 = 2**64


def bns_cost(name, duration):
    rate = {1: 1, 2: 2, 3: 3, 4: 4}.get(len(name), 5)
    return (((rate * duration) % M64) * 10**8) % M64


def op_bns(frm, method, name, duration, bal, registered_until=None, full=None):
    """Register(name, duration, resolver) / Renew(full name, duration) by an account holding [bal] at the start of the
    transaction; registered_until: expiry of the name if it is registered.  Body on success: the caller's balance
    becomes bal - cost (burn = cost), nothing is credited to anybody."""
    wraps = (BNS_NOW + duration + BNS_GRACE) % M64 < BNS_NOW + BNS_GRACE or BNS_NOW + duration + BNS_GRACE >= M64
    if method == "Register":
        cost = bns_cost(name, duration)
        ok = name != "" and duration != 0 and (registered_until is None or registered_until + BNS_GRACE <= BNS_NOW) and not wraps and (bal % M64) >= cost
        args = [["s", name], ["u64", str(duration)], ["sa", "c:svcresolver"]]
    else:
        cost = bns_cost(full, duration)
        ok = full != "" and duration != 0 and registered_until is not None and registered_until + BNS_GRACE >= BNS_NOW and not wraps and (bal % M64) >= cost
        args = [["s", full], ["u64", str(duration)]]
    reg = CID["svcregistry"]
    prog = ("touch", reg, ("setbal", acct_id(frm), bal - cost, ("done",))) if ok else ("touch", reg, ("fail", False))
    return dict(tx={"t": "bvm", "from": frm, "to": "c:svcregistry", "m": method, "args": args, "ts": BNS_NOW * 10**9}, frm=frm, body=("bvm", prog),
                invalid=False, tag="bns_%s_%s" % (method.lower(), "ok" if ok else "refused"), opaque=True, burn=cost if ok else 0)


# the two plugin contracts of harness/execframe/plugins.go (history cfg "plugins": true)
EMITTER, RELAY = "x:0x00000000000000000000000000000000c07e0001", "x:0x00000000000000000000000000000000c07e0002"


def op_plugin(ids, frm, method, chain, key=None, val=None):
    """calls of the relay / emitter plugin contracts with their abstract bodies: the event is posted by the
    contract called directly (Emit*) or by a CROSS-INVOKED one (Relay*), at depth 1 or 2, from an inner frame
    that fails, or before the outer frame fails"""
    e, r = acct_id(EMITTER), acct_id(RELAY)
    ev = lambda k: ("ev", [(chain_id(chain), False)], k)
    target, args = RELAY, [["s", chain]]
    if method == "Emit":
        target, prog = EMITTER, ("touch", e, ev(("done",)))
    elif method == "EmitFail":
        target, prog = EMITTER, ("touch", e, ev(("fail", False)))
    elif method == "Relay":
        prog = ("touch", r, ("cross", e, ("touch", e, ev(("done",))), ("done",), ("fail", False)))
    elif method == "RelayDeep":
        inner = ("touch", r, ("cross", e, ("touch", e, ev(("done",))), ("done",), ("fail", False)))
        prog = ("touch", r, ("cross", r, inner, ("done",), ("fail", False)))
    elif method == "RelayIgnore":
        prog = ("touch", r, ("cross", e, ("touch", e, ev(("fail", False))), ("done",), ("done",)))
    elif method == "RelayThenFail":
        prog = ("touch", r, ("cross", e, ("touch", e, ev(("done",))), ("fail", False), ("fail", False)))
    elif method == "RelaySet":
        kr, ke = ids.key(RELAY, key), ids.key(EMITTER, key)
        args = [["s", chain], ["s", key], ["s", "v%d" % val]]
        prog = ("touch", r, ("jw", kr, val, ("cross", e, ("touch", e, ("jw", ke, val, ev(("done",)))), ("done",), ("fail", False))))
    else:
        raise ValueError(method)
    return dict(tx={"t": "bvm", "from": frm, "to": target, "m": method, "args": args}, frm=frm, body=("bvm", prog),
                invalid=False, tag="plugin_" + method)


def op_ibtp_receipt_defect(frm, index, defect):
    """receipt (type RECEIPT_SUCCESS) for request chainA->chainB #index whose proof is absent / does not hash: rejected before execution"""
    return dict(tx={"t": "ibtp", "from": frm, "ibtp": ibtp(index, typ=1), "proof": {"kind": defect}}, frm=frm,
                body=("ibtp", ("done",)), invalid=True, tag="receipt_" + defect)


def op_ibtp_ok(ids, frm, index, **kw):
    """valid request chainA:svc1 -> chainB:svc1 with the expected index"""
    return dict(tx={"t": "ibtp", "from": frm, "ibtp": ibtp(index, **kw)}, frm=frm,
                body=("ibtp", ibtp_request_prog(ids, index)), invalid=False, tag="ibtp_ok", ibtp_ok=True)


def op_ibtp_wrong_index(frm, index, **kw):
    """valid proof, index too large: the contract rejects it before writing anything"""
    return dict(tx={"t": "ibtp", "from": frm, "ibtp": ibtp(index, **kw)}, frm=frm,
                body=("ibtp", ("touch", CID["interchain"], ("fail", False))), invalid=False, tag="ibtp_wrong_index")


def op_emit_bad_funcs(ids, frm):
    """real method that writes then fails: InterBroker.EmitInterchain with a malformed function list
    (incCounter writes OutCounter through the undo log, then the call returns an error)"""
    return dict(tx={"t": "bvm", "from": frm, "to": "c:interbroker", "m": "EmitInterchain",
                    "args": [["s", "1356:chainA:svc1"], ["s", "1356:chainB:svc1"], ["s", "onlyone"], ["s", "a"], ["s", "b"], ["s", "c"]]},
                frm=frm, body=("bvm", ("jw", ids.key("c:interbroker", "OutCounter"), "OBS", ("fail", False))), invalid=False, tag="write_then_fail")


def op_invoke_receipt_missing(ids, frm):
    """InterBroker.InvokeReceipt for an unknown out-message: incCounter(CallbackCounter) then error"""
    return dict(tx={"t": "bvm", "from": frm, "to": "c:interbroker", "m": "InvokeReceipt", "args": [["ibtp", ibtp(77)]]},
                frm=frm, body=("bvm", ("jw", ids.key("c:interbroker", "CallbackCounter"), "OBS", ("fail", False))), invalid=False, tag="write_then_fail")


def resolve_obs_values(body, ids, ob_state, shadow_store=None):
    """replace the "OBS" placeholder by the value the implementation left (only matters when the write persists);
    when the key is not in the block's diff (e.g. deleted and re-created with the same content) the value the
    implementation held before the block is used"""
    def before(k):
        for (cs, ks), v in (shadow_store or {}).items():
            if v is not None and ids.key(cs, ks) == k:
                return ids.val(v)
        return 1

    def fix(p):
        if p[0] == "jw":
            v = p[2]
            if v == "OBS":
                v = before(p[1])
                for s in ob_state or []:
                    if ids.key(s[0], s[1]) == p[1] and s[3] is not None:
                        v = ids.val(s[3])
            return ("jw", p[1], v, fix(p[3]))
        if p[0] == "raw":
            v = p[2]
            if v == "OBS":
                v = before(p[1])
                for s in ob_state or []:
                    if ids.key(s[0], s[1]) == p[1] and s[3] is not None:
                        v = ids.val(s[3])
            return ("raw", p[1], v, fix(p[3]))
        if p[0] in ("touch", "ev"):
            return (p[0], p[1], fix(p[2]))
        if p[0] == "jd":
            return ("jd", p[1], fix(p[2]))
        if p[0] == "setbal":
            return ("setbal", p[1], p[2], fix(p[3]))
        if p[0] == "evother":
            return ("evother", fix(p[1]))
        if p[0] == "cross":
            return ("cross", p[1], fix(p[2]), fix(p[3]), fix(p[4]))
        return p
    if body[0] in ("bvm", "ibtp"):
        return (body[0], fix(body[1]))
    if body[0] == "putabsent" and body[2] == "OBS":
        v = before(body[1])
        for s in ob_state or []:
            if ids.key(s[0], s[1]) == body[1] and s[3] is not None:
                v = ids.val(s[3])
        return ("putabsent", body[1], v)
    return body


def gcbody2(b):
    if b[0] == "grant":
        return "(CGrant %s %s)" % (gNn(b[1]), gbool(b[2]))
    if b[0] == "get":
        return "(CGet %s)" % gkey(b[1])
    if b[0] == "putabsent":
        return "(CPutIfAbsent %s %s)" % (gkey(b[1]), gNn(b[2]))
    return gcbody(b)


OPAQUE_CONTRACTS = {"c:interchain", "c:txmgr", "c:servicemgr", "c:interbroker", "c:governance", "c:role", "c:strategy",
                    "c:appchain", "c:rule", "c:node", "c:dapp", "c:svcregistry", "c:svcresolver"}


class Run:
    """walks one history and its driver output, keeping the shadow, and yields per judged block the
    pieces of an [xcase]"""

    def __init__(self, hist, out, ids):
        self.hist, self.out, self.ids = hist, out, ids
        self.sh = Shadow(hist["cfg"]["admins"], hist["cfg"]["bal"])
        self.nonces = {}
        self.admins = hist["cfg"]["admins"]

    def take_nonce(self, tx):
        if tx.get("nonce") is not None:
            return tx["nonce"]
        n = self.nonces.get(tx["from"], 0)
        self.nonces[tx["from"]] = n + 1
        return n

    def xcase(self, ob, ops, flagsets, genesis, price, opaque=False, pre=(), warm=None, meta=()):
        """Gallina xcase for one block (ops = the abstract ops of its transactions); call BEFORE apply_block"""
        ids, sh = self.ids, self.sh
        ctxs, keys, accts = [], [], ["a:%d" % i for i in range(self.admins)]
        for o in ops:
            body = resolve_obs_values(o["body"], ids, ob.get("state"), sh.store)
            ctxs.append("{| c_from := %s; c_nonce := %s; c_body := %s; c_invalid := %s |}" % (
                gNn(acct_id(o["frm"])), gNn(self.take_nonce(o["tx"])), gcbody2(body), gbool(o["invalid"])))
            keys += body_keys(body)
            accts.append(o["frm"])
            accts += o.get("accts", [])
        other = ob.get("other") or 0
        changed = {}
        ibtp_succeeded = any(o["tx"].get("t") == "ibtp" and rc[0] == 0 for o, rc in zip(ops, ob["receipts"]))
        senders = set(o["frm"] for o in ops)
        for a in ob.get("accts") or []:
            # an account record that appears with balance 0 and nonce 0 for an account that sent nothing: left behind by
            # a transaction that did not take effect (only a FAILED one can create-and-revert an account)
            if len(a) > 6 and (not a[5]) and a[6] and int(a[2]) == 0 and int(a[4]) == 0 and a[0] not in senders:
                other += 1
        for s in ob.get("state") or []:
            if s[0] == "c:txmgr" and s[1].startswith("timeout-"):
                # the executor's block post-processing (setTimeoutList) adds accepted requests / removes answered ones:
                # outside any transaction frame, and only on behalf of SUCCESS IBTP transactions
                if not ibtp_succeeded:
                    other += 1
                continue
            k = ids.key(s[0], s[1])
            if k in keys or not (opaque and s[0] in OPAQUE_CONTRACTS):
                changed[k] = (s[0], s[1])
                if k not in keys:
                    keys.append(k)
        for a in ob.get("accts") or []:
            if a[0] not in accts:
                accts.append(a[0])
        keys = list(dict.fromkeys(keys))
        accts = list(dict.fromkeys(accts))
        rev = {}
        for (cs, ks), _ in list(sh.store.items()):
            rev[ids.key(cs, ks)] = (cs, ks)
        rev.update(changed)

        def stored(shadow, k):
            if k in rev:
                return ids.val(shadow.store.get(rev[k]))
            return None
        sh.next_overrides = {}
        for o, rc in zip(ops, ob["receipts"]):
            if o.get("empty_key") and rc[0] == 0 and sh.store.get(o["empty_key"]) is not None:
                sh.next_overrides[o["empty_key"]] = EMPTY_VALUE
        init_keys = [(k, stored(sh, k)) for k in keys]
        init_bals = [(acct_id(a), sh.bal.get(a, 0)) for a in accts]
        init_nonces = [(acct_id(a), sh.nonce.get(a, 0)) for a in accts]
        after = sh.copy()
        after.apply_block(ob)
        okeys = [(k, stored(after, k)) for k in keys]
        obals = [(acct_id(a), after.bal.get(a, 0)) for a in accts]
        ononces = [(acct_id(a), after.nonce.get(a, 0)) for a in accts]
        recs = [rc[0] == 0 for rc in ob["receipts"]]
        cnt = counter_entries(ob, chain_id)
        row = ("{| xc_cfgs := %s; xc_env := %s; xc_keys := %s; xc_bals := %s; xc_nonces := %s; xc_pre := %s; xc_txs := %s; "
               "xc_recs := %s; xc_okeys := %s; xc_obals := %s; xc_ononces := %s; xc_ocnt := %s; xc_other := %s; "
               "xc_warm := %s; xc_posted := %s; xc_meta := %s |}") % (
            glist([gxcfg(f) for f in flagsets]), genv(self.admins, price, genesis),
            glist(["(%s, %s)" % (gkey(k), goptN(v)) for k, v in init_keys]),
            glist(["(%s, %s)" % (gNn(a), gZ(b)) for a, b in init_bals]),
            glist(["(%s, %s)" % (gNn(a), gNn(n)) for a, n in init_nonces]),
            glist([gNn(acct_id(p)) for p in pre]),
            glist(ctxs), glist([gbool(x) for x in recs]),
            glist(["(%s, %s)" % (gkey(k), goptN(v)) for k, v in okeys]),
            glist(["(%s, %s)" % (gNn(a), gZ(b)) for a, b in obals]),
            glist(["(%s, %s)" % (gNn(a), gNn(n)) for a, n in ononces]),
            glist(["(%s, (%s, %s, %s))" % (gNn(c), gNn(i), gbool(v), gbool(b)) for c, i, v, b in cnt]),
            gNn(other),
            "None" if warm is None else "(Some %s)" % glist([gkey(k) for k in warm]),
            glist([glist([gNn(chain_id(p[0])) for p in (rc[6] if len(rc) > 6 else [])]) for rc in ob["receipts"]]),
            glist(["(%s, %s)" % (goptN(a), goptN(b)) for a, b in meta]))
        return row, dict(recs=recs, nontrivial=(any(recs) and not all(recs)), keys=keys)


XPRE = "From BX Require Import Base.Prelude Model.Fees Model.ExecFrame.\nLocal Open Scope Z_scope.\n"


def tuplify(x):
    """JSON round trip turns the tuples of abstract bodies into lists: turn them back"""
    if isinstance(x, list):
        return tuple(tuplify(y) for y in x)
    return x


def revive_ops(g):
    """a generator record loaded from a replay file: restore tuple bodies"""
    for ops in g["blocks"]:
        if isinstance(ops, str):
            continue
        for o in ops:
            o["body"] = tuplify(o["body"])
    return g


# ----------------------------------------------------------------------------- shrinking

def shrink_blocks(g, bi, still_bad, budget=14):
    """delta-debugging on a generator record with g["blocks"] (list of op lists): bi = index of the
    offending block; still_bad(g2) -> index of a block that still shows the same kind of verdict, or None.
    Returns (smallest g found, index of its offending block)."""
    import copy
    best, bbi = g, bi
    used = [0]

    def attempt(cand):
        if used[0] >= budget:
            return None
        used[0] += 1
        try:
            return still_bad(cand)
        except Exception:       # noqa: BLE001 - a candidate that cannot be built is simply not smaller
            return None

    # later blocks are irrelevant
    if bbi + 1 < len(best["blocks"]):
        cand = copy.deepcopy(best)
        cand["blocks"] = cand["blocks"][:bbi + 1]
        cand["views"] = []
        r = attempt(cand)
        if r is not None:
            best, bbi = cand, r
    # earlier blocks, from the front
    i = 0
    while i < bbi and used[0] < budget:
        cand = copy.deepcopy(best)
        del cand["blocks"][i]
        r = attempt(cand)
        if r is not None:
            best, bbi = cand, r
        else:
            i += 1
    # transactions of the offending block
    j = 0
    while not isinstance(best["blocks"][bbi], str) and j < len(best["blocks"][bbi]) and len(best["blocks"][bbi]) > 1 and used[0] < budget:
        cand = copy.deepcopy(best)
        del cand["blocks"][bbi][j]
        r = attempt(cand)
        if r is not None:
            best, bbi = cand, r
        else:
            j += 1
    return best, bbi


def save_mismatch(ctx, rep):
    """full replay object of a broken correspondence (ctx.broken only keeps a short message)"""
    os.makedirs(vlib.REPLAYS, exist_ok=True)
    body = json.dumps(rep, sort_keys=True, indent=1, default=list)
    path = os.path.join(vlib.REPLAYS, "%s_mismatch_%s.json" % (ctx.pid, hashlib.sha1(body.encode()).hexdigest()[:12]))
    open(path, "w").write(body)
    return path
