"""C08: block execution is total (Model/Dispatch.v, judge_dispatch).  Hostile streams: byte-level and
structure-level mutations, every exported method of every registered contract x argument vectors
(arity / kind mismatch, unparsable numbers, extremes), proof defects, fee failures.  Every history
runs in its own child process so that a process crash or a wedged executor is observed as such."""
import json
import subprocess

import vlib
from vlib import gbool, glist
from checks import execframe_common as X

PID = "C08"
DFLAGS = ["promoted_dispatch", "evm_wipes_revisions", "checkproof_nil_err", "nil_validator", "nil_to", "nil_from", "code_revert_reenters"]

STUB_EFFECT = {"Add": "SeRawWrite", "AddObject": "SeRawWrite", "Callee": "SeReadOnly", "Caller": "SeReadOnly", "CrossInvoke": "SeCross",
               "CrossInvokeEVM": "SeEvm", "CurrentCaller": "SeReadOnly", "Delete": "SeJournaledWrite", "EnableAudit": "SeReadOnly",
               "Get": "SeReadOnly", "GetAccount": "SeAccount", "GetCurrentHeight": "SeReadOnly", "GetObject": "SeReadOnly",
               "GetTxHash": "SeReadOnly", "GetTxIndex": "SeReadOnly", "GetTxTimeStamp": "SeReadOnly", "Has": "SeReadOnly",
               "Logger": "SeReadOnly", "PostEvent": "SeEvent", "PostInterchainEvent": "SeEvent", "Query": "SeReadOnly",
               "Set": "SeJournaledWrite", "SetObject": "SeJournaledWrite", "ValidationEngine": "SeReadOnly"}

KIND = {"string": "KStr", "[]uint8": "KBytes", "uint64": "KU64", "int32": "KI32", "int64": "KI64", "bool": "KBool", "float64": "KF64",
        "interface {}": "KIface"}


def gdcfg(flags):
    return ("{| d_promoted_dispatch := %s; d_evm_wipes_revisions := %s; d_checkproof_nil_err := %s; d_nil_validator := %s; "
            "d_evm_interchain_norecover := false; d_nil_to := %s; d_nil_from := %s; d_code_revert_reenters := %s |}") % tuple(gbool(f in flags) for f in DFLAGS)


def get_surface(exe):
    p = subprocess.run([exe, "surface"], capture_output=True, text=True, timeout=120)
    for line in p.stdout.splitlines():
        if line.startswith("{"):
            return json.loads(line)
    raise RuntimeError("surface: " + p.stderr[-500:])


def msig(m):
    params = []
    ins = m.get("in") or []
    for i, t in enumerate(ins):
        if m.get("variadic") and i == len(ins) - 1:
            t = t[2:] if t.startswith("[]") else t       # element type of the variadic parameter
        params.append(KIND.get(t, "KOther"))
    out = m.get("out") or []
    resp = len(out) == 1 and out[0] == "*boltvm.Response"
    prom = "(Some %s)" % STUB_EFFECT[m["name"]] if m.get("promoted") else "None"
    return "{| ms_params := %s; ms_variadic := %s; ms_response := %s; ms_promoted := %s |}" % (glist(params), gbool(bool(m.get("variadic"))), gbool(resp), prom)


# argument pool: (driver arg spec, Gallina argv)
BAD_ADDRS = ["0x1234", "0x", "0x123", "1234", "0x" + "ab" * 19, "0x" + "ab" * 21, "0X" + "ab" * 20]


def arg_pool(r):
    big = "x" * r.choice([1, 100, 20000])
    return {
        "KStr": [(["s", ""], "AStr"), (["s", "a"], "AStr"), (["s", big], "AStr"), (["s", "1356:chainA:svc1"], "AStr"), (["s", "a:b"], "AStr"),
                 (["s", "::"], "AStr"), (["s", "0x0000000000000000000000000000000000000001"], "AStr"), (["s", "{\"a\":1}"], "AStr")] +
                [(["s", b], "AStr") for b in BAD_ADDRS] + [(["s", "1356:chainA:swap,v2"], "AStr"), (["s", "a,b-c:d"], "AStr")],
        "KBytes": [(["b", ""], "ABytes"), (["b", "ff00ff"], "ABytes"), (["bs", big], "ABytes"), (["ibtp", X.ibtp(1)], "ABytes"), (["ibtp", X.ibtp(0, frm="a:b", to="")], "ABytes")],
        "KU64": [(["u64", "0"], "(AU64 true)"), (["u64", "18446744073709551615"], "(AU64 true)"), (["u64", "-1"], "(AU64 false)"), (["u64", "abc"], "(AU64 false)"),
                 (["u64", "18446744073709551616"], "(AU64 false)")],
        "KI32": [(["i32", "0"], "(AI32 true)"), (["i32", "-2147483648"], "(AI32 true)"), (["i32", "1e3"], "(AI32 false)"), (["i32", ""], "(AI32 false)")],
        "KI64": [(["i64", "0"], "(AI64 true)"), (["i64", "-9223372036854775808"], "(AI64 true)"), (["i64", "9223372036854775808"], "(AI64 false)")],
        "KBool": [(["bool", "true"], "(ABool true)"), (["bool", "0"], "(ABool true)"), (["bool", "maybe"], "(ABool false)")],
        "KF64": [(["f64", "1.5"], "(AF64 true)"), (["f64", "NaN"], "(AF64 true)"), (["f64", "x"], "(AF64 false)")],
        "KIface": [(["s", "any"], "AStr"), (["b", "00"], "ABytes"), (["u64", "7"], "(AU64 true)")],
        "KOther": [(["s", "zz"], "AStr"), (["b", "0a01"], "ABytes"), (["raw", 99, "6162"], "AOtherType")],
    }


def method_ops(r, cname, m, frm, poor):
    """a few argument vectors for one method: exact shape, arity -1 / +1, one kind swapped"""
    pool = arg_pool(r)
    ins = [KIND.get((t[2:] if (m.get("variadic") and i == len(m.get("in") or []) - 1 and t.startswith("[]")) else t), "KOther")
           for i, t in enumerate(m.get("in") or [])]
    vectors = []
    exact = [r.choice(pool[k]) for k in ins]
    vectors.append(exact)
    if ins:
        vectors.append(exact[:-1])
        j = r.randrange(len(ins))
        other = r.choice([k for k in pool if k != ins[j]])
        vectors.append(exact[:j] + [r.choice(pool[other])] + exact[j + 1:])
    vectors.append(exact + [r.choice(pool[r.choice(list(pool))])])
    out = []
    for vec in vectors:
        tx = {"t": "bvm", "from": frm, "to": "c:" + cname, "m": m["name"], "args": [a for a, _ in vec]}
        body = "(BBvm (BcCall %s %s BUnknown false))" % (msig(m), glist([g for _, g in vec]))
        out.append(dict(tx=tx, dtx=dtx("PfNotIbtp", True, body, not poor), tag="method"))
    return out


def dtx(proof, sig_ok, body, fee_ok):
    return "{| dt_proof := %s; dt_sig_ok := %s; dt_body := %s; dt_fee_ok := %s |}" % (proof, gbool(sig_ok), body, gbool(fee_ok))


def payload_ops(r, frm, poor):
    """byte-level and structure-level payloads"""
    fee = not poor
    ops = [
        dict(tx={"t": "raw", "from": frm, "to": "c:store", "hex": "nil"}, dtx=dtx("PfNotIbtp", True, "BNilPayload", fee), tag="nil_payload"),
        dict(tx={"t": "raw", "from": frm, "to": "c:store", "hex": "ffffff"}, dtx=dtx("PfNotIbtp", True, "BBadTxData", fee), tag="bad_txdata"),
        dict(tx={"t": "raw", "from": frm, "to": "c:store", "hex": ""}, dtx=dtx("PfNotIbtp", True, "BOpaque", fee), tag="empty_payload"),
        dict(tx={"t": "td", "from": frm, "to": "c:store", "type": 1, "vmtype": 9, "hex": "00"}, dtx=dtx("PfNotIbtp", True, "BWrongVm", fee), tag="wrong_vm"),
        dict(tx={"t": "td", "from": frm, "to": "c:store", "type": 7, "vmtype": 0, "hex": "ff"}, dtx=dtx("PfNotIbtp", True, "(BBvm BcBadInvokePayload)", fee), tag="bad_invoke_payload"),
        dict(tx={"t": "td", "from": frm, "to": "c:store", "type": 1, "vmtype": 1, "hex": "00"}, dtx=dtx("PfNotIbtp", True, "(BXvm None)", fee), tag="xvm"),
        dict(tx={"t": "bvm", "from": frm, "to": "u:3", "m": "Set", "args": []}, dtx=dtx("PfNotIbtp", True, "(BBvm BcUnknownContract)", fee), tag="unknown_contract"),
        dict(tx={"t": "bvm", "from": frm, "to": "x:0x00000000000000000000000000000000000000ee", "m": "Set", "args": []},
             dtx=dtx("PfNotIbtp", True, "(BBvm BcUnknownContract)", fee), tag="unknown_contract"),
        dict(tx={"t": "bvm", "from": frm, "to": "c:store", "m": "", "args": []}, dtx=dtx("PfNotIbtp", True, "(BBvm BcUnknownMethod)", fee), tag="unknown_method"),
        dict(tx={"t": "bvm", "from": frm, "to": "c:store", "m": "set", "args": []}, dtx=dtx("PfNotIbtp", True, "(BBvm BcUnknownMethod)", fee), tag="unknown_method"),
        dict(tx={"t": "bvm", "from": frm, "to": "c:store", "m": "M" * 5000, "args": []}, dtx=dtx("PfNotIbtp", True, "(BBvm BcUnknownMethod)", fee), tag="unknown_method"),
        dict(tx={"t": "transfer", "from": frm, "to": "u:2", "amt": str(2**256)}, dtx=dtx("PfNotIbtp", True, "(BTransfer None)", fee), tag="transfer_extreme"),
        dict(tx={"t": "transfer", "from": frm, "to": "u:2", "amt": ("-" if not poor else "") + str(2**255), "nonce": 2**64 - 1}, dtx=dtx("PfNotIbtp", True, "(BTransfer None)", fee), tag="transfer_extreme"),
        dict(tx={"t": "transfer", "from": frm, "to": "u:2", "amt": "9" * 3000}, dtx=dtx("PfNotIbtp", True, "(BTransfer None)", fee), tag="transfer_extreme"),
    ]
    # byte-level mutations of a well-formed invoke / transfer payload
    base = bytes.fromhex("080112" + "0a" + "0a035365741204120161")  # arbitrary near-valid protobuf
    for _ in range(6):
        b = bytearray(base)
        k = r.randrange(4)
        if k == 0 and b:
            b[r.randrange(len(b))] ^= 1 << r.randrange(8)
        elif k == 1:
            b = b[:r.randrange(len(b))]
        elif k == 2:
            b.insert(r.randrange(len(b) + 1), r.randrange(256))
        else:
            b = bytearray(r.getrandbits(8) for _ in range(r.randrange(1, 40)))
        ops.append(dict(tx={"t": "raw", "from": frm, "to": "c:store", "hex": bytes(b).hex()}, dtx=dtx("PfNotIbtp", True, "BOpaque", fee), tag="byte_mutation"))
    return ops


ZERO = "x:0x0000000000000000000000000000000000000000"


def xvm_deploy(frm, fee_ok, module=None, tag="xvm_deploy"):
    """XVM (wasm) deployment: TransactionData{INVOKE, XVM, Payload = module} to the zero address"""
    good = module is None
    return dict(tx={"t": "td", "from": frm, "to": ZERO, "type": 1, "vmtype": 1, "hex": X.WASM_FIRSTBYTE if good else module},
                dtx=dtx("PfNotIbtp", True, "(BXvmDeploy %s)" % gbool(good), fee_ok), tag=tag + ("" if fee_ok else "_poor") + ("" if good else "_bad"))


def xvm_ops(r, frm, poor):
    fee = not poor
    ops = [xvm_deploy(frm, fee), xvm_deploy(frm, fee, module="00112233"), xvm_deploy(frm, fee, module="")]
    # invocation of an address without code / with junk input (the deployed address depends on the sender's nonce: not predicted)
    ops.append(dict(tx={"t": "td", "from": frm, "to": "u:7", "type": 1, "vmtype": 1, "hex": "0a0161"}, dtx=dtx("PfNotIbtp", True, "(BXvm None)", fee), tag="xvm_invoke_nocode"))
    ops.append(dict(tx={"t": "td", "from": frm, "to": "c:store", "type": 1, "vmtype": 1, "hex": ""}, dtx=dtx("PfNotIbtp", True, "(BXvm None)", fee), tag="xvm_invoke_nocode"))
    return ops


def ibtp_ops(r, frm, poor):
    """IBTP transactions: field mutations with an accepting rule, and proof defects"""
    fee = not poor
    ops = []
    mut = [dict(frm="a:b"), dict(frm=""), dict(to="::"), dict(to="x" * 5000 + ":a:b"), dict(index=0), dict(index=2**64 - 1), dict(typ=99), dict(typ=4),
           dict(timeout=-2**63), dict(timeout=2**63 - 1), dict(payload="ffff"), dict(group=["a", "b"]), dict(extra="00" * 3000),
           dict(frm="9999:chainZ:svc"), dict(to="1356:chainQ:nosuch"), dict(frm="1356:chainA:svc1:extra"),
           # registered services whose ids contain the separators of the timeout lists / IBTP ids, with short timeouts
           dict(frm="1356:chainA:swap,v2", timeout=1, index=1), dict(frm="1356:chainA:a-b", timeout=2, index=1), dict(to="1356:chainB:b,c", timeout=1),
           # verified proofs whose handling makes the interchain contract panic (nil service / missing records): recovered by HandleIBTP
           dict(typ=1, frm="1356:chainA:nosuch"), dict(typ=2, frm="1356:chainA:nosuch"), dict(typ=1), dict(typ=3, frm="1356:chainB:nosuch", to="1356:chainA:svc1")]
    for mu in r.sample(mut, 8):
        i = X.ibtp(r.randrange(1, 4), **mu)
        # the proof check happens first: origin chain of a request is taken from From
        parts = i["from"].split(":")
        local_known = len(parts) == 3 and parts[0] == "1356" and parts[1] in ("chainA", "chainB")
        if i["type"] in (1, 2, 3):
            parts = i["to"].split(":")
            local_known = len(parts) == 3 and parts[0] == "1356" and parts[1] in ("chainA", "chainB")
        elif i["type"] not in (0,):
            parts = i["to"].split(":")
            local_known = len(parts) == 3 and parts[0] == "1356" and parts[1] in ("chainA", "chainB")
        proof = "PfVerified" if local_known else "PfRejectedErr"
        ops.append(dict(tx={"t": "ibtp", "from": frm, "ibtp": i}, dtx=dtx(proof, True, "(BIbtp BUnknown)", fee), tag="ibtp_mutation"))
    for kind in ("absent", "mismatch"):
        ops.append(dict(tx={"t": "ibtp", "from": frm, "ibtp": X.ibtp(1), "proof": {"kind": kind}}, dtx=dtx("PfRejectedErr", True, "(BIbtp BUnknown)", fee), tag="proof_" + kind))
    # rule error (Fabric rule fed junk), no rule, unregistered chain
    ops.append(dict(tx={"t": "ibtp", "from": frm, "ibtp": X.ibtp(1, frm="1356:chainF:svc1")}, dtx=dtx("PfRejectedErr", True, "(BIbtp BUnknown)", fee), tag="proof_rule_error"))
    ops.append(dict(tx={"t": "ibtp", "from": frm, "ibtp": X.ibtp(1, frm="1356:chainN:svc1")}, dtx=dtx("PfRejectedErr", True, "(BIbtp BUnknown)", fee), tag="proof_no_rule"))
    ops.append(dict(tx={"t": "ibtp", "from": frm, "ibtp": X.ibtp(1, frm="1356:chainU:svc1")}, dtx=dtx("PfRejectedErr", True, "(BIbtp BUnknown)", fee), tag="proof_unregistered"))
    return ops


SEED = list(X.SEED2) + [{"op": "seed_chain", "chain": "chainF", "rule": "fabric"}, {"op": "seed_chain", "chain": "chainN", "rule": "none"},
                        {"op": "seed_chain", "chain": "chainW", "rule": X.RULE_WASM_ADDR}, {"op": "set_wasm_rule", "acct": "x:" + X.RULE_WASM_ADDR, "hex": X.WASM_FIRSTBYTE},
                        {"op": "seed_chain", "chain": "chainX", "rule": X.RULE_NIL_ADDR}, {"op": "set_wasm_rule", "acct": "x:" + X.RULE_NIL_ADDR, "hex": "00112233"},
                        {"op": "seed_service", "chain": "chainW", "svc": "svc1", "ordered": True},
                        {"op": "seed_service", "chain": "chainA", "svc": "swap,v2", "ordered": True}, {"op": "seed_service", "chain": "chainA", "svc": "a-b", "ordered": True},
                        {"op": "seed_service", "chain": "chainB", "svc": "b,c", "ordered": True},
                        {"op": "seed_appchain_admin", "chain": "chainA", "acct": "u:5"}, {"op": "fund", "acct": "u:5", "amt": "1000000000000"},
                        {"op": "fund", "acct": "u:0", "amt": "1000000000000"}, {"op": "fund", "acct": "u:1", "amt": "1"}]


def corpus(surface):
    """the crash witnesses (one per defect flag) and their harmless neighbours"""
    out = []
    tob = "1356:1356:0x00000000000000000000000000000000000000ff"
    sig_pie = "{| ms_params := [KIface]; ms_variadic := false; ms_response := false; ms_promoted := (Some SeEvent) |}"
    sig_evm = "{| ms_params := [KStr; KBytes]; ms_variadic := false; ms_response := true; ms_promoted := (Some SeEvm) |}"
    sig_ii = "{| ms_params := [KBytes]; ms_variadic := false; ms_response := true; ms_promoted := None |}"

    def h(ops, gas=0, proof="", **kw):
        return dict(cfg=dict(admins=4, gas=gas, audit=False, bal="1000000000000000", proof=proof), pre=SEED, blocks=[ops], blk_kw=kw)
    out.append(h([dict(tx={"t": "bvm", "from": "u:0", "to": "c:store", "m": "PostInterchainEvent", "args": [["s", "x"]]},
                       dtx=dtx("PfNotIbtp", True, "(BBvm (BcCall %s [AStr] BOk false))" % sig_pie, True), tag="promoted_event")]))
    ev = {"t": "bvm", "to": "c:store", "m": "CrossInvokeEVM", "args": [["s", "0x00000000000000000000000000000000000000ff"], ["bs", "junk"]]}
    out.append(h([dict(tx=dict(ev, **{"from": "u:1"}), dtx=dtx("PfNotIbtp", True, "(BBvm (BcCall %s [AStr; ABytes] BOk false))" % sig_evm, False), tag="promoted_evm_poor")], gas=1))
    out.append(h([dict(tx=dict(ev, **{"from": "u:0"}), dtx=dtx("PfNotIbtp", True, "(BBvm (BcCall %s [AStr; ABytes] BOk false))" % sig_evm, True), tag="promoted_evm_rich")], gas=1))
    ii = {"t": "bvm", "to": "c:interbroker", "m": "InvokeInterchain", "args": [["ibtp", X.ibtp(1, to=tob, payload="content:foo")]]}
    out.append(h([dict(tx=dict(ii, **{"from": "u:1"}), dtx=dtx("PfNotIbtp", True, "(BBvm (BcCall %s [ABytes] BOk true))" % sig_ii, False), tag="invoke_interchain_poor")], gas=1))
    out.append(h([dict(tx=dict(ii, **{"from": "u:0"}), dtx=dtx("PfNotIbtp", True, "(BBvm (BcCall %s [ABytes] BOk true))" % sig_ii, True), tag="invoke_interchain_rich")], gas=1))
    out.append(h([dict(tx={"t": "ibtp", "from": "u:0", "ibtp": X.ibtp(1, frm="1356:chainW:svc1"), "proof": {"kind": "hex", "hex": b"0no".hex()}},
                       dtx=dtx("PfRejectedFalse", True, "(BIbtp BUnknown)", True), tag="rule_false")]))
    out.append(h([dict(tx={"t": "ibtp", "from": "u:0", "ibtp": X.ibtp(1, frm="1356:chainW:svc1"), "proof": {"kind": "hex", "hex": b"1yes".hex()}},
                       dtx=dtx("PfVerified", True, "(BIbtp BUnknown)", True), tag="rule_true")]))
    out.append(h([dict(tx={"t": "ibtp", "from": "u:0", "ibtp": X.ibtp(1, frm="1356:chainX:svc1")},
                       dtx=dtx("PfValidatorNil", True, "(BIbtp BUnknown)", True), tag="nil_validator")]))
    out.append(h([dict(tx={"t": "transfer", "from": "u:0", "to": "u:2", "amt": "5", "mut": {"nil_to": 1}}, dtx=dtx("PfNotIbtp", True, "BNilTo", True), tag="nil_to")]))
    out.append(h([dict(tx={"t": "transfer", "from": "u:0", "to": "u:2", "amt": "5", "mut": {"nil_from": 1}}, dtx=dtx("PfNotIbtp", True, "BNilFrom", True), tag="nil_from")]))
    # XVM deployment that succeeds but cannot pay its fee (the revert undoes a code write), at several positions
    fill = lambda i: dict(tx={"t": "bvm", "from": "u:0", "to": "c:store", "m": "Set", "args": [["s", "k%d" % i], ["s", "v1"]]},
                          dtx=dtx("PfNotIbtp", True, "(BBvm (BcCall {| ms_params := [KStr; KStr]; ms_variadic := false; ms_response := true; ms_promoted := None |} [AStr; AStr] BOk false))", True), tag="store_set")
    out.append(h([xvm_deploy("u:1", False)], gas=1, deadline_ms=6000))
    out.append(h([fill(0), xvm_deploy("u:1", False), fill(1)], gas=1, deadline_ms=6000))
    out.append(h([fill(0), fill(1), xvm_deploy("u:1", False)], gas=1, deadline_ms=6000))
    out.append(h([xvm_deploy("u:0", True), xvm_deploy("u:1", False, module="00112233")], gas=1, deadline_ms=6000))
    # deployment by a funded account, then invocations of the deployed rule module
    out.append(h([xvm_deploy("u:0", True),
                  dict(tx={"t": "td", "from": "u:0", "to": "w:u:0/0", "type": 1, "vmtype": 1, "hex": "0a0c73746172745f766572696679"},
                       dtx=dtx("PfNotIbtp", True, "(BXvm None)", True), tag="xvm_invoke")], gas=0))
    # verified IBTPs whose handling panics inside the interchain contract (nil service record): HandleIBTP's recover
    out.append(h([dict(tx={"t": "ibtp", "from": "u:0", "ibtp": X.ibtp(1, typ=t, frm=f)}, dtx=dtx("PfVerified", True, "(BIbtp BUnknown)", True), tag="ibtp_contract_panic")
                  for t, f in ((1, "1356:chainA:nosuch"), (2, "1356:chainA:nosuch"), (1, "1356:chainA:svc1"))]))
    # a rejected proof in every position of a block whose length is not a multiple of the group size, parallel grouping
    for pos in range(7):
        ops = []
        for i in range(7):
            if i == pos:
                ops.append(dict(tx={"t": "ibtp", "from": "u:0", "ibtp": X.ibtp(1), "proof": {"kind": "mismatch"}}, dtx=dtx("PfRejectedErr", True, "(BIbtp BUnknown)", True), tag="proof_mismatch_pos%d" % pos))
            else:
                ops.append(dict(tx={"t": "bvm", "from": "u:0", "to": "c:store", "m": "Set", "args": [["s", "k%d" % i], ["s", "v1"]]},
                                dtx=dtx("PfNotIbtp", True, "(BBvm (BcCall {| ms_params := [KStr; KStr]; ms_variadic := false; ms_response := true; ms_promoted := None |} [AStr; AStr] BOk false))", True), tag="store_set"))
        out.append(h(ops, proof="parallel"))
    # address ARGUMENTS that are valid hex but not 20 bytes (or empty / odd / unprefixed): they pass the contracts'
    # HexDecodeString format checks and reach Stub.GetAccount, where NewAddressByStr yields nil and the ledger panics
    # under the bolt VM's recover - a FAILED receipt, and the ledger must stay usable for the fee and for the next tx
    S = lambda v: ["s", v]

    def call(frm, c, mname, args, fee_ok=True):
        m = [x for x in surface.get(c, []) if x["name"] == mname]
        sig = msig(m[0]) if m else "{| ms_params := %s; ms_variadic := false; ms_response := true; ms_promoted := None |}" % glist(["KStr"] * len(args))
        gv = glist(["ABytes" if a[0] in ("b", "bs") else "AStr" for a in args])
        return dict(tx={"t": "bvm", "from": frm, "to": "c:" + c, "m": mname, "args": args},
                    dtx=dtx("PfNotIbtp", True, "(BBvm (BcCall %s %s BUnknown false))" % (sig, gv), fee_ok), tag="malformed_address_arg")
    for bad in BAD_ADDRS:
        ops = [call("u:5", "rule", "RegisterRule", [S("chainA"), S(bad), S("url")]),
               fill(0),
               call("u:5", "rule", "UpdateMasterRule", [S("chainA"), S(bad), S("r")]),
               call("u:0", "appchain", "RegisterAppchain", [S("chainQ"), S("nameQ"), ["b", "00"], S("ETH"), ["b", "00"], S("0xbroker"), S("d"), S(bad), S("url"), ["sa", "u:0"], S("r")]),
               call("u:0", "dapp", "RegisterDapp", [S("dappQ"), S("tool"), S("d"), S("url"), S(bad), S(""), S("r")]),
               fill(1)]
        out.append(h(ops, gas=1, deadline_ms=6000))
    # malformed service identifiers: ids are free-form, the timeout lists are comma-joined and an IBTP id is from-to-index.
    # An ACCEPTED request with a timeout whose service ids contain ',' / '-' / ':' and then more blocks than the timeout:
    # whatever the executor's block post-processing makes of the list entry, the node must go on committing blocks
    for svc, dst, tmo in (("swap,v2", "svc1", 2), ("svc1", "b,c", 1), ("a-b", "svc1", 2), (",", "svc1", 1), ("a,b,c-d", "e,f", 2), ("x-1356:chainB:svc1-1,y", "svc1", 1)):
        pre = SEED + [{"op": "seed_service", "chain": "chainA", "svc": svc, "ordered": True}, {"op": "seed_service", "chain": "chainB", "svc": dst, "ordered": True}]
        blocks = [[dict(tx={"t": "ibtp", "from": "u:0", "ibtp": X.ibtp(1, frm="1356:chainA:" + svc, to="1356:chainB:" + dst, timeout=tmo)},
                        dtx=dtx("PfVerified", True, "(BIbtp BUnknown)", True), tag="ibtp_malformed_service_id")]]
        blocks += [[fill(i)] for i in range(tmo + 2)]
        out.append(dict(cfg=dict(admins=4, gas=0, audit=False, bal="1000000000000000", proof=""), pre=pre, blocks=blocks, blk_kw={}))
    # bad signatures in a non-local block
    out.append(h([dict(tx={"t": "bvm", "from": "u:0", "to": "c:store", "m": "Set", "args": [["s", "k1"], ["s", "v1"]], "mut": {"bad_sig": 1}},
                       dtx=dtx("PfNotIbtp", False, "(BBvm BcUnknownMethod)", True), tag="bad_signature")], local=False))
    return out


def gen_histories(r, surface, quick):
    out = []
    methods = [(c, m) for c, ms in sorted(surface.items()) for m in ms]
    r.shuffle(methods)
    per = 12
    take = methods
    # promoted event / evm methods crash: they are exercised by the corpus on their own
    take = [(c, m) for c, m in take if not (m.get("promoted") and m["name"] in ("PostInterchainEvent", "CrossInvokeEVM"))
            and not (c == "interbroker" and m["name"] in ("InvokeInterchain", "InvokeReceipt", "EmitInterchain"))]
    for i in range(0, len(take), per):
        gas = r.choice([0, 0, 1])
        ops = []
        for c, m in take[i:i + per]:
            poor = gas == 1 and r.random() < 0.3
            mo = method_ops(r, c, m, "u:1" if poor else "u:0", poor)
            ops += r.sample(mo, 2) if quick else mo
        out.append(dict(cfg=dict(admins=4, gas=gas, audit=r.random() < 0.3, bal="1000000000000000", proof=r.choice(["", "parallel"])), pre=SEED,
                        blocks=[ops[j:j + 9] for j in range(0, len(ops), 9)], blk_kw={}))
    for _ in range(10 if quick else 150):
        gas = r.choice([0, 1])
        poor = gas == 1 and r.random() < 0.4
        frm = "u:1" if poor else "u:0"
        ops = payload_ops(r, frm, poor) + ibtp_ops(r, frm, poor) + xvm_ops(r, frm, poor)
        r.shuffle(ops)
        out.append(dict(cfg=dict(admins=4, gas=gas, audit=r.random() < 0.3, bal="1000000000000000", proof=r.choice(["", "parallel"])), pre=SEED,
                        blocks=[ops[j:j + 7] for j in range(0, len(ops), 7)], blk_kw={}))
    return out


def to_history(g):
    steps = g["pre"] + [X.blk([])] + [X.blk([o["tx"] for o in ops], **g.get("blk_kw", {})) for ops in g["blocks"]]
    return {"cfg": g["cfg"], "steps": steps, "timeout_ms": 90000}


def build_rows(g, out, flagsets):
    rows = []
    steps = out.get("steps") or []
    npre = len(g["pre"]) + 1
    for bi, ops in enumerate(g["blocks"]):
        si = npre + bi
        txs = glist([o["dtx"] for o in ops])
        if si < len(steps):
            ob = steps[si]
            if ob.get("hang"):
                obs = "OHang"
            else:
                recs = ob.get("receipts") or []
                ordered = all(rc[3] for rc in recs) and all(rc[0] in (0, 1) for rc in recs) and ob.get("nhash") == ob.get("ntx")
                hp = ob["height"][1] == ob["height"][0] + 1 and ob["height"][2] == ob["height"][1]
                obs = "(OReceipts %s %s %s)" % (glist([gbool(rc[0] == 0) for rc in recs]), gbool(hp), gbool(bool(ordered)))
        elif si == len(steps):
            obs = "OHang" if out.get("killed") else "OCrash"
        else:
            break
        rows.append(("{| dc_cfgs := %s; dc_txs := %s; dc_obs := %s |}" % (glist([gdcfg(f) for f in flagsets]), txs, obs),
                     dict(block=si, tags=[o["tag"] for o in ops], obs=obs[:40])))
    return rows


PRE = "From Coq Require Import String.\nFrom BX Require Import Base.Prelude Model.Sites Model.Dispatch.\nLocal Open Scope N_scope.\n"


def judge(ctx, items, flagsets):
    flat = []
    for g, out in items:
        for row, info in build_rows(g, out, flagsets):
            info["g"] = g
            flat.append((g, out, row, info))
    vs, msg = vlib.coq_judge_sharded("C08_dispatch", PRE, "dcase", "judge_dispatch", [f[2] for f in flat], shard=40)
    if vs is None:
        ctx.broken("correspondence:judge_dispatch", msg)
        return None
    return [(g, o, info, v) for (g, o, _, info), v in zip(flat, vs)]


def flag_setup():
    open_map = X.open_flags([PID])
    return open_map, X.subsets([f for f in DFLAGS if f in open_map])


def evaluate(ctx, items, flagsets, open_map):
    res = judge(ctx, items, flagsets)
    if res is None:
        return
    for g, out, info, v in res:
        hist = to_history(g)
        blk = hist["steps"][info["block"]]
        hostile = any(t not in ("store_set",) for t in info["tags"])
        ctx.count(case_key=json.dumps([g["cfg"], blk], sort_keys=True), nontrivial=hostile,
                  sample=dict(driver="execframe", cfg=g["cfg"], tags=info["tags"][:12], obs=info["obs"], verdict=v))
        ctx.traces_validated += 1
        gg = dict(g)
        rep = dict(property=PID, kind="dispatch", g=gg, history=hist, block=info["block"], verdict=v, tags=info["tags"],
                   panic=out.get("panic"), site=out.get("site"))
        kind = X.handle_verdict(ctx, PID, v, flagsets, open_map, "block execution crashed, hung, or lost / reordered receipts (%s)" % (out.get("panic") or ""), rep)
        if kind == "mismatch":
            ctx.broken("correspondence:judge_dispatch", "first differing block: replay=%s %s" % (X.save_mismatch(ctx, rep), json.dumps(rep)[:600]))


def run(ctx):
    ctx.proofs(["Proofs/DispatchProofs"], model_targets=["Sites", "Dispatch"])
    exe, err = vlib.build_harness("execframe")
    if exe is None:
        ctx.broken("harness-build", err)
        return ctx.finish(rule="-")
    open_map, flagsets = flag_setup()
    if ctx.model_ok:
        try:
            surface = get_surface(exe)
        except Exception as e:      # noqa: BLE001
            ctx.broken("driver:surface", str(e))
            return ctx.finish(rule="-")
        items = corpus(surface) + gen_histories(ctx.rng, surface, ctx.quick)
        outs, e = X.run_histories(exe, [to_history(g) for g in items])
        if outs is None:
            ctx.broken("driver:execframe", e)
        else:
            evaluate(ctx, list(zip(items, outs)), flagsets, open_map)
            tags = {}
            for g in items:
                for b in g["blocks"]:
                    for o in b:
                        t = o["tag"].split("_pos")[0]
                        tags[t] = tags.get(t, 0) + 1
            ctx.extra["hostile_distribution"] = dict(histories=len(items), contracts=len(surface), methods=sum(len(v) for v in surface.values()), tx_kinds=tags,
                                                     crashes=sum(1 for o in outs if o.get("crash")), hangs=sum(1 for o in outs if o.get("killed")))
    return ctx.finish(rule="every method reachable by reflection on every registered contract (enumerated from GetBoltContracts) x {exact shape, arity-1, arity+1, one "
                           "kind swapped} with values from a typed pool incl. empty / 20 kB / malformed ids / numeric extremes / unparsable numbers / unknown type tags; "
                           "payload mutations (nil, undecodable, wrong vm, xvm, unknown contract / method, byte flips, truncations, insertions, random bytes); IBTP field "
                           "mutations and proof defects; gas price 0/1 with poor senders; serial and parallel proof grouping; every history in its own process with a "
                           "deadline; non-trivial = a block containing at least one hostile transaction, distinct by (config, block)")


def replay(ctx, path):
    obj = json.load(open(path))
    exe, err = vlib.build_harness("execframe")
    open_map, flagsets = flag_setup()
    g = obj["g"]
    outs, e = X.run_histories(exe, [to_history(g)])
    if outs is None:
        print(e)
        return 1
    res = judge(ctx, [(g, outs[0])], flagsets)
    vs = [(i["block"], v) for _, _, i, v in (res or [])]
    print(json.dumps(dict(impl=dict(crash=outs[0].get("crash"), killed=outs[0].get("killed"), panic=outs[0].get("panic"), site=outs[0].get("site")),
                          verdicts=vs, flagsets=[sorted(f) for f in flagsets])))
    return 1 if res is None or any(v[0] != 0 for _, v in vs) else 0
