"""C04: the status of a one-to-one cross-chain transaction follows the protocol state machine."""
from checks import ibtp_common as C


def run(ctx):
    gens = [
        (5, C.gen_timeout),
        (3, lambda r: C.gen_mixed(r, C.W_ORDERED3, nblocks=r.randrange(4, 12), p_group=0.05)),
        (2, lambda r: C.gen_mixed(r, C.W_MIXED, nblocks=r.randrange(3, 10))),
        (3, C.gen_hub),
        (1, C.gen_group),
    ]
    return C.run_check(ctx, "C04", gens, 170, 8000)


def replay(ctx, path):
    return C.replay_check(ctx, "C04", path)
