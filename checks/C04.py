"""C04: the status of a one-to-one cross-chain transaction follows the protocol state machine."""
from checks import ibtp_common as C


def run(ctx):
    gens = [
        (4, C.gen_timeout),
        (3, C.gen_shared_expiry),
        (1, C.gen_shared_group_expiry),
        (1, C.gen_dash),
        (3, lambda r: C.gen_mixed(r, C.W_ORDERED3, nblocks=r.randrange(4, 12), p_group=0.05)),
        (2, lambda r: C.gen_mixed(r, C.W_MIXED, nblocks=r.randrange(3, 10))),
        (3, C.gen_hub),
        (1, C.gen_group),
    ]
    ctx.post_search = table_search
    return C.run_check(ctx, "C04", gens, 120, 8000)


def table_search(ctx, exe):
    """a generated-table obligation broke (the status table in the source changed): one-to-one receipts
    are additionally guarded by the receipt index, so also search the one-to-many histories, whose
    children go through the same setFSM, with the group predicate"""
    if ctx.violations or not any(w.startswith("proof:") for w, _ in (ctx.broken_list or [])):
        return
    hs = [C.gen_group(ctx.rng) for _ in range(60 if ctx.quick else 1500)]
    rows = C.eval_histories(ctx, "C05", exe, hs, "t")
    for h, impl, v in rows:
        if v[0] == 2:
            small = C.shrink(ctx, "C05", exe, h, 2)
            ctx.violation("status table changed: a child status leaves the protocol's transitions (group predicate false on the implementation trace)",
                          dict(property="C04", driver="ibtp", history=small, verdict=v, judged_as="C05"))
            return


def replay(ctx, path):
    return C.replay_check(ctx, "C04", path)
