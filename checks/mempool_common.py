"""Shared machinery of the mempool checks (C18, C19): history generator, driver run, cases file,
in-Coq judge, shrinking, replay.  The two checks differ only in the failure codes they own."""
import json
import os
import vlib
from vlib import glist, gbool

CODES = {
    "C18": [1, 2, 3, 4, 5, 6, 7, 8, 9, 10],
    "C19": [11, 12, 13, 14, 15, 16, 17],
}
CODE_TEXT = {
    1: "batched a nonce below the account's commit nonce",
    2: "batched the same (account, nonce) twice before its commit",
    3: "batched a nonce whose predecessor is neither committed nor batched (gap)",
    4: "batched a transaction that was never handed to the pool",
    5: "batch longer than the configured batch size",
    6: "batch height is not the previous height + 1",
    7: "batched transaction is not the one currently held for its slot",
    8: "commit nonce moved without a commit that justifies it",
    9: "batched a nonce below the nonce the ledger reports for the account",
    10: "a commit named a transaction the pool still tracks (its slot occupied ever since it was taken), yet the commit nonce did not pass its nonce",
    11: "GetTransaction(h) returned a transaction whose hash is not h",
    12: "a held transaction disappeared without commit / supersede / age eviction / restart",
    13: "a fresh transaction at or above the pending nonce was not taken",
    14: "a ready, unbatched transaction exists but HasPendingRequest is false",
    15: "pending nonce is not the first missing nonce counted from the commit nonce",
    16: "txHashMap counts hashes whose slot is no longer in the pool (IsPoolFull over-reports)",
    17: "a ready transaction was not batched within ceil(ready/batchSize) generate+commit rounds",
    21: "intake cache: a transaction set handed to the consumer changed afterwards",
    22: "intake cache: the delivered sets are not the accepted transactions in order (each exactly once)",
    23: "intake cache: an accepted and delivered transaction is not in the pool after all sets were processed",
}
# open finding id -> (model defect flag, failure codes it explains)
# (a finding without a flag is behaviour the model reproduces unconditionally)
FINDING_FLAGS = {
    "C19-xacct-index": ("d_xacct_index", [15, 17, 13]),
    "C19-commit-pending": ("d_commit_pending", [15, 17, 14, 1, 13]),
    "C19-stale-entries": ("d_stale_entries", [16]),
    "C19-lookup-hash": ("d_lookup_hash", [11]),
    "C18-stale-commit-cache": (None, [9]),
}
FLAG_ORDER = ["d_xacct_index", "d_commit_pending", "d_stale_entries", "d_lookup_hash"]
NILV = 2**64 - 1


def open_findings():
    return {f["id"]: f for f in vlib.known_findings()
            if f.get("status") == "open" and f["id"] in FINDING_FLAGS}


def current_cfg(opened):
    on = {FINDING_FLAGS[i][0] for i in opened}
    return "(mkDefects %s)" % " ".join(gbool(f in on) for f in FLAG_ORDER)


# ----------------------------------------------------------------------------- histories

def universe(ops):
    u, seen = [], set()
    for op in ops:
        l = op[4] if op[0] == 0 else op[1] if op[0] == 2 else []
        for t in l:
            k = tuple(t)
            if k not in seen:
                seen.add(k)
                u.append(list(t))
    return u


def make_history(cfg, ledger, ops, tag=""):
    """the first operation of every history is the restart that creates the pool"""
    ops = [[5, cfg["height"], list(ledger)]] + [list(o) for o in ops]
    return dict(cfg=cfg, ledger=list(ledger), univ=universe(ops), ops=ops, tag=tag)


def gen_structured(r, big=False, with_ledger=False, with_query=False):
    k = r.choice([2, 2, 3, 3, 4])
    cfg = dict(batch=r.choice([1, 2, 2, 3, 4, 5, 8]), pool=r.choice([2, 3, 5, 8, 1000, 1000]),
               timed=r.choice([0, 0, 1]), height=r.choice([0, 1, 7, 100]))
    ledger = [r.choice([0, 0, 0, 1, 3, 7]) for _ in range(k)]
    front = list(ledger)               # next nonce a well-behaved client would send
    sent = []                          # every transaction created so far
    by_slot = {}
    clock = r.randrange(50, 200)
    nid = [1]
    ops = []

    def new_tx(a, n, ts=None):
        t = [a, n, nid[0], clock + r.randrange(-5, 6) if ts is None else ts]
        if t[3] < 0:
            t[3] = 0
        nid[0] += 1
        sent.append(t)
        by_slot.setdefault((a, n), []).append(t)
        return t

    nops = r.randrange(8, 40 if big else 26)
    for _ in range(nops):
        if big and len(ops) >= 60:
            break                                      # themes append several operations each: keep long histories bounded
        clock += r.choice([0, 1, 1, 2, 5, 20])
        x = r.random()
        if x < 0.46 or not sent:
            txs = []
            for _ in range(r.choice([1, 1, 2, 2, 3, 4, 6])):
                a = r.randrange(k)
                y = r.random()
                if y < 0.50:
                    t = new_tx(a, front[a]); front[a] += 1
                elif y < 0.68:
                    t = new_tx(a, front[a] + r.randrange(1, 4))
                    if r.random() < 0.5:
                        front[a] = max(front[a], t[1] - 1)
                elif y < 0.78 and sent:
                    o = r.choice(sent); t = new_tx(o[0], o[1])          # equal-nonce conflict, new id
                elif y < 0.88 and sent:
                    t = r.choice(sent)                                   # exact duplicate (same hash)
                elif y < 0.94:
                    t = new_tx(a, max(0, front[a] - r.randrange(1, 4)))  # stale or conflicting
                else:
                    t = new_tx(a, front[a], ts=r.choice([0, 1, clock]))  # equal timestamps across accounts
                txs.append(t)
            if r.random() < 0.2:
                r.shuffle(txs)
            ops.append([0, r.choice([0, 1, 1]), r.choice([0, 1]), clock, txs])
        elif x < 0.58:
            ops.append([1])
        elif x < 0.72:
            y = r.random()
            a = r.randrange(k)
            mine = sorted([t for t in sent if t[0] == a], key=lambda t: t[1])
            if y < 0.45 and mine:
                hs = mine[:r.randrange(1, len(mine) + 1)]                # a low prefix of one account
                if r.random() < 0.3:
                    hs = hs[-r.randrange(1, len(hs) + 1):]               # ... only its upper part (partial)
            elif y < 0.75:
                hs = r.sample(sent, min(len(sent), r.randrange(1, 5)))   # arbitrary subset, arbitrary order
            elif y < 0.9:
                hs = [[r.randrange(k), r.randrange(0, 6), 900000 + nid[0], clock]]   # unknown hash
                nid[0] += 1
                if sent:
                    hs.append(r.choice(sent))
            else:
                hs = list(reversed(mine[:4]))
            ops.append([2, hs])
        elif x < 0.80:
            ops.append([6, r.choice([1, 1, 2, 3, 6])])
        elif x < 0.90:
            ops.append([3, clock + r.choice([0, 0, 0, -30]), r.choice([0, 3, 10, 25, 60, 1000])])
        elif x < 0.93:
            ops.append([4, r.choice([0, 1, 5, 50, 100])])
        elif x < 0.955:
            led = [r.choice([ledger[i], front[i], r.choice([0, 2, 5])]) for i in range(k)]
            front = list(led)
            ops.append([5, r.choice([0, 3, 9, 100]), led])
        elif x < 0.975:
            ops.append([6, r.choice([8, 12])])
        elif with_ledger:
            # the chain moved on without this pool seeing the hashes: oracle advances, unknown hash committed
            a = r.randrange(k)
            ops.append([7, a, front[a] + r.choice([0, 1, 2])])
            ops.append([2, [[a, front[a], 800000 + nid[0], clock]]])
            nid[0] += 1
        else:
            ops.append([1])
        # themes: short scripted runs that exercise specific bookkeeping
        y = r.random()
        if y < 0.06:
            # several nonces of one account with timestamps in reverse nonce order, two generates before any commit
            a = r.randrange(k)
            m = r.choice([2, 3, 4])
            run = [new_tx(a, front[a] + i, ts=clock + 3 * (m - i)) for i in range(m)]
            front[a] += m
            if r.random() < 0.5:
                run = list(reversed(run))
            ops.append([0, r.choice([0, 0, 1]), 1, clock, run])
            ops.append([1]); ops.append([1])
        elif y < 0.11:
            # several batches in flight, then their commits out of order, then more work
            for _ in range(r.choice([2, 3, 4])):
                ops.append([1])
            inflight = sorted(sent, key=lambda t: (t[0], t[1]))
            chunks = [inflight[i:i + 2] for i in range(0, min(len(inflight), 8), 2)]
            r.shuffle(chunks)
            for ch in chunks[:3]:
                ops.append([2, ch])
            a = r.randrange(k)
            ops.append([0, 1, 1, clock, [new_tx(a, front[a])]]); front[a] += 1
            ops.append([1])
        elif y < 0.16:
            # parked, later promoted, then the age rule runs before anything is batched
            a = r.randrange(k)
            hi = new_tx(a, front[a] + 1)
            ops.append([0, 0, 1, clock, [hi]])
            clock += r.choice([5, 30])
            lo = new_tx(a, front[a])
            ops.append([0, 0, 1, clock, [lo]])
            front[a] += 2
            clock += r.choice([1, 10, 40])
            ops.append([3, clock, r.choice([0, 3, 8, 20])])
            ops.append([1])
        elif y < 0.22:
            # X parked at a future nonce, a conflicting Y takes the slot over, the gap is filled while this node does
            # not batch, a block from elsewhere commits the prefix and X (by X's hash), then this node generates
            a = r.randrange(k)
            gap = r.choice([1, 2, 3])
            x = new_tx(a, front[a] + gap)
            ops.append([0, 0, 1, clock, [x]])
            clock += 1
            yy = new_tx(a, front[a] + gap)
            ops.append([0, 0, r.choice([0, 1]), clock, [yy]])
            fill = [new_tx(a, front[a] + i) for i in range(gap)]
            ops.append([0, 0, 1, clock, fill])
            front[a] += gap + 1
            ops.append([2, fill + [r.choice([x, x, yy])]])
            ops.append([1])
            ops.append([6, 1])
        elif 0.27 <= y < 0.33 and with_query:
            # a fresh pool; an API goroutine asks for the pending nonce of an account that is not cached yet and its ledger
            # look-up is slow; meanwhile the node admits, batches and commits the first nonces of that account
            a = r.randrange(k)
            led = [r.choice([0, 0, 2]) for _ in range(k)]
            front = list(led)
            m2 = r.choice([1, 2, 2, 3])
            run = [new_tx(a, front[a] + i) for i in range(m2)]
            front[a] += m2
            ops.append([8, r.choice([1, 9]), led, a, 3])
            ops.append([0, r.choice([0, 1]), 1, clock, run])
            ops.append([1])
            ops.append([2, run])
            ops.append([0, 1, 1, clock + 1, [new_tx(a, front[a])]]); front[a] += 1
            ops.append([1])
            ops.append([6, 1])
        elif y < 0.27:
            # two batches of one account in flight, their commit reports arrive in the wrong order
            a = r.randrange(k)
            m = 2 * max(1, min(cfg["batch"], 3))
            run = [new_tx(a, front[a] + i) for i in range(m)]
            front[a] += m
            ops.append([0, 0, 1, clock, run])
            ops.append([1]); ops.append([1])
            h = m // 2
            ops.append([2, run[h:]])
            ops.append([2, run[:h]])
            ops.append([0, 1, 1, clock, [new_tx(a, front[a])]]); front[a] += 1
            ops.append([1])
    return make_history(cfg, ledger, ops, "structured+ledger" if with_ledger else "structured")


def gen_malformed(r):
    k = r.choice([1, 2, 3])
    cfg = dict(batch=r.choice([0, 1, 2, 600]), pool=r.choice([0, 1, 2]), timed=r.choice([0, 1]), height=r.choice([0, 2**40]))
    ledger = [r.choice([0, 5, 2**40]) for _ in range(k)]
    ops = []
    txs = []
    nid = 1
    for _ in range(r.randrange(1, 14)):
        x = r.random()
        if x < 0.35:
            l = []
            for _ in range(r.choice([0, 0, 1, 2, 5])):
                a = r.randrange(k)
                n = r.choice([0, 1, 2, ledger[a], ledger[a] + 1, 2**40, 2**40 + 1])
                t = [a, n, nid, r.choice([0, 0, 7, 2**50])]
                nid += 1
                l.append(t)
                if r.random() < 0.4:
                    l.append(t)                      # same transaction twice in one call
                txs.append(t)
            ops.append([0, r.choice([0, 1]), r.choice([0, 1]), r.choice([0, 5, 2**29]), l])
        elif x < 0.5:
            hs = [r.choice(txs) for _ in range(r.choice([0, 1, 3]))] if txs else []
            if hs and r.random() < 0.5:
                hs = hs + hs                          # the same hash twice
            if r.random() < 0.3:
                hs.append([r.randrange(k), 2**40 + 5, 10**9 + nid, 1]); nid += 1
            ops.append([2, hs])
        elif x < 0.6:
            ops.append([1])
        elif x < 0.72:
            ops.append([3, r.choice([0, 1, 10, 2**29 + 7]), r.choice([0, 0, 1, 2**29])])
        elif x < 0.8:
            ops.append([4, r.choice([0, 2**50, 3])])
        elif x < 0.9:
            ops.append([6, r.choice([0, 1, 4])])
        else:
            ops.append([5, r.choice([0, 1]), [r.choice([0, 1, 2**40]) for _ in range(k)]])
    return make_history(cfg, ledger, ops, "malformed")


def gen_exhaustive(length, naccts=2, nonces=(0, 1, 2), commits=(0, 1)):
    """all operation sequences of the given length over a small alphabet (thorough tier)"""
    import itertools
    alpha = []
    for a in range(naccts):
        for n in nonces:
            alpha.append(("p", a, n))
    alpha += [("g",)] + [("c", a) for a in commits] + [("d",), ("r",)]
    for seq in itertools.product(alpha, repeat=length):
        yield seq


def concretise_small(seq, batch, timed):
    """turn a small-alphabet sequence into a history: p = leaderless submit of one tx, g = generate,
    c i = commit the i-th lowest submitted-but-uncommitted slot's newest tx of account i%2, d = drain 1, r = evict"""
    cfg = dict(batch=batch, pool=1000, timed=timed, height=1)
    ops, clock, nid = [], 100, 1
    latest = {}
    for s in seq:
        clock += 10
        if s[0] == "p":
            t = [s[1], s[2], nid, clock]
            nid += 1
            latest[(s[1], s[2])] = t
            ops.append([0, 0, 1, clock, [t]])
        elif s[0] == "g":
            ops.append([1])
        elif s[0] == "c":
            mine = sorted(k for k in latest if k[0] == s[1])
            if mine:
                ops.append([2, [latest[mine[-1]]]])
            else:
                ops.append([2, []])
        elif s[0] == "d":
            ops.append([6, 1])
        else:
            ops.append([3, clock, 15])
    return make_history(cfg, [0, 0], ops, "exhaustive")


# ----------------------------------------------------------------------------- running both sides

def driver_input(h):
    return dict(cfg=h["cfg"], ledger=h["ledger"], univ=h["univ"], ops=h["ops"])


def run_impl(exe, hists):
    rc, outs, e = vlib.run_driver(exe, "mempool", [driver_input(h) for h in hists], timeout=3000)
    if rc != 0 or len(outs) != len(hists):
        return None, (e or "")[-1500:]
    return outs, ""


def g_tx(t):
    return "(mkTx %d %d %d %d)" % tuple(t)


def case_term(h, out):
    univ = h["univ"]
    idx = {tuple(t): i for i, t in enumerate(univ)}
    nu = len(univ)

    def ix(t):
        return idx.get(tuple(t), nu)

    def g_op(o):
        c = o[0]
        if c == 0:
            return "(CProcess %s %s %d %s)" % (gbool(o[1]), gbool(o[2]), o[3], glist([ix(t) for t in o[4]]))
        if c == 1:
            return "CGenerate"
        if c == 2:
            return "(CCommit %s)" % glist([ix(t) for t in o[1]])
        if c == 3:
            return "(CRemoveOld %d %d)" % (o[1], o[2])
        if c == 4:
            return "(CSetSeq %d)" % o[1]
        if c in (5, 8):
            return "(CRestart %d %s)" % (o[1], glist(o[2]))
        if c == 7:
            return "(CSetLedger %d %d)" % (o[1], o[2])
        return "(CDrain %d)" % o[1]

    def g_obs(s):
        bs = glist(["(%d, %s)" % (b[0], glist([ix(t) for t in b[1]])) for b in s["b"]])
        g = glist([0 if x is None else ix(x) + 1 for x in s["g"]])
        return "(mkCObs %s %s %s %s %s %s %d %s)" % (bs, glist(s["p"]), glist(s["c"]), gbool(s["h"]), gbool(s["f"]),
                                                     g, s["r"], glist(s["d"]))

    cfg = h["cfg"]
    return "(mkCCase (mkParams %d %d %s) %s %s %s %s)" % (
        cfg["batch"], cfg["pool"], gbool(cfg["timed"]), glist(range(len(h["ledger"]))),
        glist(univ, g_tx), glist(h["ops"], g_op), glist(out.get("steps", []), g_obs))


def judge(ctx, pid, hists, outs, name, cfg_term, excused, timeout=1500, shard=40, jobs=6):
    """returns list of (verdict, soft) per history or None; evaluated inside Coq in parallel shards"""
    from concurrent.futures import ThreadPoolExecutor
    rows = [case_term(h, o) for h, o in zip(hists, outs)]
    chunks = [rows[i:i + shard] for i in range(0, len(rows), shard)]

    def one(ic):
        i, chunk = ic
        src = ("From BX Require Import Base.Prelude Model.Mempool Model.MempoolSpec.\nLocal Open Scope N_scope.\n"
               "Definition cases : list ccase :=\n %s.\n"
               "Definition M := Eval vm_compute in flat_map (judge_for %s %s %s) cases.\nPrint M.\n") % (
            glist(chunk), glist(CODES[pid]), cfg_term, glist(excused))
        rc, out = vlib.coq_eval("%s_%d_%d" % (name, os.getpid(), i), src, timeout=timeout)
        vs = vlib.parse_verdicts(out)
        if rc != 0 or vs is None or len(vs) != 2 * len(chunk):
            return None, out[-1500:]
        return vs, ""
    res = []
    with ThreadPoolExecutor(max_workers=jobs) as ex:
        for vs, msg in ex.map(one, enumerate(chunks)):
            if vs is None:
                ctx.broken("correspondence:judge_for(%s)" % pid, msg)
                return None
            res += vs
    return [(res[2 * i], res[2 * i + 1]) for i in range(len(hists))]


def nontrivial(h, out):
    steps = out.get("steps", [])
    batched = any(b[1] for s in steps for b in s["b"])
    rejected = False
    prev_held = set()
    for op, s in zip(h["ops"], steps):
        held = {tuple(x) for x in s["g"] if x is not None}
        if op[0] == 0 and any(tuple(t) not in held for t in op[4]):
            rejected = True
        if op[0] in (2, 3, 6) and (prev_held - held):
            rejected = True
        prev_held = held
    return batched and rejected


# ----------------------------------------------------------------------------- shrinking

def shrink(ctx, pid, exe, h, bad, cfg_term, excused, budget=14):
    """delta debugging on the operation list (chunks first, then single operations, then single
    transactions inside an operation) while the first verdict keeps its class and code"""
    def key(v):
        return (v[0][0], v[0][1] % 100 if v[0][0] == 2 else 0)
    want = key(bad)
    cur = h

    def candidates(ops, chunk):
        cands = []
        n = len(ops)
        if chunk > 1:
            for i in range(1, n, chunk):
                cands.append(ops[:i] + ops[i + chunk:])
            # also drop everything after a prefix (the failure step usually ends the history)
            for cut in range(n - 1, 1, -max(1, chunk // 2)):
                cands.append(ops[:cut])
        else:
            for i in range(1, n):
                cands.append(ops[:i] + ops[i + 1:])
            for i, o in enumerate(ops):
                l = o[4] if o[0] == 0 else o[1] if o[0] == 2 else None
                if l and len(l) > 1:
                    for j in range(len(l)):
                        o2 = list(o)
                        o2[4 if o[0] == 0 else 1] = l[:j] + l[j + 1:]
                        cands.append(ops[:i] + [o2] + ops[i + 1:])
        return cands[:300]

    chunk = max(1, len(cur["ops"]) // 2)
    rounds = 0
    while rounds < budget:
        rounds += 1
        cands = candidates(cur["ops"], chunk)
        nxt = None
        if cands:
            hs = [dict(cfg=cur["cfg"], ledger=cur["ledger"], univ=universe(c), ops=c, tag=cur.get("tag", "")) for c in cands]
            outs, err = run_impl(exe, hs)
            if outs is None:
                break
            vs = judge(ctx, pid, hs, outs, "%s_shrink" % pid, cfg_term, excused)
            if vs is None:
                break
            for hh, v in zip(hs, vs):
                if key(v) == want and (nxt is None or len(json.dumps(hh["ops"])) < len(json.dumps(nxt["ops"]))):
                    nxt = hh
        if nxt is not None:
            cur = nxt
            chunk = max(1, min(chunk, len(cur["ops"]) // 2))
        elif chunk > 1:
            chunk //= 2
        else:
            break
    return cur


# ----------------------------------------------------------------------------- intake cache leg (C19)

class IntakeSim:
    """python mirror of Model/TxCache.v, only used to generate sensible histories"""
    def __init__(self, size):
        self.size = size or 10
        self.q, self.buf, self.pend = [], [], None

    def norm(self):
        while self.pend is None and self.q:
            self.buf.append(self.q.pop(0))
            if len(self.buf) >= self.size:
                self.pend, self.buf = self.buf, []

    def recv(self, txs):
        self.q += txs
        self.norm()

    def take(self):
        got = self.pend
        if got is not None:
            self.pend = None
            self.norm()
        return got

    def tick(self):
        if self.pend is None:
            self.pend, self.buf = self.buf, []
            return True
        return False


def gen_intake(r, malformed=False):
    size = r.choice([1, 2, 2, 3, 4]) if not malformed else r.choice([0, 1, 2])
    naccts = r.choice([1, 1, 2])
    nxt = [0] * naccts
    nid = [1]
    sim = IntakeSim(size)
    ops, univ = [], []

    def fresh():
        a = r.randrange(naccts)
        t = [a, nxt[a], nid[0], 100 + nid[0]]
        nxt[a] += 1
        nid[0] += 1
        univ.append(t)
        return t

    def drain_takes():
        while sim.pend is not None:
            ops.append([1]); sim.take()

    for _ in range(r.randrange(1, 5)):
        k = (size or 3) * r.choice([1, 2, 2, 3]) - r.choice([0, 0, 1]) if not malformed else r.choice([0, 1, 5])
        burst = [fresh() for _ in range(max(k, 0))]
        if malformed and burst and r.random() < 0.5:
            burst.append(burst[0])                     # the same transaction accepted twice
        ops.append([0, burst]); sim.recv(list(burst))
        x = r.random()
        if x < 0.55:
            # the consumer is slow: it takes the sets only now, one after the other, keeping every one
            drain_takes()
        elif x < 0.75:
            if sim.pend is not None:
                ops.append([1]); sim.take()
        if r.random() < (0.35 if not malformed else 0.6):
            ops.append([2]); sim.tick()
            if malformed and r.random() < 0.5:
                ops.append([2]); sim.tick()           # second timer event while the set is on offer
        if malformed and r.random() < 0.3:
            ops.append([1]); sim.take()
    # empty the cache: take what is offered, nothing more on offer, timer, take, nothing on offer
    drain_takes()
    ops.append([1]); sim.take()
    ops.append([2]); sim.tick()
    ops.append([1]); sim.take()
    ops.append([1]); sim.take()
    return dict(mode="txcache", size=size, naccts=naccts, univ=universe_intake(ops), ops=ops,
                tag="intake-malformed" if malformed else "intake")


def universe_intake(ops):
    u, seen = [], set()
    for op in ops:
        if op[0] == 0:
            for t in op[1]:
                if tuple(t) not in seen:
                    seen.add(tuple(t)); u.append(list(t))
    return u


def intake_case_term(h, out):
    univ = h["univ"]
    idx = {tuple(t): i for i, t in enumerate(univ)}
    nu = len(univ)

    def ixs(l):
        return glist([idx.get(tuple(t), nu) for t in l])

    def opt(l):
        return "None" if l is None else "(Some %s)" % ixs(l)

    def g_op(o):
        return "(JORecv %s)" % ixs(o[1]) if o[0] == 0 else "JOTake" if o[0] == 1 else "JOTick"

    def g_step(s):
        if s["k"] == 0:
            return "JRecv"
        if s["k"] == 1:
            return "(JTake %s %s)" % (opt(s.get("set")), opt(s.get("prev")))
        return "(JTick %s)" % gbool(s.get("ok"))

    held = out.get("held") or []
    return "(mkICase %d %s %s %s %s %s)" % (h["size"], glist(univ, g_tx), glist(h["ops"], g_op), glist(out.get("steps", []), g_step),
                                            glist([ixs(l) for l in (out.get("end") or [])]), glist([gbool(b) for b in held]))


def judge_intake(ctx, hists, outs, name):
    rows = [intake_case_term(h, o) for h, o in zip(hists, outs)]
    src = ("From BX Require Import Base.Prelude Model.Mempool Model.TxCache.\nLocal Open Scope N_scope.\n"
           "Definition cases : list icase :=\n %s.\n"
           "Definition M := Eval vm_compute in map judge_intake cases.\nPrint M.\n") % glist(rows)
    rc, out = vlib.coq_eval("%s_%d" % (name, os.getpid()), src, timeout=600)
    vs = vlib.parse_verdicts(out)
    if rc != 0 or vs is None or len(vs) != len(hists):
        ctx.broken("correspondence:judge_intake", out[-1500:])
        return None
    return vs


def run_intake_impl(exe, hists):
    lines = [dict(size=h["size"], naccts=h["naccts"], univ=h["univ"], ops=h["ops"]) for h in hists]
    rc, outs, e = vlib.run_driver(exe, "txcache", lines, timeout=900)
    if rc != 0 or len(outs) != len(hists):
        return None, (e or "")[-1500:]
    return outs, ""


def shrink_intake(ctx, exe, h, v):
    cur = h
    for _ in range(8):
        cands = []
        ops = cur["ops"]
        for i in range(len(ops)):
            cands.append(ops[:i] + ops[i + 1:])
        for i, o in enumerate(ops):
            if o[0] == 0 and len(o[1]) > 1:
                cands.append(ops[:i] + [[0, o[1][:-1]]] + ops[i + 1:])
        hs = [dict(cur, ops=c, univ=universe_intake(c)) for c in cands[:80]]
        if not hs:
            break
        outs, err = run_intake_impl(exe, hs)
        if outs is None:
            break
        vs = judge_intake(ctx, hs, outs, "C19_intake_shrink")
        if vs is None:
            break
        nxt = None
        for hh, vv in zip(hs, vs):
            if vv == v and (nxt is None or len(json.dumps(hh["ops"])) < len(json.dumps(nxt["ops"]))):
                nxt = hh
        if nxt is None:
            break
        cur = nxt
    return cur


def run_intake_leg(ctx, exe):
    """C19: the intake cache in front of the pool (tx_cache.go) - real TxCache + ListenEvent goroutine, a consumer
    that keeps every set and re-reads it after later sets arrived, all sets fed to a real pool"""
    r = ctx.rng
    hists = []
    for f in sorted(os.listdir(vlib.CORPUS)):
        if f.startswith("C19_intake"):
            obj = json.load(open(os.path.join(vlib.CORPUS, f)))
            hists.append(dict(mode="txcache", size=obj["size"], naccts=obj["naccts"], univ=universe_intake(obj["ops"]),
                              ops=obj["ops"], tag="corpus:" + f))
    n, nm = (30, 8) if ctx.quick else (1500, 300)
    hists += [gen_intake(r) for _ in range(n)] + [gen_intake(r, malformed=True) for _ in range(nm)]
    outs, err = run_intake_impl(exe, hists)
    if outs is None:
        ctx.broken("driver:txcache", err)
        return
    vs = []
    for i in range(0, len(hists), 400):
        part = judge_intake(ctx, hists[i:i + 400], outs[i:i + 400], "C19_intake_%d" % (i // 400))
        if part is None:
            return
        vs += part
    dist = {}
    seen = set()
    for h, o, v in zip(hists, outs, vs):
        ctx.traces_validated += 1
        nsets = len(o.get("end") or [])
        ctx.count(case_key="intake:" + json.dumps(h["ops"]), nontrivial=nsets >= 2,
                  sample=dict(driver="txcache", tag=h["tag"], size=h["size"], ops=len(h["ops"]), sets=nsets, verdict=v))
        dist[h["tag"].split(":")[0]] = dist.get(h["tag"].split(":")[0], 0) + 1
        dist["sets_%d" % min(nsets, 6)] = dist.get("sets_%d" % min(nsets, 6), 0) + 1
        if v[0] == 0:
            continue
        kind = (v[0], v[1] if v[0] == 2 else 0)
        if kind in seen:
            continue
        seen.add(kind)
        small = shrink_intake(ctx, exe, h, v)
        so, _ = run_intake_impl(exe, [small])
        rep = dict(property="C19", driver="txcache", mode="txcache", size=small["size"], naccts=small["naccts"], ops=small["ops"],
                   impl=so[0] if so else None, verdict=list(v), original_ops=len(h["ops"]))
        if v[0] == 2:
            rep["what"] = CODE_TEXT.get(v[1], "code %d" % v[1])
            ctx.violation(rep["what"], rep)
        else:
            ctx.broken("correspondence:judge_intake", "first differing case: " + json.dumps(rep)[:1500])
    ctx.extra["intake_distribution"] = dist


# ----------------------------------------------------------------------------- the check

def corpus_histories(pid):
    hs = []
    for f in sorted(os.listdir(vlib.CORPUS)):
        if (f.startswith("C18_") or f.startswith("C19_")) and not f.startswith("C19_intake"):
            try:
                obj = json.load(open(os.path.join(vlib.CORPUS, f)))
            except ValueError:
                continue
            if "ops" in obj:
                h = dict(cfg=obj["cfg"], ledger=obj["ledger"], univ=universe(obj["ops"]), ops=obj["ops"], tag="corpus:" + f)
                hs.append(h)
    return hs


def explain(v):
    if v[0] == 2:
        return "step %d: %s" % (v[1] // 100, CODE_TEXT.get(v[1] % 100, "code %d" % (v[1] % 100)))
    if v[0] == 1:
        return "model and implementation differ first at step %d (property predicates hold on the implementation trace)" % v[1]
    if v[0] == 3:
        return "history outside the model's domain"
    return "ok"


def run(ctx, pid):
    ctx.proofs(["Proofs/MempoolProofs", "Proofs/TxCacheCompose"], model_targets=["Mempool", "MempoolSpec", "TxCache"])
    exe, err = vlib.build_harness("mempool")
    if exe is None:
        ctx.broken("harness-build", err)
        return ctx.finish(rule="-")
    if not ctx.model_ok:
        return ctx.finish(rule="-")
    opened = open_findings()
    cfg_term = current_cfg(opened)
    excused = sorted({c for i in opened for c in FINDING_FLAGS[i][1] if c in CODES[pid]})
    if pid == "C19":
        run_intake_leg(ctx, exe)
    r = ctx.rng
    hists = corpus_histories(pid)
    ncorpus = len(hists)
    n_struct, n_mal = (110, 24) if ctx.quick else (3000, 1200)
    hists += [gen_structured(r, with_ledger=(i % 6 == 5), with_query=(i % 4 == 1)) for i in range(n_struct)]
    hists += [gen_malformed(r) for _ in range(n_mal)]
    if not ctx.quick:
        hists += [gen_structured(r, big=True, with_ledger=(i % 6 == 5), with_query=(i % 4 == 1)) for i in range(600)]
        # exhaustive small scope: every sequence of length 4 over 11 symbols (2 accounts x nonces 0..2, generate,
        # commit per account, one generate+commit round, age rule), untimed batch 2 and timed batch 1; every
        # sequence of length 5 over 8 symbols (nonces 0..1, one commit symbol)
        for L, batch, timed, nonces, commits in ((4, 2, 0, (0, 1, 2), (0, 1)), (4, 1, 1, (0, 1, 2), (0, 1)), (5, 2, 0, (0, 1), (0,))):
            for seq in gen_exhaustive(L, nonces=nonces, commits=commits):
                hists.append(concretise_small(seq, batch, timed))
    dist = {}
    outs, err = run_impl(exe, hists)
    if outs is None:
        ctx.broken("driver:mempool", err)
        return ctx.finish(rule="-")
    verdicts = []
    shard = 250 if ctx.quick else 2000
    for i in range(0, len(hists), shard):
        vs = judge(ctx, pid, hists[i:i + shard], outs[i:i + shard], "%s_cases_%d" % (pid, i // shard), cfg_term, excused,
                   jobs=6 if ctx.quick else 8)
        if vs is None:
            return ctx.finish(rule="-")
        verdicts += vs
    reported = set()
    opk = {0: "process", 1: "generate", 2: "commit", 3: "remove_old", 4: "set_seq", 5: "restart", 6: "drain", 7: "set_ledger", 8: "restart_with_concurrent_query"}
    for h, o, (v, soft) in zip(hists, outs, verdicts):
        ctx.traces_validated += 1
        nt = nontrivial(h, o)
        ctx.count(case_key=json.dumps(h["ops"]), nontrivial=nt,
                  sample=dict(driver="mempool", tag=h["tag"], cfg=h["cfg"], ops=len(h["ops"]), verdict=v))
        dist[h["tag"].split(":")[0]] = dist.get(h["tag"].split(":")[0], 0) + 1
        for op in h["ops"]:
            dist["op_" + opk[op[0]]] = dist.get("op_" + opk[op[0]], 0) + 1
        if o.get("err"):
            dist["driver_" + o["err"]] = dist.get("driver_" + o["err"], 0) + 1
        if soft[0] != 0:
            for fid in opened:
                if soft[0] in FINDING_FLAGS[fid][1] and opened[fid]["property"] == pid:
                    ctx.known(fid, opened[fid]["what"])
        if v[0] == 0:
            continue
        if v[0] == 3:
            dist["outside_domain"] = dist.get("outside_domain", 0) + 1
            continue
        kind = (v[0], v[1] % 100 if v[0] == 2 else 0)
        if kind in reported and len(reported) >= 1 and v[0] == 1:
            continue
        if kind in reported:
            continue
        reported.add(kind)
        small = shrink(ctx, pid, exe, h, (v, soft), cfg_term, excused)
        so, _ = run_impl(exe, [small])
        sv = judge(ctx, pid, [small], so, "%s_min" % pid, cfg_term, excused) if so else None
        rep = dict(property=pid, driver="mempool", cfg=small["cfg"], ledger=small["ledger"], ops=small["ops"],
                   impl=so[0] if so else None, verdict=list(sv[0][0]) if sv else list(v), what=explain(sv[0][0] if sv else v),
                   model_cfg=cfg_term, original_ops=len(h["ops"]))
        if v[0] == 2:
            ctx.violation(explain(sv[0][0] if sv else v), rep)
        else:
            ctx.broken("correspondence:judge_for(%s)" % pid, "first differing case: " + json.dumps(rep)[:1500])
            ctx.extra.setdefault("mismatch_replays", []).append(rep)
    ctx.assumptions = [
        "transaction hash (SHA-256 of the marshalled fields) injective: the model identifies a hash with the transaction tuple",
        "all pool calls come from one goroutine (the node loop); the five goroutines inside processCommitTransactions / "
        "RemoveAliveTimeoutTxs touch disjoint structures and are modelled sequentially; racy readers (IsPoolFull, GetTransaction from API goroutines) are not represented",
        "theorems: the ledger oracle does not move under a pool between restarts (static_op); a moving oracle is the open finding C18-stale-commit-cache and is part of the generated histories",
        "nonces, clocks, ids below 2^62 / clocks below 2^30 s (uint64 wrap-around of nonce+1 is outside the model; such histories are reported as outside the domain, not as passing)",
        "rebroadcast clock (ttlIndex / GetTimeoutTransactions) not modelled: no other operation reads it",
    ]
    ctx.extra["distribution"] = dist
    ctx.extra["corpus_cases"] = ncorpus
    ctx.extra["model_cfg_current"] = cfg_term
    return ctx.finish(rule="corpus first; structured stream (2-4 accounts, in-order / gapped / conflicting equal-nonce / duplicate / stale "
                           "submissions, leader and follower, timed and untimed, batch 1-8, pool 2-1000, prefix / partial / out-of-order / "
                           "unknown commits, generate+commit rounds, age eviction, SetBatchSeqNo, restart) + malformed stream (empty and repeated "
                           "lists, defaults, huge nonces and clocks); thorough adds longer histories and all sequences of length 4-5 over a "
                           "small alphabet; non-trivial = a non-empty batch was produced and a submission was rejected or a held transaction left the pool; "
                           "distinct by operation list; C19 also: intake cache leg (real TxCache + ListenEvent goroutine in front of a real pool; "
                           "set sizes 0(default)..4, bursts of 1-3 x setSize accepted transactions, slow consumer that keeps every set and re-reads it "
                           "after later sets arrived, timer events, drained at the end; non-trivial = at least two sets delivered)")


def replay(ctx, pid, path):
    obj = json.load(open(path))
    if obj.get("mode") == "txcache":
        exe, err = vlib.build_harness("mempool")
        if exe is None:
            print("harness build failed", err)
            return 1
        h = dict(mode="txcache", size=obj["size"], naccts=obj["naccts"], univ=universe_intake(obj["ops"]), ops=obj["ops"], tag="replay")
        outs, err = run_intake_impl(exe, [h])
        vs = judge_intake(ctx, [h], outs, "C19_intake_replay") if outs else None
        print(json.dumps(dict(ops=h["ops"], impl=outs[0] if outs else None, verdict=vs[0] if vs else None,
                              what=(CODE_TEXT.get(vs[0][1], "") if vs and vs[0][0] == 2 else "ok" if vs and vs[0][0] == 0 else "mismatch") if vs else err)))
        return 0 if vs and vs[0][0] == 0 else 1
    if "ops" not in obj:
        print(json.dumps(dict(note="replay file names a broken obligation, no history", file=path)))
        return 1
    exe, err = vlib.build_harness("mempool")
    if exe is None:
        print("harness build failed", err)
        return 1
    h = dict(cfg=obj["cfg"], ledger=obj["ledger"], univ=universe(obj["ops"]), ops=obj["ops"], tag="replay")
    outs, err = run_impl(exe, [h])
    opened = open_findings()
    cfg_term = current_cfg(opened)
    excused = sorted({c for i in opened for c in FINDING_FLAGS[i][1] if c in CODES[pid]})
    vs = judge(ctx, pid, [h], outs, "%s_replay" % pid, cfg_term, excused) if outs else None
    print(json.dumps(dict(ops=h["ops"], impl=outs[0] if outs else None, verdict=vs[0] if vs else None,
                          what=explain(vs[0][0]) if vs else err)))
    return 0 if vs and vs[0][0][0] == 0 else 1
