"""C17: internal / privileged contract entry points reject the wrong caller.

Finite and exhaustive over (method of the registered surface x caller role x audit on/off); argument
vectors sampled from typed pools (2 per method in the quick tier, 20 in the thorough tier).  Every call runs
on the real executor (driver harness/surface), each in a block of its own with a full raw state dump before
and after; the observations are judged inside Coq (Model/Surface.judge_call): first the property predicate
P_call on the implementation's observation, then whether the dispatcher model admits it."""
import json
import os
import re
import threading

import vlib
from vlib import glist, gbool, gstr
import checks.c17lib as L

ROLES = ["outsider", "admin of another appchain", "governance admin", "node account", "admin of the target appchain"]
ROLE_PH = ["$OUT", "$ADMB", "$GOV1", "$NODE", "$ADMA"]
ERR = {"": 0, "no_method": 1, "no_permission": 2, "panic": 3, "other": 4, "not_owner": 5}
FLAG_FINDING = {1: "C17-stub-add-persists", 2: "C17-stub-crossinvoke-reachable", 3: "C17-stub-postinterchainevent-crash",
                4: "C17-nonresponse-initservicecache", 10: "C17-unguarded-DeleteInterchain", 11: "C17-unguarded-Interchain.Register",
                12: "C17-unguarded-HandleIBTPData", 13: "C17-unguarded-ZeroPermission", 14: "C17-unguarded-EmitInterchain",
                15: "C17-unguarded-InvokeInterchain", 16: "C17-unguarded-InvokeReceipt", 17: "C17-unguarded-ServiceRegistry.Manage"}
STALE_ADMIN = "C17-removed-appchain-admin-keeps-self"
HOT_STUB = {"Add", "AddObject", "Set", "SetObject", "Delete", "CrossInvoke", "CrossInvokeEVM", "PostEvent", "PostInterchainEvent", "GetAccount"}


def intended_classes():
    """(contract, method) -> class name, read from the hand-written table of Model/Surface.v (used only to
    order the calls: read-only and always-rejected calls share a world, the others get a fresh one)"""
    txt = open(os.path.join(vlib.COQ_SRC, "theories", "Model", "Surface.v")).read()
    out = {}
    for c, m, kind, cls in re.findall(r'\("(\w+)", "(\w+)", (I|Defect \d+) \(?(\w+)', txt):
        out[(c, m)] = ("Defect:" if kind != "I" else "") + cls
    return out


def is_hot(m, icls):
    if m.origin == "stub":
        return m.name in HOT_STUB
    if m.origin != "own":
        return False
    c = icls.get(m.key(), "?")
    return c not in ("Query", "Internal", "Uncallable")


CHAIN_ADMIN_ROLE = {"chainA": 4, "chainB": 1}
# worlds with further appchains whose ids contain separator characters (driver: sep): "org" and "org" + separator + "chainB"
SEP_TARGETS = [("org:chainB", "svc2", "$ADMS"), ("org-chainB", "svc-2", "$ADMT"), ("org,chainB", "svc2", "$ADMU")]


def chain_of(s, chains):
    """the REGISTERED appchain an id (appchain id, chain:service, chain:rule) belongs to: the longest registered
    appchain id that is the whole string or is followed by ':' - not the text before the first ':'"""
    best = None
    for c in chains:
        if (s == c or s.startswith(c + ":")) and (best is None or len(c) > len(best)):
            best = c
    return best


def caller_bits(m, role, args, chains=None, ph=None):
    """x_admin, x_self: the relation of the caller to the target of the call"""
    chains = chains or CHAIN_ADMIN_ROLE
    me = ph or ROLE_PH[role]
    admin = role == 2
    strs = [a[1].replace("$SELF", me) for a in args if a[0] == "s" and isinstance(a[1], str)]
    self_ = False
    g = m.guard
    if g["kind"] == "perm" and "PermissionSelf" in g["perms"]:
        if g["impl"] in ("AppchainManager", "ServiceManager", "RuleManager"):
            tgt = [chain_of(s, chains) for s in strs if chain_of(s, chains)]
            if tgt:
                self_ = chains[tgt[0]] == role
        else:
            self_ = me in strs[:1] or (g["impl"] == "common" and any(s.startswith(me + "-") for s in strs[:1]))
    return admin, self_


def hist_ctx(h):
    """(chain -> role of its admin, role -> sender placeholder, role -> objects of that role) of a history"""
    cx = h.get("ctx")
    if cx:
        return ({k: int(v) for k, v in cx.get("chains", {}).items()} or CHAIN_ADMIN_ROLE, {int(k): v for k, v in cx.get("phs", {}).items()},
                {int(k): tuple(v) for k, v in cx.get("objs", {}).items()} if "objs" in cx else OWN_OBJECTS)
    t = h.get("sep_target")
    if not t:
        return CHAIN_ADMIN_ROLE, {}, OWN_OBJECTS
    chain, svc, adm = t
    return {chain: 4, "org": 1}, {1: "$ADMO", 4: adm}, {4: (chain,)}


def gen_histories(ctx, methods, icls, nvec, enabled):
    """returns (histories, index) ; index[h][i] = (method, role, audit, vec, args, typed)"""
    r = ctx.rng
    hists, index = [], []
    for audit in (False, True):
        cold, cold_ix = [], []
        for m in methods:
            if m.contract not in enabled:
                continue
            vecs = nvec if (m.origin == "own" or m.name in HOT_STUB) else min(nvec, 2)
            calls, ix = [], []
            # callers the intended class does not allow go first: a legitimate call that succeeds changes the
            # object's status and would hide an illegitimate success behind a status error
            c_int = icls.get(m.key(), "")
            legit = {"AdminOnly": [2], "ChainAdminOnly": [4, 1], "ChainAdminOrAdmin": [4, 1, 2], "SelfOnly": [2, 3], "SelfOrAdmin": [2, 3]}.get(c_int, [])
            order = [x for x in range(len(ROLES)) if x not in legit] + [x for x in range(len(ROLES)) if x in legit]
            for vec in range(vecs):
                for role in order:
                    args = L.well_typed_args(m, vec, r)
                    typed = not any(p.startswith("other:") for p in m.params)
                    calls.append(dict(c=m.contract, m=m.name, role=role, args=args))
                    ix.append((m, role, audit, vec, args, typed))
                # one ill-typed vector per method (arity / type mismatch): must fail without effect
                if vec == 0 and m.origin == "own":
                    bad = L.well_typed_args(m, 0, r) + [["s", "extra"]]
                    calls.append(dict(c=m.contract, m=m.name, role=0, args=bad))
                    ix.append((m, 0, audit, -1, bad, False))
            if is_hot(m, icls):
                # the first vector runs outsider-first on a fresh world; further vectors share one
                step = len(ROLES) + 1 if m.origin == "own" else len(ROLES)
                hists.append(dict(warm=True, audit=audit, zero=False, surface=False, calls=calls[:step]))
                index.append(ix[:step])
                if len(calls) > step:
                    hists.append(dict(warm=True, audit=audit, zero=False, surface=False, calls=calls[step:]))
                    index.append(ix[step:])
            else:
                cold += calls
                cold_ix += ix
        B = 300
        for i in range(0, len(cold), B):
            hists.append(dict(warm=True, audit=audit, zero=False, surface=False, calls=cold[i:i + B]))
            index.append(cold_ix[i:i + B])
    gov = [m for m in methods if m.contract == "Governance" and m.origin == "own"]
    byname = {m.key(): m for m in methods}
    for audit in (False, True):
        # (a) open proposals of four modules submitted under the default strategy, then every module switched to the
        #     ZeroPermission strategy by a real governance proposal: no direct call may conclude or change them
        calls, ix = [], []
        zp = byname.get(("Governance", "ZeroPermission"))
        for role in [0, 1, 3, 4, 2]:
            for pid in ("$PA", "$P0", "$PN", "$PR"):
                if zp is not None:
                    a = [["s", pid]]
                    calls.append(dict(c="Governance", m="ZeroPermission", role=role, args=a))
                    ix.append((zp, role, audit, 0, a, True))
        for m in gov:
            if m.name == "ZeroPermission":
                continue
            for role in (0, 4):
                a = [x if not (x[0] == "s" and x[1] == "$P0") else ["s", "$PA"] for x in L.well_typed_args(m, 0, r)]
                calls.append(dict(c=m.contract, m=m.name, role=role, args=a))
                ix.append((m, role, audit, 0, a, True))
        hists.append(dict(warm=False, zswitch=True, audit=audit, zero=False, surface=False, calls=calls))
        index.append(ix)
        # (b) sequences of one unprivileged account through the open-by-design methods with other parties' accounts in
        #     alternative spellings: register naming the victim, withdraw, register naming the victim canonically
        ra, wd, ua = byname.get(("AppchainManager", "RegisterAppchain")), byname.get(("Governance", "WithdrawProposal")), byname.get(("AppchainManager", "UpdateAppchain"))
        if ra is not None and wd is not None and ua is not None:
            def reg(chain, admins):
                return [["s", chain], ["s", "name-" + chain], ["b", "pk"], ["s", "ETH"], ["b", "t"], ["s", "0x857133c5C69e6Ce66F7AD46F200B9B3573e77582"],
                        ["s", "d"], ["s", L.HAPPY_RULE], ["s", ""], ["s", admins], ["s", "r"]]
            victims = ["$GOV1", "$ADMB", "$NODE"] if ctx.quick else ["$GOV1", "$GOV0", "$ADMB", "$ADMA", "$NODE"]
            spellings = ["lower", "bare"] if ctx.quick else ["lower", "upper", "bare", "barelower"]
            for vi, victim in enumerate(victims):
                for sp in spellings:
                    for role, wid in ((0, "$SELF-0"), (3, "$SELF-0")):
                        seq = [(ra, reg("chainQ", "$SELF,%s~%s" % (victim, sp))), (wd, [["s", wid], ["s", "r"]]), (ra, reg("chainR", "$SELF," + victim)),
                               (wd, [["s", wid.replace("-0", "-1")], ["s", "r"]])]
                        hists.append(dict(warm=False, audit=audit, zero=False, surface=False,
                                          calls=[dict(c=m.contract, m=m.name, role=role, args=a) for m, a in seq]))
                        index.append([(m, role, audit, 0, a, True) for m, a in seq])
                    # the admin of chainA through UpdateAppchain (its proposals so far: $ADMA-0, $ADMA-1)
                    seq = [(ua, [["s", "chainA"], ["s", "name-chainA-2"], ["s", "d"], ["b", "t"], ["s", "$SELF,%s~%s" % (victim, sp)], ["s", "r"]]),
                           (wd, [["s", "$SELF-2"], ["s", "r"]])]
                    hists.append(dict(warm=False, audit=audit, zero=False, surface=False,
                                      calls=[dict(c=m.contract, m=m.name, role=4, args=a) for m, a in seq]))
                    index.append([(m, 4, audit, 0, a, True) for m, a in seq])
    # (c) the contract-to-contract IBTP entry points with WELL-FORMED arguments on a basic world (accepted request
    #     chainA:svcA -> chainB:svcB index 1 still pending): a marshalled request for a registered pair with the next
    #     expected index, the receipt of another chain's pending transaction, the broker's entry points for the same pairs
    hd, em = byname.get(("InterchainManager", "HandleIBTPData")), byname.get(("InterBroker", "EmitInterchain"))
    ir, ii = byname.get(("InterBroker", "InvokeReceipt")), byname.get(("InterBroker", "InvokeInterchain"))
    FA, FB = L.FULL_A, L.FULL_B
    for audit in (False, True):
        for role in range(len(ROLES)):
            seq = []
            if hd is not None:
                seq += [(hd, [["ibtp", {"from": FB, "to": FA, "index": 1, "type": 0}]]),
                        (hd, [["ibtp", {"from": FA, "to": FB, "index": 1, "type": 1}]]),
                        (hd, [["ibtp", {"from": FA, "to": FB, "index": 2, "type": 0}]])]
            if em is not None:
                seq += [(em, [["s", FB], ["s", FA], ["s", "f,cb,rb"], ["s", "a"], ["s", "b"], ["s", "c"]]),
                        (em, [["s", FA], ["s", FB], ["s", "f,cb,rb"], ["s", "a"], ["s", "b"], ["s", "c"]])]
            if ir is not None:
                seq += [(ir, [["ibtp", {"from": FA, "to": FB, "index": 1, "type": 1}]])]
            if ii is not None:
                seq += [(ii, [["ibtp", {"from": FA, "to": FB, "index": 1, "type": 0, "payload": True}]])]
            if seq:
                hists.append(dict(warm=False, audit=audit, zero=False, surface=False,
                                  calls=[dict(c=m.contract, m=m.name, role=role, args=a) for m, a in seq]))
                index.append([(m, role, audit, 0, a, True) for m, a in seq])
    # (d) appchain / service ids that contain separator characters, with another appchain named by the first segment:
    #     the managers' methods with the target's ids, by every role - role 1 is the admin of appchain "org", role 4 the
    #     admin of the target appchain "org" + separator + "chainB"; callers the class does not allow go first
    for audit in (False, True):
        for chain, svc, adm in SEP_TARGETS:
            phs = {1: "$ADMO", 4: adm}
            sid = chain + ":" + svc

            def retarget(a):
                if a[0] != "s" or not isinstance(a[1], str):
                    return a
                table = {"chainA:svcA": sid, "chainB:svcB": sid, "chainA": chain, "chainB": chain, "svcA": svc, "svcB": svc}
                v = re.sub(r"chain[AB]:svc[AB]|chain[AB]|svc[AB]", lambda mo: table[mo.group(0)], a[1])
                return [a[0], v]
            late, early = [], []
            for m in methods:
                if m.origin != "own" or m.contract not in ("ServiceManager", "AppchainManager", "RuleManager") or m.contract not in enabled:
                    continue
                c_int = icls.get(m.key(), "")
                if c_int in ("Query", "Uncallable", ""):
                    continue
                legit = {"AdminOnly": [2], "ChainAdminOnly": [4], "ChainAdminOrAdmin": [4, 2], "SelfOnly": [2, 3], "SelfOrAdmin": [2, 3]}.get(c_int, [])
                for role in range(len(ROLES)):
                    a = [retarget(x) for x in L.well_typed_args(m, 0, r)]
                    if not any(x[0] == "s" and isinstance(x[1], str) and chain in x[1] for x in a):
                        continue
                    call = dict(c=m.contract, m=m.name, role=role, args=a)
                    if role in phs:
                        call["as"] = phs[role]
                    (late if role in legit else early).append((call, (m, role, audit, 0, a, True)))
            seq = early + late
            if seq:
                hists.append(dict(warm=False, sep=True, sep_target=[chain, svc, adm], audit=audit, zero=False, surface=False, calls=[c for c, _ in seq]))
                index.append([e for _, e in seq])
    # (e) FORMER governance admins: $GOVN (logged out: forbidden) and $GOVM (frozen), both in the electorate of the open
    #     proposals $PX / $PY, call Vote on them and every method reserved to governance admins; they are outsiders now
    adminish = ("AdminOnly", "ChainAdminOrAdmin", "SelfOrAdmin")
    vote = byname.get(("Governance", "Vote"))
    for audit in (False, True):
        for ex in ("$GOVN", "$GOVM"):
            seq = []
            if vote is not None:
                for pid, b in (("$PX", "approve"), ("$PY", "reject"), ("$P0", "approve")):
                    seq.append((vote, [["s", pid], ["s", b], ["s", "r"]]))
            for m in methods:
                if m.origin == "own" and m.contract in enabled and icls.get(m.key(), "") in adminish and m.name != "Vote":
                    seq.append((m, L.well_typed_args(m, 0, r)))
            if vote is not None:
                seq.append((vote, [["s", "$PX"], ["s", "reject"], ["s", "r"]]))
            hists.append(dict(warm=False, exadmin=True, ctx=dict(phs={"0": ex}), audit=audit, zero=False, surface=False,
                              calls=[dict(c=m.contract, m=m.name, role=0, args=a, **{"as": ex}) for m, a in seq]))
            index.append([(m, 0, audit, 0, a, True) for m, a in seq])
    # (f) a REMOVED appchain admin: chainX registered with admins "$ADMX,$EXADM", then an approved UpdateAppchain drops
    #     $EXADM; $EXADM - an outsider now - calls the managers' methods with the chain's ids (then the remaining admin)
    for audit in (False, True):
        table = {"chainA:svcA": "chainX:svcX", "chainB:svcB": "chainX:svcX", "chainA": "chainX", "chainB": "chainX", "svcA": "svcX", "svcB": "svcX"}
        early, late = [], []
        for m in methods:
            if m.origin != "own" or m.contract not in ("ServiceManager", "AppchainManager", "RuleManager") or m.contract not in enabled:
                continue
            if icls.get(m.key(), "") in ("Query", "Uncallable", ""):
                continue
            a = [[x[0], re.sub(r"chain[AB]:svc[AB]|chain[AB]|svc[AB]", lambda mo: table[mo.group(0)], x[1])] if x[0] == "s" and isinstance(x[1], str) else x
                 for x in L.well_typed_args(m, 0, r)]
            if not any(x[0] == "s" and isinstance(x[1], str) and "chainX" in x[1] for x in a):
                continue
            early.append((dict(c=m.contract, m=m.name, role=0, args=a, **{"as": "$EXADM"}), (m, 0, audit, 0, a, True)))
            late.append((dict(c=m.contract, m=m.name, role=4, args=a, **{"as": "$ADMX"}), (m, 4, audit, 0, a, True)))
        seq = early + late
        if seq:
            hists.append(dict(warm=False, exchain=True, ctx=dict(chains={"chainX": 4}, phs={"0": "$EXADM", "4": "$ADMX"}, objs={"4": ["chainX"]}),
                              audit=audit, zero=False, surface=False, calls=[c for c, _ in seq]))
            index.append([e for _, e in seq])
    # an unknown method and an unknown contract method name
    hists.append(dict(audit=False, zero=False, surface=True,
                      calls=[dict(c="Store", m="NoSuchMethod", role=0, args=[]), dict(c="Governance", m="vote", role=2, args=[])]))
    index.append([(None, 0, False, 0, [], True), (None, 2, False, 0, [], True)])
    return hists, index


PARTIES = ["$OUT", "$ADMB", "$GOV0", "$GOV1", "$NODE", "$ADMA", "$NEW", "$ADMC", "$WARMROLE", "$ZNEW", "$ZROLE", "$ADMO", "$ADMS", "$ADMT", "$ADMU", "$GOV2", "$GOV3", "$GOVN", "$GOVM", "$ADMX", "$EXADM"]
OWN_OBJECTS = {4: ("chainA", "svcA"), 1: ("chainB", "svcB")}
# contracts whose state is open to everybody by design (class OpenWrite over a flat namespace): no key of theirs is "another party's record"
PUBLIC_NAMESPACES = ("StoreContractAddr",)


def foreign_entries(role, o, created=(), own=None, own_objects=None):
    """existing records (op set/del, not new) whose key names - in the canonical spelling - another party than the
    caller or an object of another party; returned as (contract, key prefix up to the first name)"""
    own = own or ROLE_PH[role]
    own_objects = OWN_OBJECTS if own_objects is None else own_objects
    out = []
    for d in o.get("diff", []):
        if len(d) < 3 or d[2] == "new":
            continue
        key = d[1]
        if d[0] in PUBLIC_NAMESPACES:
            continue      # the Store contract is a flat public key-value namespace: its keys belong to nobody, whatever they look like
        if (d[0], key) in created:
            continue      # a record this caller created earlier in the same history is its own
        toks = [m.group(1) for m in re.finditer(r"(\$[A-Z0-9]+)(?![A-Z0-9~])", key)]
        hit = any(t in PARTIES and t != own for t in toks)
        for r_, objs in own_objects.items():
            if r_ != role and any(x in key for x in objs):
                hit = True
        if hit:
            cut = len(key)
            for mark in ["$"] + [x for objs in own_objects.values() for x in objs]:
                i = key.find(mark)
                if i >= 0:
                    cut = min(cut, i)
            out.append((d[0], key[:cut]))
    return sorted(set(out))


def case_literal(contract, method, typed, admin, self_, o, role=0, created=(), own=None, own_objects=None):
    diff = [d[0] for d in o.get("diff", [])]
    err = o.get("err", "")
    crash = bool(o.get("crash"))
    e = 9 if crash else ERR.get(err, 4)
    return ("{| c_contract := %s; c_method := %s; c_typed := %s; c_caller := {| x_id := 1; x_admin := %s; x_self := %s |}; "
            "c_obs := {| o_ok := %s; o_err := %d; o_diff := %s; o_acct := %d; o_mem := %s; o_cache := %s; o_crash := %s; o_foreign := %s |} |}"
            % (gstr(contract), gstr(method), gbool(typed), gbool(admin), gbool(self_), gbool(o.get("ok", False)), e,
               glist(diff, gstr), len(o.get("acct", [])), gbool(o.get("mem", False)), gbool(o.get("cache", False)), gbool(crash),
               glist(foreign_entries(role, o, created, own, own_objects), lambda p: "(%s, %s)" % (gstr(p[0]), gstr(p[1])))))


def cfg_current_literal(known):
    open_flags = [n for n, fid in FLAG_FINDING.items() if fid in known]
    return ("{| d_dispatch_all := %s; d_add_unjournaled := %s; d_unguarded := %s; d_guard_memo := [] |}"
            % (gbool(any(n in open_flags for n in (1, 2, 3, 4))), gbool(1 in open_flags),
               glist([n for n in open_flags if n >= 10], lambda n: "%d%%N" % n)))


def judge(ctx, lits, known, tag="C17"):
    """evaluate judge_call on the distinct case literals; returns dict literal -> verdict"""
    uniq = sorted(set(lits))
    shards = [uniq[i:i + 800] for i in range(0, len(uniq), 800)]
    res = {}
    errs = []

    def work(k, shard):
        src = ("From BX Require Import Base.Prelude Model.Surface.\nFrom Coq Require Import String.\nLocal Open Scope string_scope.\nLocal Open Scope N_scope.\n"
               "Definition cfg_current : cfg := %s.\nDefinition cases : list case :=\n %s.\n"
               "Definition M := Eval vm_compute in map (judge_call cfg_current) cases.\nPrint M.\n") % (cfg_current_literal(known), glist(shard))
        rc, out = vlib.coq_eval("%s_cases_%d_%d" % (tag, os.getpid(), k), src)
        vs = vlib.parse_verdicts(out)
        if rc != 0 or vs is None or len(vs) != len(shard):
            errs.append(out[-1500:])
            return
        for lit, v in zip(shard, vs):
            res[lit] = v

    ts = [threading.Thread(target=work, args=(k, s)) for k, s in enumerate(shards)]
    for i in range(0, len(ts), 6):
        for t in ts[i:i + 6]:
            t.start()
        for t in ts[i:i + 6]:
            t.join()
    if errs:
        ctx.broken("correspondence:judge_call", errs[0])
        return None
    return res


def compare_surface(ctx, methods, refl, enabled):
    """the table regenerated from source and the method sets seen by reflection must agree"""
    gen = {}
    for m in methods:
        if m.contract in enabled:
            gen.setdefault(m.contract, {})[m.name] = (m.params, m.nres, m.resp)
    seen = {}
    for key, ms in refl.items():
        typ = key.split("@")[0]
        seen[typ] = {x["name"]: (x["in"], x["nout"], x["resp"]) for x in ms}
    problems = []
    for typ in sorted(set(gen) | set(seen)):
        g, s = gen.get(typ), seen.get(typ)
        if g is None:
            problems.append("contract %s registered at run time but not in Gen_Surface" % typ)
            continue
        if s is None:
            problems.append("contract %s in Gen_Surface (enabled) but not registered at run time" % typ)
            continue
        for n in sorted(set(g) | set(s)):
            if n not in g:
                problems.append("%s.%s reachable by reflection, missing in Gen_Surface" % (typ, n))
            elif n not in s:
                problems.append("%s.%s in Gen_Surface, not in the reflect method set" % (typ, n))
            else:
                gp = [p.replace("variadic:*pb.Arg", "variadic:*pb.Arg") for p in g[n][0]]
                sp = [re.sub(r"^other:\*pb\.", "other:*pb.", p) for p in s[n][0]]
                gk = [p if not p.startswith("other:") else "other" for p in gp]
                sk = [p if not p.startswith("other:") else "other" for p in sp]
                if gk != sk or g[n][1] != s[n][1] or g[n][2] != s[n][2]:
                    problems.append("%s.%s signature differs: source %s/%d/%s, reflection %s/%d/%s" % (typ, n, gp, g[n][1], g[n][2], sp, s[n][1], s[n][2]))
    if problems:
        ctx.broken("tie:surface-reflection", "; ".join(problems[:12]))
    ctx.extra["surface_methods_source"] = sum(len(v) for v in gen.values())
    ctx.extra["surface_methods_reflection"] = sum(len(v) for v in seen.values())
    return not problems


def run_histories(exe, hists):
    rc, outs, e = vlib.run_driver(exe, "surface", hists, timeout=3000)
    return rc, outs, e


def describe(entry, o):
    m, role, audit, vec, args, typed = entry
    name = "%s.%s" % (m.contract, m.name) if m else "?"
    return "%s called by %s (audit %s): ok=%s err=%s diff=%s mem=%s crash=%s" % (
        name, ROLES[role], "on" if audit else "off", o.get("ok"), o.get("err"), [tuple(d[:2]) for d in o.get("diff", [])][:4], o.get("mem"), bool(o.get("crash")))


def load_corpus():
    out = []
    d = vlib.CORPUS
    for f in sorted(os.listdir(d)):
        if f.startswith("C17_") and f.endswith(".json"):
            out.append((f, json.load(open(os.path.join(d, f)))))
    return out


def run(ctx):
    ctx.proofs(["Proofs/SurfaceProofs"], model_targets=["Surface"])
    known = {f["id"]: f for f in vlib.known_findings() if f["property"] == "C17" and f.get("status") == "open"}
    exe, err = vlib.build_harness("surface")
    if exe is None:
        ctx.broken("harness-build", err)
        return ctx.finish(rule="-")
    if not getattr(ctx, "extract_ok", True) or not ctx.model_ok:
        return ctx.finish(rule="-")
    contracts, methods = L.read_surface(os.path.join(vlib.COQ, "gen"))
    enabled = {t for _, t, en in contracts if en == "true"}
    icls = intended_classes()
    bykey = {m.key(): m for m in methods}
    nvec = 2 if ctx.quick else 20

    # ---- corpus first: witnesses of the listed findings and minimized failing histories
    corpus = load_corpus()
    chists, cindex = [], []
    for fname, obj in corpus:
        h = obj["history"]
        chists.append(h)
        cindex.append([(bykey.get((c["c"], c["m"])), c["role"], h.get("audit", False), 0, c["args"], c.get("typed", True)) for c in h["calls"]])
    hists, index = gen_histories(ctx, methods, icls, nvec, enabled)
    hists = chists + hists
    index = cindex + index
    rc, outs, e = run_histories(exe, hists)
    if rc != 0 or len(outs) != len(hists):
        ctx.broken("driver:surface", (e or "")[-1500:] + " rc=%s outs=%d/%d" % (rc, len(outs), len(hists)))
        return ctx.finish(rule="-")
    bad_setup = [o.get("setup") for o in outs if o.get("setup") != "ok"]
    if bad_setup:
        ctx.broken("driver:surface-world", str(bad_setup[0])[:600])
        return ctx.finish(rule="-")
    if not all(o.get("hook") for o in outs[:1]):
        ctx.broken("driver:surface-hook", "raw state hook (internal/ledger VerifRawState) not compiled in")
    refl = [o["surface"] for o in outs if "surface" in o]
    if refl:
        compare_surface(ctx, methods, refl[0], enabled)

    # ---- judge
    rows = []   # (hist no, call no, entry, obs, literal)
    for hn, (h, ix, o) in enumerate(zip(hists, index, outs)):
        cs = o.get("calls", [])
        if len(cs) != len(ix):
            ctx.broken("driver:surface", "history %d: %d results for %d calls" % (hn, len(cs), len(ix)))
            continue
        created = {}
        chains, phs, objs = hist_ctx(h)
        for cn, (entry, ob) in enumerate(zip(ix, cs)):
            m, role, audit, vec, args, typed = entry
            mine = frozenset(created.get(role, ()))
            created.setdefault(role, set()).update((d[0], d[1]) for d in ob.get("diff", []) if len(d) >= 3 and d[2] == "new")
            if ob.get("norun"):
                ctx.broken("driver:surface", "call not run: %s %s" % (h["calls"][cn], ob.get("err")))
                continue
            if m is None:
                lit = case_literal(h["calls"][cn]["c"], h["calls"][cn]["m"], typed, role == 2, False, ob, role, mine, phs.get(role), objs)
            else:
                admin, self_ = caller_bits(m, role, args, chains, phs.get(role))
                lit = case_literal(m.contract, m.name, typed, admin, self_, ob, role, mine, phs.get(role), objs)
            rows.append((hn, cn, entry, ob, lit))
    verdicts = judge(ctx, [r[4] for r in rows], known)
    dist = {}
    reported = set()
    if verdicts is not None:
        for hn, cn, entry, ob, lit in rows:
            v = verdicts[lit]
            m, role, audit, vec, args, typed = entry
            key = (m.key() if m else ("?", hists[hn]["calls"][cn]["m"]), role, audit)
            rejected = (not ob.get("ok")) and not ob.get("diff")
            ctx.count(case_key=key, nontrivial=True, sample=dict(call=hists[hn]["calls"][cn], audit=audit, obs=ob, verdict=v) if cn == 0 and hn % 97 == 0 else None)
            ctx.traces_validated += 1
            k = ("ok" if ob.get("ok") else "fail:" + str(ob.get("err", ""))[:14]) + ("+diff" if ob.get("diff") else "")
            dist[k] = dist.get(k, 0) + 1
            if v[0] == 0:
                continue
            what = describe(entry, ob)
            rep = dict(property="C17", driver="surface", history=dict(warm=hists[hn].get("warm", False), zswitch=hists[hn].get("zswitch", False), sep=hists[hn].get("sep", False), sep_target=hists[hn].get("sep_target"), exadmin=hists[hn].get("exadmin", False), exchain=hists[hn].get("exchain", False), ctx=hists[hn].get("ctx"), audit=hists[hn].get("audit", False), zero=hists[hn].get("zero", False),
                                                                        surface=False, calls=hists[hn]["calls"][:cn + 1]),
                       failing_call=cn, obs=ob, verdict=v, what=what)
            # open finding: the appchain manager's own admin->chain index is never shrunk, so an admin REMOVED by an approved
            # UpdateAppchain still is "self" for AppchainManager's PermissionSelf (narrow signature: exchain world, that
            # contract, that caller, a guard with PermissionSelf)
            if (hists[hn].get("exchain") and m is not None and m.contract == "AppchainManager" and hists[hn]["calls"][cn].get("as") == "$EXADM"
                    and m.guard["kind"] == "perm" and "PermissionSelf" in m.guard["perms"] and STALE_ADMIN in known):
                if v[0] == 2:
                    ctx.known(STALE_ADMIN, known[STALE_ADMIN]["what"])
                    continue
                if v[0] == 1:
                    continue      # refused inside the body, not by the guard: what the stale index makes of this caller
            if v[0] == 2:
                fid = FLAG_FINDING.get(v[1])
                if fid and fid in known:
                    ctx.known(fid, known[fid]["what"])
                    continue
                sig = (key[0], v[1])
                if sig in reported:
                    continue
                reported.add(sig)
                rep = shrink(ctx, exe, rep, known)
                ctx.violation("unauthorised call not rejected without effect: " + what, rep)
            elif v[0] == 1:
                ctx.broken("correspondence:judge_call", "model does not admit: " + what)
            else:
                ctx.broken("tie:surface-table", "method unknown to the generated surface or unclassified: " + what)
    ctx.extra["observation_distribution"] = dist
    ctx.extra["histories"] = len(hists)
    ctx.extra["argument_vectors_per_method"] = nvec
    ctx.extra["roles"] = ROLES
    return ctx.finish(rule="exhaustive over (registered method x 5 caller roles x audit on/off); %d typed argument vectors per method "
                           "(most plausible values per parameter name first, then sampled from the pools) plus one ill-typed vector; "
                           "non-trivial = distinct (method, role, audit) triples executed on the real executor and judged" % nvec)


def run_one(ctx, exe, hist, known, bykey):
    rc, outs, e = run_histories(exe, [hist])
    if rc != 0 or len(outs) != 1 or outs[0].get("setup") != "ok":
        return None
    res = []
    lits = []
    created = {}
    chains, phs, objs = hist_ctx(hist)
    for c, ob in zip(hist["calls"], outs[0]["calls"]):
        mine = frozenset(created.get(c["role"], ()))
        created.setdefault(c["role"], set()).update((d[0], d[1]) for d in ob.get("diff", []) if len(d) >= 3 and d[2] == "new")
        m = bykey.get((c["c"], c["m"]))
        if m is None:
            lit = case_literal(c["c"], c["m"], True, c["role"] == 2, False, ob, c["role"], mine, phs.get(c["role"]), objs)
        else:
            admin, self_ = caller_bits(m, c["role"], c["args"], chains, phs.get(c["role"]))
            lit = case_literal(m.contract, m.name, c.get("typed", not any(p.startswith("other:") for p in m.params)), admin, self_, ob, c["role"], mine, phs.get(c["role"]), objs)
        lits.append(lit)
        res.append(ob)
    vs = judge(ctx, lits, known, tag="C17r")
    if vs is None:
        return None
    return [(ob, vs[l]) for ob, l in zip(res, lits)]


def shrink(ctx, exe, rep, known):
    """the failing call alone on a fresh world, else the shortest failing prefix found by removing chunks"""
    contracts, methods = L.read_surface(os.path.join(vlib.COQ, "gen"))
    bykey = {m.key(): m for m in methods}
    h = rep["history"]
    want = rep["verdict"]
    calls = h["calls"]
    last = calls[-1]

    def fails(cs):
        r = run_one(ctx, exe, dict(h, calls=cs), known, bykey)
        return r is not None and r[-1][1][0] == want[0] and r[-1][1][1] == want[1]

    if fails([last]):
        rep["history"] = dict(h, calls=[last])
        rep["failing_call"] = 0
        return rep
    prefix = calls[:-1]
    n = 2
    budget = 12
    while len(prefix) >= 1 and budget > 0:
        chunk = max(1, len(prefix) // n)
        removed = False
        for i in range(0, len(prefix), chunk):
            budget -= 1
            cand = prefix[:i] + prefix[i + chunk:]
            if fails(cand + [last]):
                prefix = cand
                removed = True
                break
            if budget <= 0:
                break
        if not removed:
            if chunk == 1:
                break
            n *= 2
    rep["history"] = dict(h, calls=prefix + [last])
    rep["failing_call"] = len(prefix)
    return rep


def replay(ctx, path):
    obj = json.load(open(path))
    if "history" not in obj:
        print(json.dumps(dict(replay=path, note="no history in replay file (broken obligation)", broken=obj.get("broken"))))
        return 1
    ok, msg = vlib.run_extractor()
    vlib.coq_build(["theories/Model/Surface.vo"])
    exe, err = vlib.build_harness("surface")
    known = {f["id"]: f for f in vlib.known_findings() if f["property"] == "C17" and f.get("status") == "open"}
    contracts, methods = L.read_surface(os.path.join(vlib.COQ, "gen"))
    bykey = {m.key(): m for m in methods}
    r = run_one(ctx, exe, obj["history"], known, bykey)
    if r is None:
        print(json.dumps(dict(replay=path, error="driver or judge failed")))
        return 1
    worst = 0
    for (ob, v), c in zip(r, obj["history"]["calls"]):
        print(json.dumps(dict(call=dict(c=c["c"], m=c["m"], role=ROLES[c["role"]]), obs=ob, verdict=v)))
        if v[0] != 0:
            worst = 1
    return worst
