"""C05: one-to-many cross-chain transactions are all-or-nothing."""
from checks import ibtp_common as C


def run(ctx):
    gens = [
        (8, C.gen_group),
        (1, lambda r: C.gen_mixed(r, C.W_GROUP, nblocks=r.randrange(4, 10), p_group=0.5)),
        (1, C.gen_timeout),
        (1, C.gen_shared_expiry),
        (4, C.gen_shared_group_expiry),
        (2, C.gen_colliding_groups),
    ]
    return C.run_check(ctx, "C05", gens, 100, 6000, router_n=30 if ctx.quick else 1000)


def replay(ctx, path):
    return C.replay_check(ctx, "C05", path)
