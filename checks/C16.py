"""C16: only available, permitted services interchange; objects obey their lifecycle.

Governed histories (register/update/freeze/activate/logout of appchains, services, rules, roles, each approved,
rejected or withdrawn, interleaved with interchain requests and node restarts) run on the real executor through
the real register -> proposal -> vote -> Manage flow (driver harness/lifecycle).  After every step the driver reads
back every object's status (BVM views) and the executor's service cache (hook).  Inside Coq (Model/Lifecycle.v):
first the property predicate P_trace on the implementation's own trace (gate agrees with the STORED records;
status changes follow the generated state machines; logged-out objects stay logged out; frozen / logged-out
appchains have no available service), then model trace = implementation trace under a defect-flag set below the
current one.  Plus the exhaustive differential test of every (status, event, lastStatus) of the five object state
machines and of the pre-check maps against the real library code."""
import json
import os
import threading

import vlib
from vlib import glist, gbool, gstr

EV = {"update": 0, "freeze": 1, "activate": 2, "logout": 3}
KIND = {"appchain": "KChain", "service": "KSvc", "rule": "KRule", "role": "KRole", "node": "KNode"}
FLAG_FINDING = {"d_cache_failed_events": "C16-cache-fed-by-failed-tx", "d_cache_not_reloaded": "C16-cache-not-reloaded",
                "d_logout_reject_unpauses": "C16-logout-reject-unpauses-services",
                "d_withdraw_paused": "C16-withdraw-paused-proposal",
                "d_unpause_restores_locked": "C16-unpause-restores-locked-proposal"}


# ----------------------------------------------------------------------------- blocks
# a history is a list of operations; the marker [14, n] says that the next n operations share one block

def to_blocks(h):
    bs, i = [], 0
    while i < len(h):
        if h[i][0] == 14:
            blk = [o for o in h[i + 1:i + 1 + h[i][1]] if o[0] != 14]
            i += 1 + h[i][1]
            if blk:
                bs.append(blk)
        else:
            bs.append([h[i]])
            i += 1
    return bs


def from_blocks(bs):
    out = []
    for b in bs:
        if len(b) > 1:
            out.append([14, len(b)])
        out += b
    return out


def flat(h):
    return [o for b in to_blocks(h) for o in b]


def pack(*ops):
    return [[14, len(ops)]] + [list(o) for o in ops]


# ----------------------------------------------------------------------------- history -> Gallina

def gop(o):
    c = o[0]
    bl = lambda xs: glist(sorted(xs), lambda x: "%d" % x)
    if c == 0:
        return "ORegChain %d" % o[1]
    if c == 1:
        return "OChainOp %d %d" % (o[1], o[2])
    if c == 2:
        return "ORegSvc %d %d %s" % (o[1], o[2], bl(o[3]))
    if c == 3:
        return "OSvcOp %d %d %s" % (o[1], o[2], bl(o[3]))
    if c == 4:
        return "OSvcBlack %d %s" % (o[1], bl(o[2]))
    if c == 5:
        return "ORuleReg %d %d" % (o[1], o[2])
    if c == 6:
        return "ORuleLogout %d %d" % (o[1], o[2])
    if c == 7:
        return "ORuleUpdate %d %d" % (o[1], o[2])
    if c == 8:
        return "ORoleReg %d" % o[1]
    if c == 9:
        return "ORoleOp %d %d" % (o[1], o[2])
    if c == 10:
        return "OConclude %d %s" % (o[1], gbool(o[2]))
    if c == 11:
        return "OWithdraw %d" % o[1]
    if c == 12:
        return "OIbtp %d %d" % (o[1], o[2])
    if c == 13:
        return "ORestart"
    if c == 15:
        return "ORoleVote %d %d %s" % (o[1], o[2], gbool(o[3]))
    raise ValueError(o)


def gsvc(chain, status, black, reg):
    return "{| sv_chain := %d; sv_status := %s; sv_black := %s; sv_reg := %s |}" % (max(chain, 0), gstr(status), glist(black, lambda x: "%d" % max(x, 0)), gbool(reg))


def gobs(s):
    chains = glist(s["chains"], lambda e: "(%d, %s)" % (e[0], gstr(e[1])))
    svcs = glist(s["svcs"], lambda e: "(%d, %s)" % (e[0], gsvc(e[1], e[2], e[3], e[4])))
    rules = glist(s["rules"], lambda e: "(%d, %s)" % (e[0], glist(e[1], lambda r: "(%d, %s, %s)" % (r[0], gstr(r[1]), gbool(r[2])))))
    roles = glist(s["roles"], lambda e: "(%d, %s)" % (e[0], gstr(e[1])))
    props = glist(s["props"], lambda x: "%d" % x)
    cache = glist(s["cache"], lambda e: "(%d, %s)" % (max(e[0], 0), gsvc(e[1], e[2], e[3], False)))
    return ("{| ob_ok := %s; ob_out := %d; ob_chains := %s; ob_svcs := %s; ob_rules := %s; ob_roles := %s; ob_props := %s; ob_cache := %s |}"
            % (gbool(s["ok"]), s["out"], chains, svcs, rules, roles, props, cache))


def cfg_literal(known):
    # d_cache_not_reloaded is a fact of the code (the cache starts empty), harmless for gating on its own: always tried on and off
    # d_cache_deferred / a non-injective d_cache_key are not facts of the code: never part of the current set
    return ("{| d_cache_failed_events := %s; d_cache_not_reloaded := true; d_logout_reject_unpauses := %s; d_manage_reject_only := false; "
            "d_withdraw_paused := %s; d_unpause_restores_locked := %s; d_cache_key := fun i => i; d_cache_deferred := false |}") % tuple(
        gbool(FLAG_FINDING[f] in known) for f in ("d_cache_failed_events", "d_logout_reject_unpauses", "d_withdraw_paused", "d_unpause_restores_locked"))


def judge(ctx, pairs, known, tag="C16"):
    """pairs: list of (ops, steps); returns list of verdicts"""
    if not pairs:
        return []
    shards = [list(range(i, min(i + 60, len(pairs)))) for i in range(0, len(pairs), 60)]
    res = [None] * len(pairs)
    errs = []

    def work(k, idxs):
        cases = glist([pairs[i] for i in idxs], lambda p: "(%s, %s)" % (glist(to_blocks(p[0]), lambda b: glist(b, gop)), glist(p[1], gobs)))
        src = ("From BX Require Import Base.Prelude Model.Gate Model.Lifecycle.\nFrom Coq Require Import String.\nLocal Open Scope string_scope.\nLocal Open Scope N_scope.\n"
               "Definition cfg_current : cfg := %s.\nDefinition cases : list (list (list op) * list obs) :=\n %s.\n"
               "Definition M := Eval vm_compute in map (judge_hist cfg_current) cases.\nPrint M.\n") % (cfg_literal(known), cases)
        rc, out = vlib.coq_eval("%s_cases_%d_%d" % (tag, os.getpid(), k), src, timeout=1200)
        vs = vlib.parse_verdicts(out)
        if rc != 0 or vs is None or len(vs) != len(idxs):
            errs.append(out[-1500:])
            return
        for i, v in zip(idxs, vs):
            res[i] = v

    ts = [threading.Thread(target=work, args=(k, s)) for k, s in enumerate(shards)]
    for i in range(0, len(ts), 8):
        for t in ts[i:i + 8]:
            t.start()
        for t in ts[i:i + 8]:
            t.join()
    if errs:
        ctx.broken("correspondence:judge_hist", errs[0])
        return None
    return res


# ----------------------------------------------------------------------------- generators

CHAINS = [1, 2, 3]
# ids 10c+8 / 10c+9: one contract-address-like service id in checksum spelling and in lower case (two services)
SVCS = {1: [10, 11, 12], 2: [20, 21, 28, 29], 3: [30]}
ALL_SVCS = [s for c in CHAINS for s in SVCS[c]]
POOL = [10, 10, 11, 12, 20, 20, 21, 28, 29]


def setup_prefix(r, rich=True):
    """two appchains with services, everything approved"""
    ops = [[0, 1], [10, 0, True], [0, 2], [10, 0, True], [2, 1, 10, []], [10, 0, True], [2, 2, 20, []], [10, 0, True]]
    if rich:
        ops += [[2, 1, 11, []], [10, 0, True]]
        if r.random() < 0.5:
            ops += [[2, 2, 21, [10] if r.random() < 0.5 else []], [10, 0, True]]
    return ops


def rand_black(r):
    k = r.choice([0, 0, 1, 1, 2])
    return sorted(r.sample([10, 11, 20, 21, 28, 29], k))


def rand_op(r):
    x = r.random()
    if x < 0.06:
        return [0, r.choice(CHAINS)]
    if x < 0.26:
        return [1, r.choice([0, 1, 1, 2, 2, 3]), r.choice([1, 1, 2, 3])]
    if x < 0.33:
        c = r.choice(CHAINS)
        return [2, c, r.choice(SVCS[c]), rand_black(r)]
    if x < 0.50:
        return [3, r.choice([0, 1, 1, 2, 2, 3]), r.choice(POOL), rand_black(r)]
    if x < 0.55:
        return [4, r.choice(POOL), rand_black(r)]
    if x < 0.60:
        return [r.choice([5, 6, 7, 7]), r.choice([1, 2]), r.choice([0, 1, 2, 3, 3, 4])]
    if x < 0.63:
        return [8, r.choice([1, 2])]
    if x < 0.68:
        return [9, r.choice([1, 2, 3]), r.choice([1, 2])]
    if x < 0.695:
        return [11, r.choice([0, 0, 1])]
    if x < 0.70:
        return [15, r.choice([1, 2, 3]), r.choice([0, 0, 1]), r.random() < 0.7]
    if x < 0.72:
        return [13]
    return None


def gen_history(r, n):
    ops = setup_prefix(r, rich=r.random() < 0.7) if r.random() < 0.85 else []
    pending = 0
    while len(ops) < n:
        o = rand_op(r)
        if o is None:
            # conclude something pending, newest first mostly
            ops.append([10, r.choice([0, 0, 0, 1]), r.random() < 0.6])
            pending = max(0, pending - 1)
        else:
            ops.append(o)
            if o[0] in (0, 1, 2, 3, 7, 8, 9):
                pending += 1
                # "before / during / after": traffic while the proposal is open, then mostly a decision
                if r.random() < 0.6:
                    ops.append(rand_ibtp(r))
                if r.random() < 0.7:
                    ops.append([10, 0, r.random() < 0.6])
                    pending -= 1
        if r.random() < 0.55:
            ops.append(rand_ibtp(r))
    return pack_some(r, ops[:n + 4])


def pack_some(r, ops, p=0.35):
    """put a deciding vote / a permission-only update / a chain or service operation into ONE block with the requests
    that follow it (and, sometimes, one that precedes it).  Inside a block: requests on distinct (source, destination)
    pairs; at most one operation that is not a request, so that relative proposal references mean the same before
    and inside the block."""
    out, i = [], 0
    while i < len(ops):
        o = ops[i]
        nxt = ops[i + 1:i + 4]
        if o[0] in (10, 4, 1, 3, 2) and nxt and nxt[0][0] == 12 and r.random() < p:
            blk = [o, nxt[0]]
            if len(nxt) > 1 and nxt[1][0] == 12 and nxt[1][1:] != nxt[0][1:] and r.random() < 0.6:
                blk.append(nxt[1])
            out += pack(*blk)
            i += len(blk)
        elif o[0] == 12 and len(nxt) > 1 and nxt[0][0] in (10, 4) and nxt[1][0] == 12 and nxt[1][1:] != o[1:] and r.random() < p / 2:
            out += pack(o, nxt[0], nxt[1])
            i += 3
        else:
            out.append(o)
            i += 1
    return out


def rand_ibtp(r):
    src = r.choice(POOL)
    dst = r.choice([s for s in POOL if s != src])
    return [12, src, dst]


def gen_malformed(r, n):
    """no setup, arbitrary order: mostly refusals"""
    ops = []
    while len(ops) < n:
        o = rand_op(r) or [10, r.choice([0, 1, 2]), r.random() < 0.5]
        ops.append(o)
        if r.random() < 0.3:
            ops.append(rand_ibtp(r))
    return ops


def scenario_histories():
    """the scenarios named in the property and by the reviewers, always run"""
    S = [[0, 1], [10, 0, True], [0, 2], [10, 0, True], [2, 1, 10, []], [10, 0, True], [2, 2, 20, []], [10, 0, True]]
    T = [12, 10, 20]
    out = []
    # traffic before / during / after every chain transition, approve and reject
    for ev in (0, 1, 2, 3):
        for appr in (True, False):
            pre = [[1, 1, 1], [10, 0, True]] if ev == 2 else []
            out.append(S + [T] + pre + [T, [1, ev, 1], T, [12, 20, 10], [10, 0, appr], T, [12, 20, 10], [13], T])
    # same for the service
    for ev in (0, 1, 2, 3):
        for appr in (True, False):
            pre = [[3, 1, 10, []], [10, 0, True]] if ev == 2 else []
            out.append(S + pre + [T, [3, ev, 10, [] if ev else [20]], T, [12, 20, 10], [10, 0, appr], T, [12, 20, 10], [13], T])
    # registration pending -> chain freeze approved -> registration approved: the service must end up paused
    out.append(S + [[2, 1, 11, []], [1, 1, 1], [10, 0, True], [10, 0, True], [12, 11, 20], [12, 10, 20], [1, 2, 1], [10, 0, True], [12, 11, 20]])
    # permission-only update (no proposal) then traffic from the newly blacklisted source, running node and after restart
    out.append(S + [T, [4, 20, [10]], T, [13], T, [4, 20, []], T])
    # freeze approved -> logout submitted -> logout rejected
    out.append(S + [[1, 1, 1], [10, 0, True], T, [1, 3, 1], [10, 0, False], T, [13], T])
    # update pending -> logout submitted -> logout rejected (the locked update proposal is restored)
    out.append(S + [[1, 0, 1], [1, 3, 1], T, [10, 0, False], T, [10, 0, True], T])
    # master rule update approved / rejected
    out.append(S + [[7, 1, 1], T, [10, 0, True], T, [7, 1, 0], [10, 0, False], T, [1, 2, 1], [10, 0, True], T])
    # custom rule register / logout; appchain logout clears rules and services
    out.append(S + [[5, 1, 3], [5, 1, 4], [6, 1, 4], [7, 1, 3], [10, 0, False], [1, 3, 1], [10, 0, True], T, [12, 20, 10], [2, 1, 11, []], [0, 1]])
    # roles
    out.append([[8, 1], [10, 0, True], [9, 1, 1], [10, 0, True], [9, 2, 1], [10, 0, False], [9, 2, 1], [10, 0, True], [9, 3, 1], [10, 0, True], [9, 2, 1], [8, 1]])
    out.append([[8, 1], [10, 0, False], [8, 1], [11, 0], [8, 1], [10, 0, True], [9, 3, 1], [10, 0, False], [9, 1, 1], [9, 3, 1], [10, 0, False], [10, 0, False]])
    # a paused service with a locked activate proposal makes the appchain's activation fail after events were posted
    out.append(S + [[2, 1, 11, []], [10, 0, True], [3, 1, 11, []], [10, 0, True], [3, 2, 11, []], [1, 1, 1], [10, 0, True],
                    [1, 2, 1], [10, 0, True], T, [12, 11, 20], [13], T])
    # withdraw, logout of a service and re-registration attempts
    out.append(S + [[3, 3, 10, []], T, [11, 0], T, [3, 3, 10, []], [10, 0, True], T, [12, 20, 10], [2, 1, 10, []], [3, 2, 10, []]])
    out += packed_scenarios()
    out += interleaved_scenarios()
    out += transitional_scenarios()
    out += former_admin_scenarios()
    out += case_twins()
    return out


def interleaved(r, svc=None, low=None, chain_step=None, end=None, tail=None):
    """concurrent proposals of different priority on ONE service with a transition of its appchain in between:
    (1) a freeze / update / activate proposal of the service is pending, (2) its logout is submitted and locks it,
    (3) the appchain becomes unusable, (4) the logout is rejected or withdrawn - governance restores the locked
    proposal and tells the manager ITS event name, not "reject" - (5) the restored proposal is decided, the appchain
    comes back or is logged out; requests from and to the service all along."""
    i = svc if svc is not None else r.choice([10, 10, 11, 20])
    c = i // 10
    other = 20 if c == 1 else 10
    tr = lambda: r.choice([[12, i, other], [12, other, i]])
    both = [[12, i, other], [12, other, i]]
    ops = [[0, 1], [10, 0, True], [0, 2], [10, 0, True], [2, 1, 10, []], [10, 0, True], [2, 2, 20, []], [10, 0, True]]
    if i == 11:
        ops += [[2, 1, 11, []], [10, 0, True]]
    low = low if low is not None else r.choice(["freeze", "update", "activate"])
    if low == "freeze":
        ops += [[3, 1, i, []]]
    elif low == "update":
        ops += [[3, 0, i, [other] if r.random() < 0.5 else []]]
    else:
        ops += [[3, 1, i, []], [10, 0, True], tr(), [3, 2, i, []]]
    ops += [tr(), [3, 3, i, []], tr()]
    chain_step = chain_step if chain_step is not None else r.choice(["freeze", "freeze", "logout-pending", "update-pending", "rule-pending", "none"])
    k = 0
    if chain_step == "freeze":
        ops += [[1, 1, c], [10, 0, True]]
    elif chain_step == "logout-pending":
        ops += [[1, 3, c]]
        k = 1
    elif chain_step == "update-pending":
        ops += [[1, 0, c]]
        k = 1
    elif chain_step == "rule-pending":
        ops += [[7, c, 1]]
        k = 1
    ops += both
    end = end if end is not None else r.choice(["reject", "reject", "withdraw", "approve"])
    dec = {"reject": [10, k, False], "withdraw": [11, k], "approve": [10, k, True]}[end]
    if r.random() < 0.3:
        ops += pack(dec, [12, i, other], [12, other, i])
    else:
        ops += [dec] + both
    for t in (tail if tail is not None else [r.choice(["low-approve", "low-reject", "chain-approve", "chain-reject", "chain-activate", "restart", "chain-logout"]) for _ in range(3)]):
        if t == "low-approve":
            ops += [[10, r.choice([0, 0, 1]), True]]
        elif t == "low-reject":
            ops += [[10, r.choice([0, 0, 1]), False]]
        elif t == "chain-approve":
            ops += [[10, 0, True]]
        elif t == "chain-reject":
            ops += [[10, 0, False]]
        elif t == "chain-activate":
            ops += [[1, 2, c], [10, 0, True]]
        elif t == "chain-logout":
            ops += [[1, 3, c], [10, 0, True]]
        else:
            ops += [[13]]
        ops += both
    return ops


def interleaved_scenarios():
    """the grid named by the reviewers, always run"""
    class R:  # no randomness left open
        def random(self):
            return 0.9

        def choice(self, xs):
            return xs[0]
    out = []
    for low in ("freeze", "update", "activate"):
        for chain_step in ("freeze", "logout-pending", "update-pending"):
            for end in ("reject", "withdraw"):
                out.append(interleaved(R(), 10, low, chain_step, end, ["low-approve", "chain-approve" if chain_step != "freeze" else "chain-activate", "restart"]))
    return out


def case_twins(r=None):
    """service ids that differ only in the case of their letters (28 / 29): one registered and the other not, both
    registered and one of them frozen / logged out / refusing the source while the other posts events; warm cache
    and after a restart"""
    S = [[0, 1], [10, 0, True], [0, 2], [10, 0, True], [2, 1, 10, []], [10, 0, True], [2, 2, 20, []], [10, 0, True]]
    A = [10, 0, True]
    probe = lambda: [[12, 10, 28], [12, 10, 29], [12, 28, 10], [12, 29, 10]]
    if r is None:
        out = []
        for x, y in ((28, 29), (29, 28)):
            out.append(S + [[2, 2, x, []], A] + probe() + [[12, 20, y], [13]] + probe())
            for ev in (1, 3):
                out.append(S + [[2, 2, x, []], A, [2, 2, y, []], A] + probe() + [[3, ev, x, []], A] + probe() + [[4, y, []]] + probe()
                           + [[13]] + probe() + [[4, y, [10]]] + probe())
            out.append(S + [[2, 2, x, []], A, [2, 2, y, []], A, [4, x, [10]]] + probe() + [[4, y, []]] + probe() + [[13]] + probe())
            out.append(S + [[2, 2, x, []], A, [2, 2, y, []], A, [1, 1, 2], A, [1, 2, 2], A] + probe() + [[3, 1, x, []], A]
                       + pack([3, 0, y, [10]], [12, 10, x]) + pack(A, [12, 10, x], [12, x, 10]) + probe())
        return out
    ops = list(S)
    x, y = r.choice([(28, 29), (29, 28)])
    ops += [[2, 2, x, []], [10, 0, r.random() < 0.9]]
    if r.random() < 0.6:
        ops += [[2, 2, y, [10] if r.random() < 0.3 else []], [10, 0, r.random() < 0.8]]
    for _ in range(r.choice([3, 4, 5])):
        z = r.choice([x, x, y])
        k = r.random()
        if k < 0.3:
            ops += [[3, r.choice([1, 1, 2, 3, 0]), z, [10] if r.random() < 0.3 else []], [10, 0, r.random() < 0.75]]
        elif k < 0.55:
            ops += [[4, z, r.choice([[], [10], [20]])]]
        elif k < 0.65:
            ops += [[1, r.choice([1, 2, 3]), 2], [10, 0, r.random() < 0.7]]
        elif k < 0.75:
            ops += [[13]]
        ops += r.sample(probe(), 2) + ([[12, 20, z]] if r.random() < 0.3 else [])
    return pack_some(r, ops)


def former_admin_scenarios():
    """a governance admin role (a fourth admin next to the three genesis ones) is registered, proposals are opened
    while it is available (it is in their electorate), then it is frozen / logged out by the others - or its
    logout / freeze is only pending - and its account votes on the proposals that are still open, its own included"""
    S = [[0, 1], [10, 0, True], [0, 2], [10, 0, True], [2, 1, 10, []], [10, 0, True], [2, 2, 20, []], [10, 0, True]]
    A, T = [10, 0, True], [12, 10, 20]
    out = []
    for ev in (3, 1):                      # logout / freeze of the role
        for decided in (True, False):
            h = S + [[8, 1], A, [3, 1, 20, []], [1, 1, 2], T, [9, ev, 1]]
            if decided:
                h += [A, [15, 1, 0, True], [15, 1, 1, True], T, [15, 1, 0, False]]
            else:
                # its own proposal is the newest open one: the role votes against it, then on the older ones
                h += [[15, 1, 0, False], [15, 1, 1, True], [15, 1, 2, True], T]
            h += [A, T, [13], [15, 1, 0, True], A, T]
            out.append(h)
    # an account that never was an admin, and a role whose registration was rejected
    out.append(S + [[3, 1, 20, []], [15, 2, 0, True], T, [8, 2], [10, 0, False], [15, 2, 0, True], A, T])
    # ballots packed into one block with the decisive vote of the others and a request
    out.append(S + [[8, 1], A, [3, 1, 20, []], [9, 3, 1], A] + pack([15, 1, 0, True], T) + pack(A, T) + [T])
    return out


def transitional_scenarios():
    """a service in every transitional / frozen status when its appchain becomes unusable (freeze approved, logout or
    update submitted): it must be paused with its proposal; deciding that proposal afterwards must not bring it back"""
    S = [[0, 1], [10, 0, True], [0, 2], [10, 0, True], [2, 1, 10, []], [10, 0, True], [2, 2, 20, []], [10, 0, True]]
    A, T, B = [10, 0, True], [12, 10, 20], [12, 20, 10]
    pre = {"frozen": [[3, 1, 10, []], A], "activating": [[3, 1, 10, []], A, [3, 2, 10, []]], "updating": [[3, 0, 10, [20]]],
           "freezing": [[3, 1, 10, []]]}
    out = []
    for name, ops in pre.items():
        for step in ([[1, 1, 1], A], [[1, 3, 1]], [[1, 0, 1]]):
            h = S + ops + step + [T, B]
            # whatever is still open about the service: try to approve it (refused when it was paused along with the service)
            h += [[10, 1 if len(step) == 1 else 0, True], T, B, [3, 2, 10, []], [10, 0, True], T, B]
            # the appchain comes back (activation approved / its own proposal rejected): the service follows
            h += ([[1, 2, 1], A] if len(step) == 2 else [[10, 0, False]]) + [T, B, [10, 0, True], T, [13], T, B]
            out.append(h)
    return out


def packed_scenarios():
    """the transition and the request it affects in ONE block, then in the next block, then after a restart"""
    S = [[0, 1], [10, 0, True], [0, 2], [10, 0, True], [2, 1, 10, []], [10, 0, True], [2, 2, 20, []], [10, 0, True]]
    S2 = S + [[2, 1, 11, []], [10, 0, True]]
    T, B, U = [12, 10, 20], [12, 20, 10], [12, 11, 20]
    A, R = [10, 0, True], [10, 0, False]
    out = []
    # (1) a deciding vote on a service proposal: freeze / activate / logout / update of the destination and of the source
    for svc in (20, 10):
        for ev in (1, 3, 0):
            for dec in (A, R):
                out.append(S + [T, [3, ev, svc, [10] if ev == 0 else []]] + pack(dec, T, B) + [T, B, [13], T, B])
        out.append(S + [[3, 1, svc, []], A, [3, 2, svc, []]] + pack(A, T, B) + [T, [13], T])
    # (2) the permission-only update of the destination
    out.append(S + [T] + pack([4, 20, [10]], T) + [T, [13], T] + pack([4, 20, []], T) + [T])
    out.append(S2 + pack(U, [4, 20, [10, 11]], T) + [U, T, [13], U] + pack(T, [4, 20, [11]], U) + [T, U])
    # (3) appchain transitions: freeze approved, logout / update submitted, their decisions, activation
    out.append(S + [[1, 1, 1]] + pack(A, T, B) + [T, B, [13], T, [1, 2, 1]] + pack(A, T, B) + [T])
    out.append(S + pack([1, 3, 1], T, B) + [T] + pack(R, T, B) + [T, [13], T] + [[1, 3, 1]] + pack(A, T, B) + [T, B])
    out.append(S + pack([1, 0, 1], T, B) + [T] + pack(A, T, B) + [T, [13], T] + pack([1, 0, 1], T) + pack(R, T) + [T])
    out.append(S + pack([1, 1, 1], T) + pack(R, T) + [[7, 1, 1]] + pack(T, A, B) + [T])
    # (4) a request before and one after the decision in the same block; a registration approved in the block of the first request
    out.append(S2 + [[3, 1, 20, []]] + pack(T, A, U) + [T, U])
    out.append(S + [[2, 1, 11, []]] + pack(A, U) + [U, [2, 2, 21, [10]]] + pack(A, [12, 10, 21], [12, 11, 21]))
    return out


# ----------------------------------------------------------------------------- FSM differential test

def fsm_test(ctx, exe):
    rc, outs, e = vlib.run_driver(exe, "fsm", [{}], args=(["quick"] if ctx.quick else []), timeout=600)
    if rc != 0 or len(outs) != 1:
        ctx.broken("driver:fsm", (e or "")[-800:])
        return
    fire, pre = outs[0]["fire"], outs[0]["pre"]
    rows, rrows, prow = [], [], []
    for x in fire:
        if x["k"] == "rule":
            res = "None" if x["r"] is None else "(Some (%s, %s))" % (gstr(x["r"]), gbool(x["f"][2]))
            rrows.append("(%s, %s, %s, %s, %s, %s)" % (gstr(x["s"]), gstr(x["e"]), gstr(x["l"]), gbool(x["f"][0]), gbool(x["f"][1]), res))
        else:
            res = "None" if x["r"] is None else "(Some %s)" % gstr(x["r"])
            rows.append("(%s, %s, %s, %s, %s)" % (KIND[x["k"]], gstr(x["s"]), gstr(x["e"]), gstr(x["l"]), res))
    for x in pre:
        prow.append("(%s, %s, %s, %s)" % (KIND[x["k"]], gstr(x["e"]), gstr(x["s"]), gbool(x["ok"])))
    n = len(rows) + len(rrows) + len(prow)
    ctx.extra["fsm_pairs_checked"] = n
    jobs = [("rows", "okind * string * string * string * option string", "judge_fire", rows[i:i + 2500]) for i in range(0, len(rows), 2500)]
    jobs += [("rrows", "string * string * string * bool * bool * option (string * bool)", "judge_fire_rule", rrows[i:i + 2500]) for i in range(0, len(rrows), 2500)]
    jobs += [("prows", "okind * string * string * bool", "judge_pre", prow)]
    bad, bad_txt, errs = [0], [], []

    def work(k, job):
        name, typ, fn, lst = job
        src = ("From BX Require Import Base.Prelude Model.Gate Model.Lifecycle.\nFrom Coq Require Import String.\nLocal Open Scope string_scope.\n"
               "Definition rows : list (%s) :=\n %s.\n"
               "Definition M := Eval vm_compute in [(N.of_nat (List.length (filter (fun x => negb (%s x)) rows)), 0%%N)].\nPrint M.\n"
               "Definition B := Eval vm_compute in firstn 3 (filter (fun x => negb (%s x)) rows).\nPrint B.\n") % (typ, glist(lst), fn, fn)
        rc, out = vlib.coq_eval("C16_fsm_%d_%d" % (os.getpid(), k), src, timeout=1200)
        vs = vlib.parse_verdicts(out)
        if rc != 0 or vs is None or len(vs) != 1:
            errs.append(out[-1200:])
            return
        if vs[0][0]:
            bad[0] += vs[0][0]
            bad_txt.append(out[out.find("B ="):][:600])

    ts = [threading.Thread(target=work, args=(k, j)) for k, j in enumerate(jobs)]
    for i in range(0, len(ts), 8):
        for t in ts[i:i + 8]:
            t.start()
        for t in ts[i:i + 8]:
            t.join()
    ctx.evaluations += n
    ctx.traces_validated += n
    if errs:
        ctx.broken("correspondence:fsm-differential", errs[0])
    elif bad[0]:
        ctx.broken("correspondence:fsm-differential", "%d of %d (status,event,lastStatus) rows differ between the generated tables + fsm semantics and the real ChangeStatus/GovernancePre: %s"
                   % (bad[0], n, " ".join(bad_txt)[:900]))


# ----------------------------------------------------------------------------- main

def load_corpus():
    out = []
    for f in sorted(os.listdir(vlib.CORPUS)):
        if f.startswith("C16_") and f.endswith(".json"):
            out.append((f, json.load(open(os.path.join(vlib.CORPUS, f)))))
    return out


def run_driver(exe, hists, audits=None):
    # several driver processes side by side (one world per history, a few milliseconds per block)
    par = 8
    audits = audits or [False] * len(hists)
    chunks = [list(zip(hists[i::par], audits[i::par])) for i in range(par)]
    results = [None] * par

    def work(k):
        if not chunks[k]:
            results[k] = (0, [], "")
            return
        tmp = "/tmp/verif-lc-%d-%d" % (os.getpid(), k)
        os.makedirs(tmp, exist_ok=True)
        inp = "\n".join(json.dumps(dict(ops=h, audit=a), separators=(",", ":")) for h, a in chunks[k]) + "\n"
        rc, o, e = vlib.sh([exe, "lifecycle"], inp=inp, timeout=3000, env=dict(os.environ, TMPDIR=tmp))
        import shutil
        shutil.rmtree(tmp, ignore_errors=True)
        outs = []
        for l in o.splitlines():
            if l.startswith("{"):
                try:
                    outs.append(json.loads(l))
                except ValueError:
                    pass
        results[k] = (rc, outs, e)

    ts = [threading.Thread(target=work, args=(k,)) for k in range(par)]
    for t in ts:
        t.start()
    for t in ts:
        t.join()
    outs = [None] * len(hists)
    for k in range(par):
        rc, os_, e = results[k]
        if rc != 0 or len(os_) != len(chunks[k]):
            return rc or 1, [], e
        for j, o in enumerate(os_):
            outs[k + j * par] = o
    return 0, outs, ""


def classify(v, known):
    """returns ('ok'|'known'|'violation'|'mismatch', finding id or text)"""
    if v[0] == 0:
        return "ok", None
    if v[0] == 2:
        w = v[1] // 100000
        explained = (v[1] % 100000) >= 50000
        by_withdraw = (v[1] % 50000) >= 25000   # the withdrawal of a paused proposal is what breaks the property on this history
        step = v[1] % 25000
        what = {1: "an interchain request was accepted/rejected against the stored service records (gate)", 2: "a status changed outside the declared state machine",
                3: "a logged-out object became usable again", 4: "a frozen / logged-out appchain has an available service (cascade)",
                5: "a service with a pending logout left status logouting without a rejection or withdrawal",
                6: "the ballot of an account that is not an available governance admin (logged out / frozen / never one) was accepted"}.get(w, "?")
        fid = {1: FLAG_FINDING["d_cache_failed_events"], 4: FLAG_FINDING["d_logout_reject_unpauses"], 5: FLAG_FINDING["d_unpause_restores_locked"]}.get(w)
        if explained and fid in known:
            return "known", fid
        if by_withdraw and FLAG_FINDING["d_withdraw_paused"] in known:
            return "known", FLAG_FINDING["d_withdraw_paused"]
        return "violation", "%s at step %d" % (what, step)
    if v[0] == 1:
        comp = {1: "receipt", 2: "request outcome", 3: "appchain statuses", 4: "service records", 5: "rules", 6: "roles", 7: "proposal statuses", 8: "executor cache", 9: "trace length"}
        return "mismatch", "model and implementation differ in %s at step %d" % (comp.get(v[1] // 1000, "?"), v[1] % 1000)
    return "mismatch", "outside the model's domain"


def run(ctx):
    ctx.proofs(["Proofs/LifecycleProofs"], model_targets=["Gate", "Lifecycle"])
    known = {f["id"]: f for f in vlib.known_findings() if f["property"] == "C16" and f.get("status") == "open"}
    exe, err = vlib.build_harness("lifecycle")
    if exe is None:
        ctx.broken("harness-build", err)
        return ctx.finish(rule="-")
    if not ctx.model_ok:
        return ctx.finish(rule="-")
    fsm_test(ctx, exe)
    r = ctx.rng
    hists = [obj["history"] for _, obj in load_corpus()]
    ncorpus = len(hists)
    hists += scenario_histories()
    nscen = len(hists) - ncorpus
    n_rand, n_mal = (340, 50) if ctx.quick else (6000, 600)
    n_inter = 60 if ctx.quick else 900
    hists += [interleaved(r) for _ in range(n_inter)]
    n_twin = 40 if ctx.quick else 600
    hists += [case_twins(r) for _ in range(n_twin)]
    hists += [gen_history(r, r.choice([14, 20, 28, 36])) for _ in range(n_rand)]
    hists += [gen_malformed(r, r.choice([8, 16])) for _ in range(n_mal)]
    # audit logging must not change any of this: every fourth history runs with EnableAudit on
    audits = [i % 4 == 3 for i in range(len(hists))]
    rc, outs, e = run_driver(exe, hists, audits)
    if rc != 0 or len(outs) != len(hists):
        ctx.broken("driver:lifecycle", (e or "")[-1500:])
        return ctx.finish(rule="-")
    bad = [o.get("setup") for o in outs if o.get("setup") != "ok"]
    if bad:
        ctx.broken("driver:lifecycle-world", str(bad[0])[:600])
        return ctx.finish(rule="-")
    pairs = [(h, o["steps"]) for h, o in zip(hists, outs)]
    vs = judge(ctx, pairs, known)
    dist = dict(ops={}, outcomes={}, refused=0, accepted=0)
    if vs is not None:
        reported = 0
        for hn, ((h, steps), v) in enumerate(zip(pairs, vs)):
            fh = flat(h)
            outs_ = [s["out"] for s in steps if s["out"] in (0, 1, 2, 3)]
            nontriv = any(s["ok"] for s, o in zip(steps, fh) if o[0] != 12) and any(not s["ok"] for s in steps) or (0 in outs_ and (1 in outs_ or 2 in outs_))
            ctx.count(case_key=json.dumps(h), nontrivial=bool(nontriv), sample=dict(history=h[:12], verdict=v, last=steps[-1]) if hn % 37 == 0 else None)
            ctx.traces_validated += 1
            if len(fh) != len(h):
                dist["packed_blocks"] = dist.get("packed_blocks", 0) + sum(1 for o in h if o[0] == 14)
            for o, s in zip(fh, steps):
                dist["ops"][str(o[0])] = dist["ops"].get(str(o[0]), 0) + 1
                if o[0] == 12:
                    dist["outcomes"][str(s["out"])] = dist["outcomes"].get(str(s["out"]), 0) + 1
                elif s["ok"]:
                    dist["accepted"] += 1
                else:
                    dist["refused"] += 1
            kind, what = classify(v, known)
            if kind == "ok":
                continue
            if kind == "known":
                ctx.known(what, known[what]["what"])
                continue
            rep = dict(property="C16", driver="lifecycle", history=h, audit=audits[hn], verdict=v, what=what, impl_trace=steps)
            if kind == "violation":
                if reported < 3:
                    rep = shrink(ctx, exe, rep, known)
                    ctx.violation(rep["what"], rep)
                    reported += 1
            else:
                ctx.broken("correspondence:judge_hist", "history %d: %s; ops %s" % (hn, what, json.dumps(h)[:600]))
    ctx.extra["distribution"] = dist
    ctx.extra["histories"] = dict(corpus=ncorpus, scenarios=nscen, generated=n_rand, interleaved=n_inter, case_twins=n_twin, malformed=n_mal, with_audit_enabled=sum(audits))
    return ctx.finish(rule="corpus + fixed scenario histories (every chain/service operation x approve/reject with requests before, during, after and across a restart; "
                           "registration approved after the chain froze; permission-only update; rejected logout; rule and role flows) + seeded random governed histories "
                           "(setup prefix, then weighted operations, decisions and requests) + a malformed stream; non-trivial = at least one accepted and one refused "
                           "operation, or both an accepted and a refused/failed request")


def run_one(ctx, exe, h, known, audit=False):
    rc, outs, e = run_driver(exe, [h], [audit])
    if rc != 0 or len(outs) != 1 or outs[0].get("setup") != "ok":
        return None, None
    vs = judge(ctx, [(h, outs[0]["steps"])], known, tag="C16r")
    if vs is None:
        return None, None
    return vs[0], outs[0]["steps"]


def shrink(ctx, exe, rep, known):
    """delta debugging on the list of blocks; proposal references are relative, so removing operations keeps a history meaningful"""
    h = rep["history"]
    want_kind = classify(rep["verdict"], known)[0]
    want_w = rep["verdict"][1] // 100000 if rep["verdict"][0] == 2 else None

    audit = bool(rep.get("audit"))

    def fails(cand):
        v, _ = run_one(ctx, exe, cand, known, audit)
        if v is None:
            return False
        k, _ = classify(v, known)
        return k == want_kind and (want_w is None or (v[0] == 2 and v[1] // 100000 == want_w))

    # whole blocks first, then single transactions out of packed blocks, then unpacking
    bs = to_blocks(h)
    n = 2
    budget = 40
    while len(bs) >= 2 and budget > 0:
        chunk = max(1, len(bs) // n)
        removed = False
        for i in range(0, len(bs), chunk):
            budget -= 1
            cand = bs[:i] + bs[i + chunk:]
            if cand and fails(from_blocks(cand)):
                bs = cand
                n = max(n - 1, 2)
                removed = True
                break
            if budget <= 0:
                break
        if not removed:
            if chunk == 1:
                break
            n = min(n * 2, len(bs))
    for bi in range(len(bs)):
        j = 0
        while len(bs[bi]) > 1 and j < len(bs[bi]) and budget > -12:
            budget -= 1
            cand = bs[:bi] + [bs[bi][:j] + bs[bi][j + 1:]] + bs[bi + 1:]
            if fails(from_blocks(cand)):
                bs = cand
            else:
                j += 1
    for bi in range(len(bs) - 1, -1, -1):
        if len(bs[bi]) > 1 and budget > -20:
            budget -= 1
            cand = bs[:bi] + [[o] for o in bs[bi]] + bs[bi + 1:]
            if fails(from_blocks(cand)):
                bs = cand
    h = from_blocks(bs)
    v, steps = run_one(ctx, exe, h, known, audit)
    rep["history"] = h
    if v is not None:
        rep["verdict"], rep["impl_trace"] = v, steps
        rep["what"] = classify(v, known)[1] or rep["what"]
    return rep


def replay(ctx, path):
    obj = json.load(open(path))
    if "history" not in obj:
        print(json.dumps(dict(replay=path, note="no history in replay file (broken obligation)", broken=obj.get("broken"))))
        return 1
    vlib.run_extractor()
    vlib.coq_build(["theories/Model/Lifecycle.vo"])
    exe, err = vlib.build_harness("lifecycle")
    known = {f["id"]: f for f in vlib.known_findings() if f["property"] == "C16" and f.get("status") == "open"}
    v, steps = run_one(ctx, exe, obj["history"], known, bool(obj.get("audit")))
    if v is None:
        print(json.dumps(dict(replay=path, error="driver or judge failed")))
        return 1
    for o, s in zip(flat(obj["history"]), steps):
        print(json.dumps(dict(op=o, ok=s["ok"], out=s["out"], chains=s["chains"], svcs=[(x[0], x[2], x[3]) for x in s["svcs"]], cache=[(x[0], x[2]) for x in s["cache"]])))
    print(json.dumps(dict(verdict=v, reading=classify(v, known))))
    return 0 if v[0] == 0 else 1
